"""C10 -- the galaxy catalogue is identical for every thread count (determinism skeleton)."""
import ast

from ..core import own
from ..core.hodpass import Pass2, GH, idx, tracer_of
from ..core.srcmodel import dotted, unparse, walk_no_nested, AnalysisError, names_in

HOD = 'abacusnbody/hod/abacus_hod.py'
FILES = [GH, HOD]
BLOCKS = 'np.rint(np.linspace(0, H, Nthread + 1)).astype(np.int64)'


def run(chk):
    src = chk.src
    chk.explanation = ('Determinism is decided structurally: every output row is a pure function of one host row, and the placement of '
                       'rows is the host order, independent of Nthread. Checked: ownership class of every store under prange (nothing '
                       'shared); count and fill pass iterate the same contiguous per-thread host blocks (block-table idiom, which tiles '
                       '[0,H) for every thread count including T > H and H = 0); cursors start at the prefix sums of the per-thread '
                       'counts and array sizes are the totals; each count branch sets the keep code and increments its own counter '
                       'exactly once while the fill branch of that code advances its own cursor exactly once; no randomness, time or '
                       'thread id reaches a row value; fast_concatenate realises the same index map on its serial and parallel paths '
                       'with block tables that tile both inputs and dispatch every thread to exactly one block.')
    chk.rule('C10-R1', 'no store under prange is shared (thread-row / block-private / cursor-private only)', 4)
    chk.rule('C10-R2', 'count and fill pass use identical host blocks hstart[tid]..hstart[tid+1] from rint(linspace(0,H,T+1))', 4)
    chk.rule('C10-R3', 'prefix sums: gstart[0,:]=0, gstart[1:,c]=Nout[:,c,0].cumsum(); cursors = gstart[tid]; sizes = gstart[-1,c]', 6)
    chk.rule('C10-R4', 'count/fill agreement: each branch sets keep=c and increments counter c-1 once; fill branch c advances cursor c once', 12)
    chk.rule('C10-R5', 'purity: no randomness/time/global state reachable; row values do not mention the thread id', 2)
    chk.rule('C10-R7', 'host iterations are independent: no scalar is carried from one host to the next inside a thread block (except the fill cursors)', 4)
    chk.rule('C10-R6', 'fast_concatenate: serial and parallel paths share one index map; block tables tile both inputs; every tid dispatched once', 8)
    chk.assume('floor(T*N1/(N1+N2)) <= T-1 for N2 > 0 (real arithmetic): at least one thread serves the second array')
    chk.assume('bitwise float equality follows from purity (no cross-row arithmetic under fastmath) and is not separately decided')
    for name in ('gen_cent', 'gen_sats'):
        P = Pass2(src, name)
        fn = P.fn
        for node, txt in P.problems:
            chk.refuted('C10-R4', GH, name, f'unrecognised: {txt}', txt, node=node)
        # R1
        stores = own.classify_function(fn)
        shared = [s for s in stores if s.cls == 'shared']
        classes = sorted({s.cls for s in stores})
        chk.check(bool(stores) and not shared, 'C10-R1', GH, name, f'{len(stores)} stores under prange', f'{classes}',
                  '; '.join(f'{unparse(s.node)} (line {s.node.lineno}) is shared between threads' for s in shared[:3]) +
                  ': the result depends on the thread schedule', node=shared[0].node if shared else fn)
        # R2
        hs = unparse(P.hstart_def.value) if P.hstart_def is not None else None
        Hdef = [s for s in fn.body if isinstance(s, ast.Assign) and unparse(s.targets[0]) == 'H']
        okH = len(Hdef) == 1 and unparse(Hdef[0].value).startswith('len(')
        chk.check(hs == BLOCKS and okH, 'C10-R2', GH, name, 'block table = rint(linspace(0, H, Nthread+1)) with H the host count', f'H = {unparse(Hdef[0].value) if Hdef else None}',
                  f'hstart = {hs}: the blocks would not tile [0,H) for every thread count (hosts skipped or processed twice)', node=P.hstart_def or fn, nf=hs)
        rc = (unparse(P.count.iter), unparse(P.ci.iter).replace(P.tid_c, '@'))
        rf = (unparse(P.fill.iter), unparse(P.fi.iter).replace(P.tid_f, '@'))
        want = ('numba.prange(Nthread)', 'range(hstart[@], hstart[@ + 1])')
        chk.check(rc == rf == want, 'C10-R2', GH, name, 'count and fill pass iterate identical blocks', f'{rc}',
                  (f'count pass iterates {rc}, fill pass {rf}: rows are counted for one block and written for another' if rc != rf else
                   f'both passes iterate {rc[0]} over {rc[1]}, but the block table has Nthread + 1 edges: host blocks are skipped (or edges beyond the table are read) whenever the two counts differ'),
                  node=P.fill)
        # R3
        okal = P.gs_alloc is not None and unparse(P.gs_alloc.value.args[0]) in ('(Nthread + 1, 3)', '(len(Nout) + 1, 3)', '(Nout.shape[0] + 1, 3)') and P.nout_alloc is not None and \
            unparse(P.nout_alloc.value).startswith('np.zeros((Nthread, 3,')
        chk.check(okal and P.gs_zero is not None, 'C10-R3', GH, name, 'gstart has Nthread+1 rows, first row zero; counters zero-initialised per thread', '',
                  'gstart / Nout allocation or the zero first row changed: cursors would start at garbage', node=P.gs_alloc or fn)
        okcols = sorted(P.gs_cols) == ['0', '1', '2'] and all(P.gs_cols[c][0] == c for c in P.gs_cols)
        chk.check(okcols, 'C10-R3', GH, name, 'gstart[1:, c] = Nout[:, c, 0].cumsum() for c = 0,1,2', f'{ {c: v[0] for c, v in P.gs_cols.items()} }',
                  f'prefix sums { {c: v[0] for c, v in P.gs_cols.items()} }: a tracer\'s cursor would be computed from another tracer\'s counts', node=fn)
        chk.check(P.cursor_src == f'gstart[{P.tid_f}]' and len(P.cursors) == 3, 'C10-R3', GH, name, 'cursors start at gstart[tid]', f'{P.cursors}',
                  f'cursors {P.cursors} initialised from {P.cursor_src}', node=P.fill)
        # R4 count side
        codes = {}
        for n, b in enumerate(P.branches):
            okb = len(b['rows']) == 1 and len(b['codes']) == 1 and b['rows'][0][0][0] == P.tid_c and b['rows'][0][0][2] == '0' and \
                b['rows'][0][1] == '1' and b['rows'][0][2] == 'Add' and b['codes'][0][0] == [P.i_c]
            row = b['rows'][0][0][1] if b['rows'] else None
            code = b['codes'][0][1] if b['codes'] else None
            okb = okb and row is not None and code is not None and code.isdigit() and int(code) == int(row) + 1
            codes[code] = row
            chk.check(okb, 'C10-R4', GH, name, f'count branch {n + 1}: keep = {code}, counter row {row}', '',
                      f'branch {n + 1} sets keep={code} but increments Nout row {row} ({b["rows"]}): count and fill pass disagree', node=b['node'])
        chk.check(P.else_code == ([P.i_c], '0') and len(P.branches) == 3, 'C10-R4', GH, name, 'exhaustive and exclusive decision (if/elif/else keep=0)', '',
                  f'final else assigns {P.else_code}; {len(P.branches)} branches', node=P.decision)
        # R4 fill side
        for n, fb in enumerate(P.fbranches):
            code = fb['code']
            k = int(code) - 1 if code and code.isdigit() else None
            cur = P.cursors[k] if k is not None and k < len(P.cursors) else None
            incs = [s for s in fb['body'] if isinstance(s, ast.AugAssign) and isinstance(s.target, ast.Name) and s.target.id in P.cursors]
            deep = [s for st in fb['body'] for s in ast.walk(st) if isinstance(s, ast.AugAssign) and isinstance(s.target, ast.Name) and s.target.id in P.cursors]
            okf = cur is not None and len(incs) == 1 and len(deep) == 1 and incs[0].target.id == cur and unparse(incs[0].value) == '1' and fb['body'][-1] is incs[0]
            # arrays written belong to the size of column k
            arrs = {unparse(s.targets[0].value) for st in fb['body'] for s in ast.walk(st) if isinstance(s, ast.Assign) and isinstance(s.targets[0], ast.Subscript)}
            cols = {P.sizes.get(P.arrays.get(a)) for a in arrs}
            okf = okf and cols == {str(k)}
            chk.check(okf, 'C10-R4', GH, name, f'fill branch keep=={code}: cursor {cur} advanced once after the stores; arrays sized by column {k}', f'{sorted(arrs)}',
                      f'fill branch keep=={code}: cursor increments {[unparse(s) for s in deep]}, arrays {sorted(arrs)} sized by columns {cols}: a row is left unwritten or written twice',
                      node=fb['node'])
        from ..core.srcmodel import early_exits
        ex = early_exits(P.ci) + early_exits(P.fi) + early_exits(P.count) + early_exits(P.fill)
        chk.check(not ex, 'C10-R4', GH, name, 'no host is skipped: no continue/break/return inside the count or fill loops', '',
                  f'{type(ex[0]).__name__.lower() if ex else ""} at line {ex[0].lineno if ex else 0}: a host can leave the iteration before its keep code / counter / row is written',
                  node=ex[0] if ex else P.count, nontrivial=False)
        # R7: a host's rows are a function of that host alone: no scalar survives from one host iteration to the next (a value cached for
        # "the same host as before" is refreshed relative to the start of the TABLE, not of the thread's block, so what a host gets depends on
        # where the block edges fall, i.e. on Nthread); the cursors of the fill pass are the only carried names
        from ..core.carried import carried_names
        for lp_, what_, allowed_ in ((P.ci, 'count', set()), (P.fi, 'fill', set(P.cursors))):
            car_, aug_ = carried_names(lp_)
            extra_aug = [a_ for a_ in aug_ if a_ not in allowed_]
            chk.check(not car_ and not extra_aug, 'C10-R7', GH, name, f'{what_} pass: every scalar an iteration reads was assigned by that iteration (carried: cursors only)',
                      f'carried on purpose: {aug_}',
                      '; '.join(f'{nm_} (line {nd_.lineno}) can be read before this iteration assigns it' for nm_, nd_ in car_[:3]) + (f'; accumulators {extra_aug}' if extra_aug else '') +
                      ': the value comes from the previous host of the SAME THREAD BLOCK (or from the block\'s start value), so the first hosts/particles of a block are treated '
                      'differently from the same rows in the middle of a block -- the catalogue changes with Nthread', node=car_[0][1] if car_ else lp_)
        chk.check(len(P.fbranches) == 3 and not P.fill_else and not P.fill_other, 'C10-R4', GH, name, 'fill pass has exactly one branch per keep code', '',
                  f'{len(P.fbranches)} fill branches, else={bool(P.fill_else)}, other statements={len(P.fill_other)}', node=P.fill, nontrivial=False)
        # R5
        bad = []
        for n in walk_no_nested(fn):
            if isinstance(n, ast.Call):
                cn = dotted(n.func)
                if cn.startswith(('np.random', 'random.', 'time.')) or cn in ('numba.get_thread_id',):
                    bad.append(cn)
        tid_uses = []
        for lp, tid in ((P.count, P.tid_c), (P.fill, P.tid_f)):
            for n in walk_no_nested(lp):
                if isinstance(n, ast.Name) and n.id == tid and isinstance(n.ctx, ast.Load):
                    par = n._parent
                    ok = False
                    while par is not None and par is not lp:
                        if isinstance(par, ast.Subscript) and unparse(par.value) in ('hstart', 'Nout', 'gstart'):
                            ok = True
                            break
                        par = getattr(par, '_parent', None)
                    if not ok:
                        tid_uses.append(unparse(n._parent))
        chk.check(not bad and not tid_uses, 'C10-R5', GH, name, 'no randomness / time / thread id in row values', '',
                  f'impure calls {bad}; thread id used outside block/counter indexing: {tid_uses[:3]}', node=fn)
    concat(chk)
    ss = src.func(HOD, '_searchsorted_parallel')
    st = own.classify_function(ss)
    chk.check(bool(st) and all(s.cls == 'iteration-private' for s in st), 'C10-R1', HOD, '_searchsorted_parallel', 'res[i] iteration-private', '',
              'the parallel host lookup writes a shared element', node=ss)


def concat(chk, R6='C10-R6', R1='C10-R1'):
    """fast_concatenate(a1, a2): out[k] = a1[k] for k < N1, a2[k - N1] for N1 <= k < N1 + N2, on the serial and the
    parallel path alike -- decided by a copy-map analysis (intervals and shifts as linear forms), not by text."""
    from ..core import copymap
    from ..core.lin import Lin
    src = chk.src
    fn = src.func(GH, 'fast_concatenate')
    a1, a2, nt = [a.arg for a in fn.args.args][:3]
    st = own.classify_function(fn)
    shared = [s for s in st if s.cls == 'shared']
    chk.check(bool(st) and not shared, R1, GH, 'fast_concatenate', 'stores under prange are block-private', f'{sorted({s.cls for s in st})}',
              f'{[unparse(s.node) for s in shared]} shared', node=fn)
    defs = {}
    for s_ in fn.body:
        if isinstance(s_, ast.Assign) and len(s_.targets) == 1 and isinstance(s_.targets[0], ast.Name):
            defs[s_.targets[0].id] = s_.value
    L1, L2 = Lin.sym(f'len({a1})'), Lin.sym(f'len({a2})')
    # early returns for empty inputs: `if <len a1> == 0: return a2 [elif|if] <len a2> == 0: return a1`
    empties = {}
    first_split = None
    for n in walk_no_nested(fn):
        if isinstance(n, ast.If) and isinstance(n.test, ast.Compare) and len(n.test.ops) == 1 and isinstance(n.test.ops[0], ast.Eq):
            l, r = copymap.lin_of(n.test.left, defs), copymap.lin_of(n.test.comparators[0], defs)
            if l is not None and r is not None and r == Lin.const(0) and n.body and isinstance(n.body[0], ast.Return):
                empties[repr(l)] = unparse(n.body[0].value)
    okearly = empties.get(repr(L1)) == a2 and empties.get(repr(L2)) == a1
    chk.check(okearly, R6, GH, 'fast_concatenate', 'an empty input returns the other array', f'{empties}',
              f'empty-input returns are {empties}: need len({a1}) == 0 -> {a2} and len({a2}) == 0 -> {a1} (the proportional thread split divides by N1 + N2 and needs both non-empty)', node=fn)
    alloc = [s_ for s_ in fn.body if isinstance(s_, ast.Assign) and isinstance(s_.value, ast.Call) and dotted(s_.value.func) in ('np.empty', 'np.zeros')]
    okalloc = False
    out_name = None
    if len(alloc) == 1 and alloc[0].value.args:
        n_ = copymap.lin_of(alloc[0].value.args[0], defs)
        okalloc = n_ is not None and n_ == L1 + L2
        out_name = unparse(alloc[0].targets[0])
    chk.check(okalloc, R6, GH, 'fast_concatenate', 'output has len(a1) + len(a2) entries', '', f'output allocation {unparse(alloc[0].value) if alloc else None}', node=alloc[0] if alloc else fn)
    want = {(out_name, repr(Lin.const(0)), repr(L1), a1, repr(Lin.const(0))), (out_name, repr(L1), repr(L1 + L2), a2, repr(L1.scale(-1)))}
    # paths: a serial branch `if Nthread == 1:` (optional) and the parallel region
    paths = []
    for s_ in fn.body:
        if isinstance(s_, ast.If) and isinstance(s_.test, ast.Compare) and nt in unparse(s_.test) and any(isinstance(x, ast.For) for x in s_.body):
            paths.append(('serial', s_.body, s_))
    rest = [s_ for s_ in fn.body if isinstance(s_, ast.For)]
    if rest:
        paths.append(('parallel', rest, rest[0]))
    chk.check(bool(rest), R6, GH, 'fast_concatenate', 'a parallel copy region exists', '', 'no copy loop at function level', node=fn, nontrivial=False)
    for name, stmts, node in paths:
        problems = []
        ps = copymap.pieces(stmts, defs, None, problems)
        got = {p_.key() for p_ in ps}
        ok = not problems and got == want
        why = '; '.join(t for _, t in problems[:2]) if problems else f'pieces {sorted(map(repr, ps))}: need {out_name}[0:N1] <- {a1}[k] and {out_name}[N1:N1+N2] <- {a2}[k - N1]'
        chk.check(ok, R6, GH, 'fast_concatenate', f'{name} path: out[0:N1] = a1, out[N1:N1+N2] = a2 (every element once, same index map)',
                  f'{sorted(map(repr, ps))}', f'{name} path: {why}', node=problems[0][0] if problems else node)
    # every block table needs at least one block, otherwise its interval is not covered at all: K1 = max(1, .) >= 1 by form;
    # K2 = Nthread - K1 >= 1 needs K1 <= Nthread - 1, i.e. the share of array1 rounded DOWN (N2 >= 1 makes the share < Nthread)
    from ..core.poly import Poly
    tabs = {k: copymap.table_of(v, defs) for k, v in defs.items()}
    tabs = {k: v for k, v in tabs.items() if v is not None}
    for T, (lo_, hi_, K, c_) in sorted(tabs.items()):
        ok, why = _blocks_at_least_one(K, defs, nt, a1, a2)
        chk.check(ok, R6, GH, 'fast_concatenate', f'block table {T} has at least one block', f'{K!r}: {why}',
                  f'table {T} has {K!r} blocks, which can be 0: {why} -- that array would not be copied at all', node=fn)
    # thread split: Nthread1 >= 1 and Nthread2 = Nthread - Nthread1 (the dispatch intervals are checked against the tables above)
    rets = [unparse(n.value) for n in walk_no_nested(fn) if isinstance(n, ast.Return)]
    chk.check(rets.count(out_name) >= 1 and set(rets) <= {a1, a2, out_name}, R6, GH, 'fast_concatenate', 'returns the assembled array', '', f'returns {rets}', node=fn, nontrivial=False)


def _blocks_at_least_one(K, defs, nt, a1, a2):
    """K (a Lin over the function's names, definitions already resolved) >= 1 ?  Understands
    K = X with X = max(1, ...)  and  K = Nthread - X with X = max(1, floor-rounded proportional share of Nthread)."""
    from ..core import copymap
    from ..core.lin import Lin
    from ..core.poly import Poly
    syms = sorted(K.syms())
    # find the name whose definition is max(1, E)
    share = None
    for nm, v in defs.items():
        if isinstance(v, ast.Call) and dotted(v.func) == 'max' and len(v.args) == 2 and any(isinstance(a, ast.Constant) and a.value == 1 for a in v.args):
            share = (nm, [a for a in v.args if not (isinstance(a, ast.Constant) and a.value == 1)][0])
    if share is None:
        return False, 'no max(1, share) definition found'
    nm, E = share
    if K == Lin.sym(nm):
        return True, f'{nm} = max(1, ...)'
    if not (K == Lin.sym(nt) - Lin.sym(nm)):
        return False, f'not of the form {nt} - {nm}'
    # strip the rounding
    rounding = []
    x = E
    while True:
        if isinstance(x, ast.Call) and len(x.args) == 1 and dotted(x.func) in ('int', 'np.int64', 'np.floor', 'math.floor', 'np.trunc', 'np.rint', 'np.round', 'round', 'np.ceil', 'math.ceil'):
            rounding.append(dotted(x.func))
            x = x.args[0]
            continue
        break
    floordiv = isinstance(x, ast.BinOp) and isinstance(x.op, ast.FloorDiv)
    if floordiv:
        rounding.append('//')
        num, den = x.left, x.right
    elif isinstance(x, ast.BinOp) and isinstance(x.op, ast.Div):
        num, den = x.left, x.right
    else:
        return False, f'share {unparse(E)} is not a quotient'

    def poly(e):
        if isinstance(e, ast.Name):
            d = defs.get(e.id)
            if d is not None and isinstance(d, ast.Call) and dotted(d.func) == 'len':
                return Poly.sym(unparse(d))
            return Poly.sym(e.id)
        if isinstance(e, ast.Constant) and type(e.value) is int:
            return Poly.const(e.value)
        if isinstance(e, ast.Call) and dotted(e.func) == 'len':
            return Poly.sym(unparse(e))
        if isinstance(e, ast.BinOp) and isinstance(e.op, (ast.Add, ast.Sub, ast.Mult)):
            a, b = poly(e.left), poly(e.right)
            if a is None or b is None:
                return None
            return a + b if isinstance(e.op, ast.Add) else (a - b if isinstance(e.op, ast.Sub) else a * b)
        if isinstance(e, ast.BinOp) and isinstance(e.op, ast.Div):
            a, b = poly(e.left), poly(e.right)
            if a is None or b is None or len(b.t) != 1:
                return None
            return a / b
        return None
    # num / den must equal Nthread * L1 / (L1 + L2): cross-multiplied polynomial identity
    L1, L2, N = Poly.sym(f'len({a1})'), Poly.sym(f'len({a2})'), Poly.sym(nt)
    # a quotient like Nthread * N1 / (N1 + N2): numerator may itself contain the division
    if isinstance(num, ast.BinOp) and isinstance(num.op, ast.Div):
        return False, 'nested quotient'
    pn, pd = poly(num), poly(den)
    if pn is None or pd is None or not (pn * (L1 + L2) == N * L1 * pd):
        return False, f'share {unparse(E)} is not {nt} * len({a1}) / (len({a1}) + len({a2}))'
    up = [r for r in rounding if r in ('np.rint', 'np.round', 'round', 'np.ceil', 'math.ceil')]
    if up or not rounding:
        return False, (f'the share of {a1} is rounded with {up or "nothing"}: it can reach {nt} (e.g. {nt} = 2, len({a1}) = 3, len({a2}) = 1), leaving no thread and no block for {a2}')
    return True, f'{nm} = max(1, floor share) <= {nt} - 1 because len({a2}) >= 1 and {nt} >= 2 on this path'
