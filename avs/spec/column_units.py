"""Oracle for C05: unit class of every halo column (source: property statement C05 and the HaloStat
struct docstring embedded in compaso_halo_catalog.py).  Patterns are full-match regexes over column names;
the first matching class wins; a column matching none is an analysis error (new, unreviewed column)."""
import re

INT16SCALE = 32000

CLASSES = [
    # (class, regex, reference)
    ('derived_sigmavMid', r'sigmavMid_(L2)?com', 'sqrt(sigmav3d^2 - sigmavMaj^2 - sigmavMin^2): a velocity; property statement'),
    ('ratio_sigmav3d', r'sigmav(Min|Maj|rad|tan)_(L2)?com', 'int16 ratio of sigmav3d ("sigmav_* / sigmav3d, compressed"); velocities per the property statement'),
    ('ratio_r100', r'(r10|r25|r33|r50|r67|r75|r90|r95|r98|rvcirc_max|sigmar)_(L2)?com', '"Expressed as ratios of r100, and scaled to 32000"'),
    ('unclassified', r'sigman_(L2)?com', 'weighted moment of inertia: statement does not fix its class'),
    ('length', r'(x|r100)_(L2)?com|SO_(L2max_)?(central_particle|radius)', 'unit-box lengths'),
    ('velocity', r'(v|sigmav3d|meanSpeed|sigmav3d_r50|meanSpeed_r50|vcirc_max)_(L2)?com', 'stored velocities (VelZSpace units)'),
    ('dimensionless', r'SO_(L2max_)?central_density|sigma[rnv]_eigenvecs(Min|Mid|Maj)_(L2)?com', 'density in cosmic-mean units; unit vectors'),
    ('integer', r'id|npstart[AB]|npout[AB]|ntagged[AB]|N|L2_N|L0_N|N_total|N_merge|npstart[AB]_merge|npout[AB]_merge|haloindex|is_merged_to|N_mainprog|haloindex_mainprog', 'integers returned unchanged'),
    ('unclassified', r'(vcirc_max_L2com|sigmav3d_L2com|v_L2com)_mainprog', 'pre-processed by the cleaning pipeline'),
    ('unclassified', r'N_interp|index_halo|origin|pos_avg|pos_interp|vel_avg|vel_interp|redshift_interp', 'light-cone columns'),
]


def classify(name):
    for cls, pat, ref in CLASSES:
        if re.fullmatch(pat, name):
            return cls, ref
    return None, None
