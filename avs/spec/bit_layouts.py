"""Oracle for C04 (source: property statement; docs/compaso.rst "Bit-packed formats"; comments in bitpacked.py).
RVint word (int32): position = signed bits 12..31 times BoxSize/1e6; velocity = (bits 0..11 - 2048) * 6000/2048.
Aux word (uint64): Lagrangian index x/y/z = bits 0-14 / 16-30 / 32-46; tagged = bit 48; density = (bits 49-58)^2;
pid = the 45 index bits in place, every other bit cleared."""
RVINT_POS = (12, 31, True)
RVINT_VEL = (0, 11, False)
VEL_BIAS = 2048
VEL_SCALE = (6000, 2048)
POS_DIV = 10**6
AUX_IDX = [(0, 14), (16, 30), (32, 46)]
AUX_TAGGED = (48, 48)
AUX_DENSITY = (49, 58)
