"""Kernel contracts (reviewed data, DESIGN.md Appendix B). Each 'requires' clause is a linear fact
over parameter sizes with the docstring sentence / caller fact it comes from.  Facts derived from a
contract make the dependent obligations ASSUMED(reason) instead of PROVEN."""

CONTRACTS = {
    'abacusnbody/analysis/tsc.py:partition_parallel': dict(
        params={'pos': 'arr', 'npartition': 'int', 'boxsize': 'opaque', 'weights': 'optarr', 'coord': 'int', 'nthread': 'int', 'sort': 'bool'},
        rank={'pos': 2, 'weights': 1},
        requires=[('npartition >= 1', 'npartition : "The number of partitions"'),
                  ('len(weights) == len(pos)', 'weights : "ndarray of shape (n,)" for pos of shape (n,3)'),
                  ('coord >= 0', 'coord : "0 is x, 1 is y, etc."'), ('coord <= 2', 'coord : "0 is x, 1 is y, etc."')],
        alternatives=[[('nthread >= 1', 'nthread : number of threads')],
                      [('nthread <= -1', 'nthread : "Values < 0 use numba.config.NUMBA_NUM_THREADS"')]],
        float_bounds=[('pos[i, coord] * inv_pwidth', '0', None,
                       'pos : "The positions, in domain [0,boxsize)" so the truncated key is >= 0 (L7)')],
        value_indices={'s': 's = pointers[t, k] is a thread-private cursor inside [0, len(pos)) by the transposed prefix-sum construction (C17-R2/R3)'},
    ),
    'abacusnbody/analysis/tsc.py:_tsc_parallel': dict(
        params={'ppart': 'arr', 'starts': 'arr', 'dens': 'arr', 'box': 'opaque', 'weights': 'optarr', 'offset': 'opaque'},
        rank={'starts': 1},
        requires=[('len(starts) >= 2', 'tsc_parallel passes the npartition+1 >= 2 stripe offsets of partition_parallel, or [0, len(pos)]')],
    ),
    'abacusnbody/analysis/tsc.py:_wrap_inplace': dict(
        params={'pos': 'arr', 'box': 'opaque'}, rank={'pos': 2},
        requires=[('pos.shape[1] >= 3', 'pos : "ndarray of shape (n,3)"')],
    ),
    'abacusnbody/analysis/tsc.py:_zeros_parallel': dict(params={'shape': 'opaque', 'dtype': 'opaque'}),
    'abacusnbody/data/compaso_halo_catalog.py:CompaSOHaloCatalog._unpack_rv_subsamples': dict(
        params={'pos': 'optarr', 'vel': 'optarr', 'rvint': 'optarr', 'slab_rvint': 'arr', 'slab_read_offsets': 'arr', 'slab_read_lens': 'arr',
                'slab_write_offsets': 'arr', 'boxsize': 'opaque', 'clean_slab_rvint': 'optarr', 'clean_slab_read_offsets': 'optarr',
                'clean_slab_read_lens': 'optarr'},
        rank={'slab_read_offsets': 1, 'slab_read_lens': 1, 'slab_write_offsets': 1, 'clean_slab_read_offsets': 1, 'clean_slab_read_lens': 1},
        requires=[('len(slab_read_lens) == len(slab_read_offsets)', 'caller slices npstart/npout columns by the same halo row range (C01-R3)'),
                  ('len(slab_write_offsets) == len(slab_read_offsets) + 1', 'caller passes new[off[i] : off[i+1] + 1] (C01-R3)'),
                  ('len(clean_slab_read_offsets) == len(slab_read_offsets)', 'caller slices the _merge columns by the same halo row range (C01-R3)'),
                  ('len(clean_slab_read_lens) == len(slab_read_offsets)', 'caller slices the _merge columns by the same halo row range (C01-R3)')],
    ),
    'abacusnbody/data/compaso_halo_catalog.py:CompaSOHaloCatalog._unpack_pid_subsamples': dict(
        params={'pid': 'optarr', 'slab_packedpid': 'arr', 'slab_read_offsets': 'arr', 'slab_read_lens': 'arr', 'slab_write_offsets': 'arr',
                'boxsize': 'opaque', 'ppd': 'opaque', 'clean_slab_packedpid': 'optarr', 'clean_slab_read_offsets': 'optarr',
                'clean_slab_read_lens': 'optarr', 'lagr_pos': 'optarr', 'tagged': 'optarr', 'density': 'optarr', 'lagr_idx': 'optarr', 'packedpid': 'optarr'},
        rank={'slab_read_offsets': 1, 'slab_read_lens': 1, 'slab_write_offsets': 1, 'clean_slab_read_offsets': 1, 'clean_slab_read_lens': 1},
        requires=[('len(slab_read_lens) == len(slab_read_offsets)', 'caller slices npstart/npout columns by the same halo row range (C01-R3)'),
                  ('len(slab_write_offsets) == len(slab_read_offsets) + 1', 'caller passes new[off[i] : off[i+1] + 1] (C01-R3)'),
                  ('len(clean_slab_read_offsets) == len(slab_read_offsets)', 'caller slices the _merge columns by the same halo row range (C01-R3)'),
                  ('len(clean_slab_read_lens) == len(slab_read_offsets)', 'caller slices the _merge columns by the same halo row range (C01-R3)')],
    ),
    'abacusnbody/util.py:cumsum': dict(
        params={'arr': 'arr', 'out': 'arr', 'initial': 'bool', 'final': 'bool', 'offset': 'opaque'},
        rank={'arr': 1, 'out': 1},
    ),
}
