"""Kernel contracts (reviewed data, DESIGN.md Appendix B). Each 'requires' clause is a linear fact
over parameter sizes with the docstring sentence / caller fact it comes from.  Facts derived from a
contract make the dependent obligations ASSUMED(reason) instead of PROVEN."""

CONTRACTS = {
    'abacusnbody/analysis/tsc.py:partition_parallel': dict(
        params={'pos': 'arr', 'npartition': 'int', 'boxsize': 'opaque', 'weights': 'optarr', 'coord': 'int', 'nthread': 'int', 'sort': 'bool'},
        rank={'pos': 2, 'weights': 1},
        requires=[('npartition >= 1', 'npartition : "The number of partitions"'),
                  ('len(weights) == len(pos)', 'weights : "ndarray of shape (n,)" for pos of shape (n,3)'),
                  ('coord >= 0', 'coord : "0 is x, 1 is y, etc."'), ('coord <= 2', 'coord : "0 is x, 1 is y, etc."')],
        alternatives=[[('nthread >= 1', 'nthread : number of threads')],
                      [('nthread <= -1', 'nthread : "Values < 0 use numba.config.NUMBA_NUM_THREADS"')]],
        float_bounds=[('pos[i, coord] * inv_pwidth', '0', None,
                       'pos : "The positions, in domain [0,boxsize)" so the truncated key is >= 0 (L7)'),
                      ('np.float64(pos[i, coord]) * npartition / boxsize', '0', None,
                       'pos : "The positions, in domain [0,boxsize)" so the truncated key is >= 0 (L7)')],
        value_indices={'s': 's = pointers[t, k] is a thread-private cursor inside [0, len(pos)) by the transposed prefix-sum construction (C17-R2/R3)'},
    ),
    'abacusnbody/analysis/tsc.py:_tsc_parallel': dict(
        params={'ppart': 'arr', 'starts': 'arr', 'dens': 'arr', 'box': 'opaque', 'weights': 'optarr', 'offset': 'opaque'},
        rank={'starts': 1},
        requires=[('len(starts) >= 2', 'tsc_parallel passes the npartition+1 >= 2 stripe offsets of partition_parallel, or [0, len(pos)]')],
    ),
    'abacusnbody/analysis/tsc.py:_wrap_inplace': dict(
        params={'pos': 'arr', 'box': 'opaque'}, rank={'pos': 2},
        requires=[('pos.shape[1] >= 3', 'pos : "ndarray of shape (n,3)"')],
    ),
    'abacusnbody/analysis/tsc.py:_zeros_parallel': dict(params={'shape': 'opaque', 'dtype': 'opaque'}),
    'abacusnbody/data/compaso_halo_catalog.py:CompaSOHaloCatalog._unpack_rv_subsamples': dict(
        params={'pos': 'optarr', 'vel': 'optarr', 'rvint': 'optarr', 'slab_rvint': 'arr', 'slab_read_offsets': 'arr', 'slab_read_lens': 'arr',
                'slab_write_offsets': 'arr', 'boxsize': 'opaque', 'clean_slab_rvint': 'optarr', 'clean_slab_read_offsets': 'optarr',
                'clean_slab_read_lens': 'optarr'},
        rank={'slab_read_offsets': 1, 'slab_read_lens': 1, 'slab_write_offsets': 1, 'clean_slab_read_offsets': 1, 'clean_slab_read_lens': 1},
        requires=[('len(slab_read_lens) == len(slab_read_offsets)', 'caller slices npstart/npout columns by the same halo row range (C01-R3)'),
                  ('len(slab_write_offsets) == len(slab_read_offsets) + 1', 'caller passes new[off[i] : off[i+1] + 1] (C01-R3)'),
                  ('len(clean_slab_read_offsets) == len(slab_read_offsets)', 'caller slices the _merge columns by the same halo row range (C01-R3)'),
                  ('len(clean_slab_read_lens) == len(slab_read_offsets)', 'caller slices the _merge columns by the same halo row range (C01-R3)')],
    ),
    'abacusnbody/data/compaso_halo_catalog.py:CompaSOHaloCatalog._unpack_pid_subsamples': dict(
        params={'pid': 'optarr', 'slab_packedpid': 'arr', 'slab_read_offsets': 'arr', 'slab_read_lens': 'arr', 'slab_write_offsets': 'arr',
                'boxsize': 'opaque', 'ppd': 'opaque', 'clean_slab_packedpid': 'optarr', 'clean_slab_read_offsets': 'optarr',
                'clean_slab_read_lens': 'optarr', 'lagr_pos': 'optarr', 'tagged': 'optarr', 'density': 'optarr', 'lagr_idx': 'optarr', 'packedpid': 'optarr'},
        rank={'slab_read_offsets': 1, 'slab_read_lens': 1, 'slab_write_offsets': 1, 'clean_slab_read_offsets': 1, 'clean_slab_read_lens': 1},
        requires=[('len(slab_read_lens) == len(slab_read_offsets)', 'caller slices npstart/npout columns by the same halo row range (C01-R3)'),
                  ('len(slab_write_offsets) == len(slab_read_offsets) + 1', 'caller passes new[off[i] : off[i+1] + 1] (C01-R3)'),
                  ('len(clean_slab_read_offsets) == len(slab_read_offsets)', 'caller slices the _merge columns by the same halo row range (C01-R3)'),
                  ('len(clean_slab_read_lens) == len(slab_read_offsets)', 'caller slices the _merge columns by the same halo row range (C01-R3)')],
    ),
    'abacusnbody/util.py:cumsum': dict(
        params={'arr': 'arr', 'out': 'arr', 'initial': 'bool', 'final': 'bool', 'offset': 'opaque'},
        rank={'arr': 1, 'out': 1},
    ),
}

_OUT = 'output arrays are "the array in which to store the unpacked" values: one row per input record (3 columns for vector fields)'
CONTRACTS.update({
    'abacusnbody/data/bitpacked.py:_unpack_rvint': dict(
        params={'intdata': 'arr', 'boxsize': 'opaque', 'posout': 'optarr', 'velout': 'optarr'},
        rank={'intdata': 2, 'posout': 2, 'velout': 2},
        requires=[('intdata.shape[1] >= 3', 'unpack_rvint reshapes the rvint data to (-1, 3)'),
                  ('posout.shape[0] >= len(intdata)', _OUT), ('posout.shape[1] >= 3', _OUT),
                  ('velout.shape[0] >= len(intdata)', _OUT), ('velout.shape[1] >= 3', _OUT)]),
    'abacusnbody/data/bitpacked.py:_unpack_pids': dict(
        params={'packed': 'arr', 'box': 'opaque', 'ppd': 'opaque', 'pid': 'optarr', 'lagr_pos': 'optarr', 'tagged': 'optarr',
                'density': 'optarr', 'lagr_idx': 'optarr', 'float_dtype': 'opaque'},
        rank={'packed': 1, 'pid': 1, 'tagged': 1, 'density': 1, 'lagr_pos': 2, 'lagr_idx': 2},
        requires=[('len(pid) >= len(packed)', _OUT), ('len(tagged) >= len(packed)', _OUT), ('len(density) >= len(packed)', _OUT),
                  ('lagr_pos.shape[0] >= len(packed)', _OUT), ('lagr_pos.shape[1] >= 3', _OUT),
                  ('lagr_idx.shape[0] >= len(packed)', _OUT), ('lagr_idx.shape[1] >= 3', _OUT)]),
    'abacusnbody/data/pack9.py:_unpack_pack9': dict(
        params={'data': 'arr', 'boxsize': 'opaque', 'velzspace_to_kms': 'opaque', 'posout': 'optarr', 'velout': 'optarr', 'dtype': 'opaque'},
        rank={'data': 2, 'posout': 2, 'velout': 2},
        requires=[('data.shape[1] >= 9', 'pack9 records are 9 bytes'),
                  ('posout.shape[0] >= len(data)', _OUT), ('posout.shape[1] >= 3', _OUT),
                  ('velout.shape[0] >= len(data)', _OUT), ('velout.shape[1] >= 3', _OUT)]),
    'abacusnbody/data/pack9.py:_expand_to_short': dict(
        params={'c': 'arr', 's': 'arr'}, rank={'c': 1, 's': 1},
        requires=[('len(c) >= 9', 'a pack9 record (row of the (N, 9) byte array)'), ('len(s) >= 6', 'caller allocates sh = np.empty(6)')]),
    'abacusnbody/analysis/tsc.py:_zeros_parallel': dict(params={'shape': 'shape', 'dtype': 'opaque'}),
    'abacusnbody/analysis/tsc.py:_tsc_scatter': dict(
        params={'positions': 'arr', 'density': 'arr', 'boxsize': 'opaque', 'weights': 'optarr', 'offset': 'opaque'},
        rank={'positions': 2, 'density': 3, 'weights': 1},
        requires=[('positions.shape[1] >= 3', 'pos : "ndarray of shape (n,3)"'), ('len(weights) >= len(positions)', 'weights : "ndarray of shape (n,)"'),
                  ('density.shape[0] >= 3', 'derived (C06-R6): with an offset of up to one cell, i+1 wraps once only if the axis has >= 3 cells'),
                  ('density.shape[1] >= 3', 'derived (C06-R6): with an offset of up to one cell, i+1 wraps once only if the axis has >= 3 cells')],
        alternatives=[[('density.shape[2] >= 3', 'derived (C06-R6) for a 3-D grid')], [('density.shape[2] == 1', 'a one-cell-thick third axis is the 2-D case')]],
        float_bounds=[('round(px)', '0', 'gx + 1', '"Expects particles in domain [0,boxsize)", offset within one cell: 0 <= round(p) <= g+1 (L6)'),
                      ('round(py)', '0', 'gy + 1', '"Expects particles in domain [0,boxsize)", offset within one cell: 0 <= round(p) <= g+1 (L6)'),
                      ('round(pz)', '0', 'gz + 1', '"Expects particles in domain [0,boxsize)", offset within one cell: 0 <= round(p) <= g+1 (L6)')]),
    'abacusnbody/analysis/cic.py:cic_serial': dict(
        params={'positions': 'arr', 'density': 'arr', 'boxsize': 'opaque', 'weights': 'optarr'},
        rank={'positions': 2, 'density': 3, 'weights': 1},
        requires=[('positions.shape[1] >= 3', 'particle positions of shape (N, 3)'), ('len(weights) >= len(positions)', 'one weight per particle'),
                  ('density.shape[0] >= 2', 'derived: i+1 <= g+1 wraps once only if the axis has >= 2 cells'),
                  ('density.shape[1] >= 2', 'derived: i+1 <= g+1 wraps once only if the axis has >= 2 cells')],
        alternatives=[[('density.shape[2] >= 2', 'derived for a 3-D grid')], [('density.shape[2] == 1', 'one-cell-thick third axis: the 2-D case')]],
        float_bounds=[('round(px)', '0', 'gx', 'positions in [0, boxsize]: 0 <= round(p) <= g (L6)'),
                      ('round(py)', '0', 'gy', 'positions in [0, boxsize]: 0 <= round(p) <= g (L6)'),
                      ('round(pz)', '0', 'gz', 'positions in [0, boxsize]: 0 <= round(p) <= g (L6)')]),
})

_MESH = 'weights : "array of shape (n1d, n1d, n1d//2+1) containing the power spectrum modes"'
_EDGES = 'edge arrays have at least one bin'
_BIN = dict(
    rank={'kedges': 1, 'muedges': 1, 'weights': 3, 'poles': 1},
    requires=[('weights.shape[0] >= n1d', _MESH), ('weights.shape[1] >= n1d', _MESH), ('weights.shape[2] >= n1d // 2 + 1', _MESH),
              ('len(kedges) >= 2', _EDGES), ('n1d >= 0', 'mesh size'), ('nthread >= 1', 'nthread : "Number of numba threads to use"')],
    # no cursor reason for muedges2 any more: "mu ranges from 0 to 1" does not bound the EDGES a caller passes (array mubins are used
    # as-is); since F34 the mu search is dominated by its own range test like the k and pi searches
    cursor_reasons={},
)
CONTRACTS.update({
    'abacusnbody/analysis/power_spectrum.py:bin_kmu': dict(
        params={'n1d': 'int', 'L': 'opaque', 'kedges': 'arr', 'muedges': 'arr', 'weights': 'arr', 'poles': 'arr', 'dtype': 'opaque', 'fourier': 'bool', 'nthread': 'int'},
        rank=_BIN['rank'], # one edge at least (np.linspace(0, 1, mubins + 1) with the public option mubins=0 has exactly one; F44): two entries are
        # NOT a precondition, the kernel has to leave before the search when there is no mu bin
        requires=_BIN['requires'] + [('len(muedges) >= 1', 'muedges : at least one edge (mubins = 0 gives np.linspace(0, 1, 1))')], cursor_reasons=_BIN['cursor_reasons']),
    'abacusnbody/analysis/power_spectrum.py:bin_kppi': dict(
        params={'n1d': 'int', 'L': 'opaque', 'kedges': 'arr', 'pimax': 'opaque', 'Npi': 'int', 'weights': 'arr', 'dtype': 'opaque', 'fourier': 'bool', 'nthread': 'int'},
        rank=_BIN['rank'], requires=_BIN['requires'] + [('Npi >= 1', 'Npi : "number of bins of pi"')]),
    'abacusnbody/analysis/power_spectrum.py:expand_poles_to_3d': dict(
        params={'k_ell': 'arr', 'P_ell': 'arr', 'n1d': 'int', 'L': 'opaque', 'poles': 'arr', 'dtype': 'opaque'},
        rank={'k_ell': 1, 'P_ell': 2, 'poles': 1},
        requires=[('len(k_ell) >= 2', 'k_ell : equidistant wavenumbers (the assert compares the first and last spacing)'),
                  ('P_ell.shape[0] >= len(poles)', 'P_ell : one row of multipole values per requested pole')]),
    'abacusnbody/analysis/power_spectrum.py:linear_interp': dict(
        params={'xd': 'opaque', 'x': 'arr', 'y': 'arr'}, rank={'x': 1, 'y': 1},
        requires=[('len(x) >= 2', '"x entries are equidistant and monotonically increasing"'), ('len(y) == len(x)', 'y values at each x')],
        # Only the LOWER bound is a floating-point fact (xd > x[0] and dx > 0 give (xd - x[0]) / dx >= 0 in any rounding mode).
        # The upper bound  floor((xd - x0)/dx) <= len-2  holds in real arithmetic only: dx = x[1] - x[0] is rounded, and for xd
        # one ulp below x[-1] the quotient is exactly len-1 (F18: y[len] was read).  The code has to clamp the index itself.
        float_bounds=[('np.int64(f)', '0', None, '"Assumes x entries are equidistant and monotonically increasing": xd > x[0] and x[1] > x[0] give floor((xd-x0)/dx) >= 0',
                       [['xd <= x[0]', 'xd < x[0]', 'x[0] >= xd', 'x[0] > xd']])]),
    'abacusnbody/analysis/power_spectrum.py:get_delta_mu2': dict(
        params={'delta': 'arr', 'n1d': 'int', 'dtype_c': 'opaque', 'dtype_f': 'opaque'}, rank={'delta': 3},
        requires=[('delta.shape[0] >= n1d', 'delta : rfft mesh of shape (n1d, n1d, n1d//2+1)'), ('delta.shape[1] >= n1d', 'delta : rfft mesh'),
                  ('delta.shape[2] >= n1d // 2 + 1', 'delta : rfft mesh')]),
    'abacusnbody/analysis/power_spectrum.py:shift_field_fft': dict(
        params={'field_fft': 'arr', 'field_shift_fft': 'arr', 'n1d': 'int', 'L': 'opaque', 'd': 'opaque', 'dtype': 'opaque'},
        rank={'field_fft': 3, 'field_shift_fft': 3},
        requires=[('field_fft.shape[0] >= n1d', 'both fields are rfftn of (n1d, n1d, n1d) meshes'), ('field_fft.shape[1] >= n1d', 'rfftn mesh'),
                  ('field_fft.shape[2] >= n1d // 2 + 1', 'rfftn mesh'), ('field_shift_fft.shape[0] >= n1d', 'rfftn mesh'),
                  ('field_shift_fft.shape[1] >= n1d', 'rfftn mesh'), ('field_shift_fft.shape[2] >= n1d // 2 + 1', 'rfftn mesh')]),
})

_HOST = 'per-host arrays are columns of one table (gen_gals passes halos_array / subsample columns): equal lengths'
_CUR = ('cursor of a tracer stays inside [gstart[tid,c], gstart[tid+1,c]) because count and fill pass agree (C10-R4) and the arrays have '
        'gstart[-1,c] entries (L12)')
def _eq(names, ref):
    return [(f'len({n}) == len({ref})', _HOST) for n in names]
CONTRACTS.update({
    'abacusnbody/hod/GRAND_HOD.py:gen_cent': dict(
        params={'pos': 'arr', 'vel': 'arr', 'mass': 'arr', 'ids': 'arr', 'multis': 'arr', 'randoms': 'arr', 'vdev': 'arr', 'deltac': 'arr', 'fenv': 'arr',
                'shear': 'arr', 'LRG_hod_dict': 'opaque', 'ELG_hod_dict': 'opaque', 'QSO_hod_dict': 'opaque', 'rsd': 'bool', 'inv_velz2kms': 'opaque',
                'lbox': 'opaque', 'want_LRG': 'bool', 'want_ELG': 'bool', 'want_QSO': 'bool', 'Nthread': 'int', 'origin': 'optarr'},
        rank={'pos': 2, 'vel': 2, 'vdev': 2, 'mass': 1, 'ids': 1, 'multis': 1, 'randoms': 1, 'deltac': 1, 'fenv': 1, 'shear': 1, 'origin': 1},
        requires=_eq(['pos', 'vel', 'ids', 'multis', 'randoms', 'vdev', 'deltac', 'fenv', 'shear'], 'mass') +
        [('pos.shape[1] >= 3', 'positions (N,3)'), ('vel.shape[1] >= 3', 'velocities (N,3)'), ('vdev.shape[1] >= 3', 'velocity deviates (N,3)'),
         ('len(origin) >= 3', 'light cone origin is a 3-vector'), ('Nthread >= 1', 'number of threads')],
        value_indices={'j1': _CUR, 'j2': _CUR, 'j3': _CUR}),
    'abacusnbody/hod/GRAND_HOD.py:gen_sats': dict(
        params={'ppos': 'arr', 'pvel': 'arr', 'hvel': 'arr', 'hmass': 'arr', 'hid': 'arr', 'weights': 'arr', 'randoms': 'arr', 'hdeltac': 'arr', 'hfenv': 'arr',
                'hshear': 'arr', 'enable_ranks': 'bool', 'ranks': 'arr', 'ranksv': 'arr', 'ranksp': 'arr', 'ranksr': 'arr', 'ranksc': 'arr',
                'LRG_hod_dict': 'opaque', 'ELG_hod_dict': 'opaque', 'QSO_hod_dict': 'opaque', 'rsd': 'bool', 'inv_velz2kms': 'opaque', 'lbox': 'opaque',
                'Mpart': 'opaque', 'want_LRG': 'bool', 'want_ELG': 'bool', 'want_QSO': 'bool', 'Nthread': 'int', 'origin': 'optarr', 'keep_cent': 'arr'},
        rank={'ppos': 2, 'pvel': 2, 'hvel': 2, 'hmass': 1, 'hid': 1, 'weights': 1, 'randoms': 1, 'hdeltac': 1, 'hfenv': 1, 'hshear': 1, 'ranks': 1,
              'ranksv': 1, 'ranksp': 1, 'ranksr': 1, 'ranksc': 1, 'keep_cent': 1, 'origin': 1},
        requires=_eq(['ppos', 'pvel', 'hvel', 'hid', 'weights', 'randoms', 'hdeltac', 'hfenv', 'hshear', 'ranks', 'ranksv', 'ranksp', 'ranksr', 'ranksc', 'keep_cent'], 'hmass') +
        [('ppos.shape[1] >= 3', 'positions (N,3)'), ('pvel.shape[1] >= 3', 'velocities (N,3)'), ('hvel.shape[1] >= 3', 'host velocities (N,3)'),
         ('len(origin) >= 3', 'light cone origin is a 3-vector'), ('Nthread >= 1', 'number of threads')],
        value_indices={'j1': _CUR, 'j2': _CUR, 'j3': _CUR}),
    'abacusnbody/hod/GRAND_HOD.py:fast_concatenate': dict(
        params={'array1': 'arr', 'array2': 'arr', 'Nthread': 'int'}, rank={'array1': 1, 'array2': 1},
        requires=[('Nthread >= 1', 'number of threads')],
        float_bounds=[('np.floor(Nthread * N1 / (N1 + N2))', '0', 'Nthread - 1', 'floor(T*N1/(N1+N2)) <= T-1 for N2 > 0 (real arithmetic; N2 == 0 returns earlier)')]),
    'abacusnbody/hod/GRAND_HOD.py:getPointsOnSphere': dict(
        params={'nPoints': 'int', 'Nthread': 'int', 'seed': 'optarr'}, rank={'seed': 1},
        requires=[('nPoints >= 0', 'number of points'), ('Nthread >= 1', 'number of threads'), ('len(seed) >= Nthread', 'one seed per thread')]),
})
_NFW = ('experimental NFW path: per-satellite arrays are np.repeat(<per-halo array>, num_sat) with num_sat.sum() entries, the block table ends at '
        'num_sat.sum(), rd_pos has one row per satellite and NFW_draw is "a long array of random numbers" (at least one per satellite)')
CONTRACTS.update({
    'abacusnbody/hod/GRAND_HOD.py:compute_fast_NFW': dict(
        params={'NFW_draw': 'arr', 'h_id': 'arr', 'x_h': 'arr', 'y_h': 'arr', 'z_h': 'arr', 'vx_h': 'arr', 'vy_h': 'arr', 'vz_h': 'arr', 'vrms_h': 'arr',
                'c': 'arr', 'M': 'arr', 'Rvir': 'arr', 'rd_pos': 'arr', 'num_sat': 'arr', 'f_sigv': 'opaque', 'vel_sat': 'opaque', 'Nthread': 'int',
                'exp_frac': 'opaque', 'exp_scale': 'opaque', 'nfw_rescale': 'opaque'},
        rank={'rd_pos': 2},
        requires=[('Nthread >= 1', 'number of threads'), ('rd_pos.shape[1] >= 3', 'random unit vectors (N,3)')],
        value_indices={'i': _NFW, 'ind': _NFW, 'tid': 'hstart has Nthread+1 entries', 'tid + 1': 'hstart has Nthread+1 entries', '0': _NFW}),
    'abacusnbody/hod/GRAND_HOD.py:gen_sats_nfw': dict(
        params={'NFW_draw': 'arr', 'hpos': 'arr', 'hvel': 'arr', 'hmass': 'arr', 'hid': 'arr', 'hdeltac': 'arr', 'hfenv': 'arr', 'hshear': 'arr', 'hvrms': 'arr',
                'hc': 'arr', 'hrvir': 'arr', 'LRG_hod_dict': 'opaque', 'ELG_hod_dict': 'opaque', 'QSO_hod_dict': 'opaque', 'want_LRG': 'bool', 'want_ELG': 'bool',
                'want_QSO': 'bool', 'rsd': 'bool', 'inv_velz2kms': 'opaque', 'lbox': 'opaque', 'keep_cent': 'arr', 'vel_sat': 'opaque', 'Nthread': 'int'},
        rank={'hpos': 2, 'hvel': 2, 'hmass': 1, 'hid': 1, 'hdeltac': 1, 'hfenv': 1, 'hshear': 1, 'keep_cent': 1},
        requires=_eq(['hpos', 'hvel', 'hid', 'hdeltac', 'hfenv', 'hshear', 'keep_cent'], 'hmass') +
        [('hpos.shape[1] >= 3', 'positions (N,3)'), ('hvel.shape[1] >= 3', 'velocities (N,3)'), ('Nthread >= 1', 'number of threads')]),
})
