"""Kernel contracts (reviewed data, DESIGN.md Appendix B). Each 'requires' clause is a linear fact
over parameter sizes with the docstring sentence / caller fact it comes from.  Facts derived from a
contract make the dependent obligations ASSUMED(reason) instead of PROVEN."""

CONTRACTS = {
    'abacusnbody/util.py:cumsum': dict(
        params={'arr': 'arr', 'out': 'arr', 'initial': 'bool', 'final': 'bool', 'offset': 'opaque'},
        rank={'arr': 1, 'out': 1},
    ),
}
