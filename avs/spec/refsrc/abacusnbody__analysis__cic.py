import numpy as np
import numba
from numba import njit


@numba.vectorize
def rightwrap(x, L):
    if x >= L:
        return x - L
    return x


@njit(nogil=True)
def cic_serial(positions, density, boxsize, weights=None):
    """
    Compute density using the cloud-in-cell algorithm. Assumes cubic box
    """
    gx = np.uint32(density.shape[0])
    gy = np.uint32(density.shape[1])
    gz = np.uint32(density.shape[2])
    threeD = gz != 1
    W = 1.0
    have_W = weights is not None

    for n in range(len(positions)):
        if have_W:
            W = weights[n]

        # convert to a position in the grid
        px = (positions[n, 0] / boxsize) * gx  # used to say boxsize+0.5
        py = (positions[n, 1] / boxsize) * gy  # used to say boxsize+0.5
        if threeD:
            pz = (positions[n, 2] / boxsize) * gz  # used to say boxsize+0.5

        # round to nearest cell center
        ix = np.int32(round(px))
        iy = np.int32(round(py))
        if threeD:
            iz = np.int32(round(pz))

        # calculate distance to cell center
        dx = ix - px
        dy = iy - py
        if threeD:
            dz = iz - pz

        # find the tsc weights for each dimension
        wx = 1.0 - np.abs(dx)
        if dx > 0.0:  # on the right of the center ( < )
            wxm1 = dx
            wxp1 = 0.0
        else:  # on the left of the center
            wxp1 = -dx
            wxm1 = 0.0
        wy = 1.0 - np.abs(dy)
        if dy > 0.0:
            wym1 = dy
            wyp1 = 0.0
        else:
            wyp1 = -dy
            wym1 = 0.0
        if threeD:
            wz = 1.0 - np.abs(dz)
            if dz > 0.0:
                wzm1 = dz
                wzp1 = 0.0
            else:
                wzp1 = -dz
                wzm1 = 0.0
        else:
            wz = 1.0

        # find the wrapped x,y,z grid locations of the points we need to change
        # negative indices will be automatically wrapped
        ixm1 = rightwrap(ix - 1, gx)
        ixw = rightwrap(ix, gx)
        ixp1 = rightwrap(ix + 1, gx)
        iym1 = rightwrap(iy - 1, gy)
        iyw = rightwrap(iy, gy)
        iyp1 = rightwrap(iy + 1, gy)
        if threeD:
            izm1 = rightwrap(iz - 1, gz)
            izw = rightwrap(iz, gz)
            izp1 = rightwrap(iz + 1, gz)
        else:
            izw = np.uint32(0)

        # change the 9 or 27 cells that the cloud touches
        density[ixm1, iym1, izw] += wxm1 * wym1 * wz * W
        density[ixm1, iyw, izw] += wxm1 * wy * wz * W
        density[ixm1, iyp1, izw] += wxm1 * wyp1 * wz * W
        density[ixw, iym1, izw] += wx * wym1 * wz * W
        density[ixw, iyw, izw] += wx * wy * wz * W
        density[ixw, iyp1, izw] += wx * wyp1 * wz * W
        density[ixp1, iym1, izw] += wxp1 * wym1 * wz * W
        density[ixp1, iyw, izw] += wxp1 * wy * wz * W
        density[ixp1, iyp1, izw] += wxp1 * wyp1 * wz * W

        if threeD:
            density[ixm1, iym1, izm1] += wxm1 * wym1 * wzm1 * W
            density[ixm1, iym1, izp1] += wxm1 * wym1 * wzp1 * W

            density[ixm1, iyw, izm1] += wxm1 * wy * wzm1 * W
            density[ixm1, iyw, izp1] += wxm1 * wy * wzp1 * W

            density[ixm1, iyp1, izm1] += wxm1 * wyp1 * wzm1 * W
            density[ixm1, iyp1, izp1] += wxm1 * wyp1 * wzp1 * W

            density[ixw, iym1, izm1] += wx * wym1 * wzm1 * W
            density[ixw, iym1, izp1] += wx * wym1 * wzp1 * W

            density[ixw, iyw, izm1] += wx * wy * wzm1 * W
            density[ixw, iyw, izp1] += wx * wy * wzp1 * W

            density[ixw, iyp1, izm1] += wx * wyp1 * wzm1 * W
            density[ixw, iyp1, izp1] += wx * wyp1 * wzp1 * W

            density[ixp1, iym1, izm1] += wxp1 * wym1 * wzm1 * W
            density[ixp1, iym1, izp1] += wxp1 * wym1 * wzp1 * W

            density[ixp1, iyw, izm1] += wxp1 * wy * wzm1 * W
            density[ixp1, iyw, izp1] += wxp1 * wy * wzp1 * W

            density[ixp1, iyp1, izm1] += wxp1 * wyp1 * wzm1 * W
            density[ixp1, iyp1, izp1] += wxp1 * wyp1 * wzp1 * W
