r"""
The power spectrum module contains various useful tools for computing power
spectra (wedges, multipoles and beyond) in the cubic box.
"""

import gc
import warnings

import numpy as np
import numba
from astropy.table import Table
from scipy.fft import rfftn, irfftn, fftfreq

from .tsc import tsc_parallel
from .cic import cic_serial


__all__ = [
    'calc_power',
    'calc_pk_from_deltak',
    'pk_to_xi',
    'project_3d_to_poles',
    'get_k_mu_edges',
]

MAX_THREADS = numba.config.NUMBA_NUM_THREADS

# the first 20 factorials
FACTORIAL_LOOKUP_TABLE = np.array(
    [
        1,
        1,
        2,
        6,
        24,
        120,
        720,
        5040,
        40320,
        362880,
        3628800,
        39916800,
        479001600,
        6227020800,
        87178291200,
        1307674368000,
        20922789888000,
        355687428096000,
        6402373705728000,
        121645100408832000,
        2432902008176640000,
    ],
    dtype=np.int64,
)


@numba.njit
def factorial(n):
    r"""
    Compute the factorial for some integer.

    Parameters
    ----------
    n : int
        integer number for which to calculate the factorial.
        Must be less than or equal to 20 and non-negative.

    Returns
    -------
    factorial : int
        the factorial of the requested integer.
    """
    if n > 20 or n < 0:
        raise ValueError
    factorial = FACTORIAL_LOOKUP_TABLE[n]
    return factorial


@numba.njit
def factorial_slow(x):
    r"""
    Brute-force compute the factorial for some integer.

    Parameters
    ----------
    x : int
        integer number for which to calculate the factorial.

    Returns
    -------
    n : int
        the factorial of the requested integer.
    """
    n = 1
    for i in range(2, x + 1):
        n *= i
    return n


@numba.njit
def n_choose_k(n, k):
    r"""
    Compute binomial coefficient for a choice of two integers (n, k).

    Parameters
    ----------
    n : int
        the integer `n` in n-choose-k.
    k : int
        the integer `k` in n-choose-k.

    Returns
    -------
    x : int
        binomial coefficient, n-choose-k.
    """
    x = factorial(n) // (factorial(k) * factorial(n - k))
    return x


@numba.njit
def P_n(x, n, dtype=np.float32):
    r"""
    Computes Legendre polynomial of order n for some squared quantity x. Maximum tested
    order of the polynomial is 10, after which we see deviations from `scipy`.

    Parameters
    ----------
    x : float
        variable in the polynomial.
    n : int
        order of the Legendre polynomial.

    Returns
    -------
    sum : float
        evaluation of the polynomial at `x`.
    """
    sum = dtype(0.0)
    for k in range(n // 2 + 1):
        factor = dtype(n_choose_k(n, k) * n_choose_k(2 * n - 2 * k, n))
        if k % 2 == 0:
            sum += factor * x ** (dtype(0.5 * (n - 2 * k)))
        else:
            sum -= factor * x ** (dtype(0.5 * (n - 2 * k)))
    sum *= dtype(0.5**n)
    return sum


@numba.njit(parallel=True, fastmath=True)
def bin_kmu(
    n1d,
    L,
    kedges,
    muedges,
    weights,
    poles=np.empty(0, 'i8'),
    dtype=np.float32,
    fourier=True,
    nthread=MAX_THREADS,
):
    r"""
    Compute mean and count modes in (k,mu) bins for a 3D rfft mesh of shape (n1d, n1d, n1d//2+1)
    or a real mesh of shape (n1d, n1d, n1d).

    The k and mu values are constructed on the fly. We use the monotonicity of
    k and mu with respect to kz to accelerate the bin search. The same can be used
    in real space where we only need to count the positive rz modes and double them.
    This works because we construct the `Xi(vec r)` by inverse Fourier transforming
    `P(vec k)`.

    Parameters
    ----------
    n1d : int
        size of the 3d array along x and y dimension.
    L : float
        box size of the simulation.
    kedges : array_like
        edges of the k wavenumbers or r separation bins.
    muedges : array_like
        edges of the mu bins. mu ranges from 0 to 1.
    weights : array_like
        array of shape (n1d, n1d, n1d//2+1) containing the power spectrum modes.
    poles : array_like
        Legendre multipoles of the power spectrum or correlation function.
    dtype : np.dtype
        float type (32 or 64) to use in calculations.
    fourier : bool
        options are Fourier space, True, which computes power spectrum,
        or configuration-space, False, which computes the correlation function.
    nthread : int, optional
        Number of numba threads to use

    Returns
    -------
    weighted_counts : ndarray of float
        mean power spectrum per (k, mu) wedge.
    counts : ndarray of int
        number of modes per (k, mu) wedge.
    weighted_counts_poles : ndarray of float
        mean power spectrum per k for each Legendre multipole.
    counts_poles : ndarray of int
        number of modes per k.
    weighted_counts_k : ndarray of float
        mean wavenumber per (k, mu) wedge.
    """

    numba.set_num_threads(nthread)

    kzlen = n1d // 2 + 1
    Nk = len(kedges) - 1
    Nmu = len(muedges) - 1
    if fourier:
        dk = 2.0 * np.pi / L
    else:
        dk = L / n1d
    # the squared k edges stay in float64: |k|^2 is an exact integer here, and an
    # edge rounded to float32 can land on it and move the whole shell one bin down
    kedges2 = (kedges / dk) ** 2
    # the squared mu edges and mu^2 itself stay in float64 as well: mu^2 is a ratio of
    # two exact integers, and float32 (edge and quotient each rounded at ~6e-8) files
    # modes within that distance of an edge on the wrong side of it
    muedges2 = muedges.astype(np.float64) ** 2

    nthread = numba.get_num_threads()
    counts = np.zeros((nthread, Nk, Nmu), dtype=np.int64)
    # accumulate in float64: a float32 running sum stops growing once it
    # reaches 2**24 times the size of the terms (large meshes, wide bins)
    weighted_counts = np.zeros((nthread, Nk, Nmu), dtype=np.float64)
    Np = len(poles)
    if Np == 0:
        poles = np.empty(0, dtype=np.int64)  # so that compiler does not complain
    else:
        poles = poles.astype(np.int64)
    weighted_counts_poles = np.zeros((nthread, len(poles), Nk), dtype=np.float64)
    weighted_counts_k = np.zeros((nthread, Nk, Nmu), dtype=np.float64)

    # Loop over all k vectors
    for i in numba.prange(n1d):
        tid = numba.get_thread_id()
        i2 = i**2 if i <= n1d // 2 else (i - n1d) ** 2
        for j in range(n1d):
            bk, bmu = 0, 0
            j2 = j**2 if j <= n1d // 2 else (j - n1d) ** 2
            for k in range(kzlen):
                kmag2 = dtype(i2 + j2 + k**2)
                if kmag2 > 0:
                    mu2 = np.float64(k**2) / np.float64(i2 + j2 + k**2)
                else:
                    mu2 = np.float64(0.0)  # matches nbodykit

                if kmag2 < kedges2[0]:
                    continue

                if kmag2 >= kedges2[-1]:
                    break

                # mu grows with kz: nothing to count below the first mu edge,
                # nothing left in this column above the last one
                if mu2 < muedges2[0]:
                    continue

                # (a single mu edge means no mu bins: a mode that equals it passes
                # the closed range test, but there is no bin to search or fill)
                if Nmu < 1 or mu2 > muedges2[-1]:
                    break

                while kmag2 > kedges2[bk + 1]:
                    bk += 1

                while mu2 > muedges2[bmu + 1]:
                    bmu += 1

                # the planes kz = 0 and (for even n1d) kz = n1d/2 are their own
                # conjugates; every other mode also stands for its conjugate
                selfconj = k == 0 or 2 * k == n1d
                counts[tid, bk, bmu] += 1 if selfconj else 2
                weighted_counts[tid, bk, bmu] += (
                    weights[i, j, k] if selfconj else dtype(2.0) * weights[i, j, k]
                )
                weighted_counts_k[tid, bk, bmu] += (
                    np.sqrt(kmag2) * dk
                    if selfconj
                    else dtype(2.0) * np.sqrt(kmag2) * dk
                )
                if Np > 0:
                    for ip in range(len(poles)):
                        pole = poles[ip]
                        if pole != 0:
                            pw = dtype(2 * pole + 1) * P_n(mu2, pole)
                            weighted_counts_poles[tid, ip, bk] += (
                                weights[i, j, k] * pw
                                if selfconj
                                else dtype(2.0) * weights[i, j, k] * pw
                            )

    counts = counts.sum(axis=0)
    weighted_counts = weighted_counts.sum(axis=0)
    weighted_counts_poles = weighted_counts_poles.sum(axis=0)
    weighted_counts_k = weighted_counts_k.sum(axis=0)
    counts_poles = counts.sum(axis=1)

    for ip, pole in enumerate(poles):
        if pole == 0:
            weighted_counts_poles[ip] = weighted_counts.sum(axis=1)

    for i in range(Nk):
        if Np > 0:
            if counts_poles[i] != 0:
                weighted_counts_poles[:, i] /= np.float64(counts_poles[i])
        for j in range(Nmu):
            if counts[i, j] != 0:
                weighted_counts[i, j] /= np.float64(counts[i, j])
                weighted_counts_k[i, j] /= np.float64(counts[i, j])
    return (
        weighted_counts.astype(dtype),
        counts,
        weighted_counts_poles.astype(dtype),
        counts_poles,
        weighted_counts_k.astype(dtype),
    )


@numba.njit(parallel=True, fastmath=True)
def bin_kppi(
    n1d,
    L,
    kedges,
    pimax,
    Npi,
    weights,
    dtype=np.float32,
    fourier=True,
    nthread=MAX_THREADS,
):
    r"""
    Compute mean and count modes in (kp, pi) bins for a 3D rfft mesh of shape (n1d, n1d, n1d//2+1)
    or a real mesh of shape (n1d, n1d, n1d).

    The kp and pi values are constructed on the fly. We use the monotonicity of
    pi with respect to kz to accelerate the bin search. The same can be used
    in real space where we only need to count the positive rz modes and double them.
    This works because we construct the `Xi(vec r)` by inverse Fourier transforming
    `P(vec k)`, so we preserve the symmetry. Note that Xi has dimensions of
    (nmesh, nmesh, nmesh).

    Parameters
    ----------
    n1d : int
        size of the 3d array along x and y dimension.
    L : float
        box size of the simulation.
    kedges : array_like
        edges of the k wavenumbers or r separation bins.
    pimax : float
        maximum value along the los for which we consider separations.
    Npi : int
        number of bins of pi, which ranges from 0 to pimax.
    weights : array_like
        array of shape (n1d, n1d, n1d//2+1) containing the power spectrum modes.
    dtype : np.dtype
        float type (32 or 64) to use in calculations.
    fourier : bool
        options are Fourier space, True, which computes power spectrum,
        or configuration-space, False, which computes the correlation function.
    nthread : int, optional
        Number of numba threads to use

    Returns
    -------
    weighted_counts : ndarray of float
        mean power spectrum per (kp, pi) bin.
    counts : ndarray of int
        number of modes per (kp, pi) bin.
    """

    numba.set_num_threads(nthread)

    kzlen = n1d // 2 + 1
    Nk = len(kedges) - 1
    if fourier:
        dk = 2.0 * np.pi / L
    else:
        dk = L / n1d
    # float64 squared edges, see bin_kmu
    kedges2 = (kedges / dk) ** 2
    piedges2 = (np.linspace(0.0, pimax, Npi + 1) / dk) ** 2

    nthread = numba.get_num_threads()
    counts = np.zeros((nthread, Nk, Npi), dtype=np.int64)
    # float64 accumulators, see bin_kmu
    weighted_counts = np.zeros((nthread, Nk, Npi), dtype=np.float64)

    # Loop over all k vectors
    for i in numba.prange(n1d):
        tid = numba.get_thread_id()
        i2 = i**2 if i <= n1d // 2 else (i - n1d) ** 2
        for j in range(n1d):
            bk, bpi = 0, 0  # kp not monotonic, but pi is monotonic
            j2 = j**2 if j <= n1d // 2 else (j - n1d) ** 2
            kmag2 = dtype(i2 + j2)

            # skip until we reach bin of interest
            if kmag2 < kedges2[0]:
                continue

            # out of bounds; kp is not monotonic in j, so later j may be in range
            if kmag2 >= kedges2[-1]:
                continue

            while kmag2 > kedges2[bk + 1]:
                bk += 1

            for k in range(kzlen):
                kz2 = k**2

                if kz2 >= piedges2[-1]:
                    break

                while kz2 > piedges2[bpi + 1]:
                    bpi += 1

                # the planes kz = 0 and (for even n1d) kz = n1d/2 are their own
                # conjugates; every other mode also stands for its conjugate
                selfconj = k == 0 or 2 * k == n1d
                counts[tid, bk, bpi] += 1 if selfconj else 2
                weighted_counts[tid, bk, bpi] += (
                    weights[i, j, k] if selfconj else dtype(2.0) * weights[i, j, k]
                )

    counts = counts.sum(axis=0)
    weighted_counts = weighted_counts.sum(axis=0)

    for i in range(Nk):
        for j in range(Npi):
            if counts[i, j] != 0:
                weighted_counts[i, j] /= np.float64(counts[i, j])
    return weighted_counts.astype(dtype), counts


def project_3d_to_poles(k_bin_edges, raw_p3d, Lbox, poles):
    r"""
    Project 3D power spectrum into multipoles of the power spectrum.

    Parameters
    ---------
    k_bin_edges : array_like
        edges of the k wavenumbers.
    raw_p3d : array_like
        array containing the power spectrum modes.
    Lbox : float
        box size of the simulation.
    poles : array_like
        Legendre multipoles of the power spectrum or correlation function.

    Returns
    -------
    binned_poles : array_like
        mean power spectrum per k for each Legendre multipole.
    Npoles : array_like
        number of modes per k.
    """
    assert np.max(poles) <= 10, 'numba implementation works up to ell = 10'
    nmesh = raw_p3d.shape[0]
    poles = np.asarray(poles)
    raw_p3d = np.asarray(raw_p3d)
    muedges = np.array([0.0, 1.0])
    binned_p3d, N3d, binned_poles, Npoles, k_avg = bin_kmu(
        nmesh, Lbox, k_bin_edges, muedges=muedges, weights=raw_p3d, poles=poles
    )
    binned_poles *= Lbox**3
    return binned_poles, Npoles


@numba.njit(parallel=True, fastmath=True)
def expand_poles_to_3d(k_ell, P_ell, n1d, L, poles, dtype=np.float32):
    r"""
    Expand power spectrum multipoles to a 3D power spectrum evaluated at the fundamental modes of the box.
    Uses a custom version of linear interpolation, since np.interp is very slow when not vectorized.

    Parameters
    ----------
    k_ell : array_like
        wavenumbers at which multipoles of the power spectrum are evaluated.
    P_ell : array_like
        power spectrum multipoles to be interpolated at the 3D k-vector values.
    n1d : int
        size of the 3d array along x and y dimension.
    L : float
        box size of the simulation.
    poles : array_like
        Legendre multipoles of the power spectrum.

    Returns
    -------
    Pk : array_like
        array of shape (n1d, n1d, n1d//2+1) containing 3D power spectrum modes.
    """

    assert np.abs((k_ell[1] - k_ell[0]) - (k_ell[-1] - k_ell[-2])) < 1.0e-6
    kzlen = n1d // 2 + 1
    numba.get_num_threads()
    Pk = np.zeros((n1d, n1d, kzlen), dtype=dtype)
    dk = dtype(2.0 * np.pi / L)
    k_ell = k_ell.astype(dtype)
    P_ell = P_ell.astype(dtype)

    # Loop over all k vectors
    for i in numba.prange(n1d):
        numba.get_thread_id()
        i2 = i**2 if i <= n1d // 2 else (i - n1d) ** 2
        for j in range(n1d):
            j2 = j**2 if j <= n1d // 2 else (j - n1d) ** 2
            for k in range(kzlen):
                kmag2 = dtype(i2 + j2 + k**2)
                if kmag2 > 0:
                    invkmag2 = kmag2**-1
                    mu2 = dtype(k**2) * invkmag2
                else:
                    mu2 = dtype(0.0)  # matches nbodykit
                for ip in range(len(poles)):
                    if poles[ip] == 0:
                        Pk[i, j, k] += linear_interp(
                            np.sqrt(kmag2) * dk, k_ell, P_ell[ip]
                        )
                    else:
                        Pk[i, j, k] += linear_interp(
                            np.sqrt(kmag2) * dk, k_ell, P_ell[ip]
                        ) * P_n(mu2, poles[ip])
    return Pk


@numba.njit
def linear_interp(xd, x, y):
    r"""
    Custom linear interpolation. Assumes `x` entries are equidistant and monotonically increasing.
    Assigns `y[0]` and `y[-1]` to the leftmost and rightmost edges, respectively.

    Parameters
    ----------
    xd : float
        x-value at which to evaluate function y(x).
    x : array_type
        equidistantly separated x values at which function y is provided.
    y : array_type
        y values at each x.

    Returns
    -------
    yd : float
        linearly interpolated value at `xd`.
    """
    if xd <= x[0]:
        return y[0]
    elif xd >= x[-1]:
        return y[-1]
    dx = x[1] - x[0]
    f = (xd - x[0]) / dx
    # x[1] - x[0] is a rounded spacing: for xd just below x[-1], f can reach
    # len(x) - 1, so keep the upper node y[fl + 1] inside the array
    fl = min(np.int64(f), len(x) - 2)
    yd = y[fl] + (f - fl) * (y[fl + 1] - y[fl])
    return yd


@numba.njit(parallel=True, fastmath=True)
def get_smoothing(n1d, L, R, dtype=np.float32):
    r"""
    Construct Gaussian kernel of the form exp(-k^2 R^2/2) as a 3D Fourier field.

    Parameters
    ----------
    n1d : int
        size of the 3d array along x and y dimension.
    L : float
        box size of the simulation.
    R : float
        smoothing scale in units of Mpc/h provided [L] = Mpc/h.

    Returns
    -------
    Sk : array_like
        smoothing kernel of shape (n1d, n1d, n1d//2+1).
    """
    kzlen = n1d // 2 + 1
    numba.get_num_threads()
    Sk = np.zeros((n1d, n1d, kzlen), dtype=dtype)
    dk = dtype(2.0 * np.pi / L)
    dk2 = dtype(dk**2)
    R2 = dtype(R**2)

    # Loop over all k vectors
    for i in numba.prange(n1d):
        numba.get_thread_id()
        i2 = i**2 if i <= n1d // 2 else (i - n1d) ** 2
        for j in range(n1d):
            j2 = j**2 if j <= n1d // 2 else (j - n1d) ** 2
            for k in range(kzlen):
                kmag2 = dtype(i2 + j2 + k**2)
                Sk[i, j, k] = np.exp(-kmag2 * dk2 * R2 / 2.0)
    return Sk


@numba.njit(parallel=True, fastmath=True)
def get_delta_mu2(delta, n1d, dtype_c=np.complex64, dtype_f=np.float32):
    r"""
    Obtain delta*mu^2 field by multiplying delta by mu^2 in parallel.
    Note that `delta` here is a Fourier 3D field.

    Parameters
    ----------
    delta : array_like
        Fourier 3D field of shape (n1d, n1d, n1d//2+1).
    n1d : int
        size of the 3d array along x and y dimension.
    dtype_c : np.dtype
        complex dtype (64 or 128).
    dtype_f : np.dtype
        float dtype (32 or 64).

    Returns
    -------
    delta_mu2 : array_like
        array of shape (n1d, n1d, n1d//2+1) containing delta*mu^2.
    """
    kzlen = n1d // 2 + 1
    numba.get_num_threads()
    delta_mu2 = np.zeros((n1d, n1d, kzlen), dtype=dtype_c)

    # Loop over all k vectors
    for i in numba.prange(n1d):
        numba.get_thread_id()
        i2 = i**2 if i <= n1d // 2 else (i - n1d) ** 2
        for j in range(n1d):
            j2 = j**2 if j <= n1d // 2 else (j - n1d) ** 2
            for k in range(kzlen):
                kmag2 = dtype_f(i2 + j2 + k**2)
                if kmag2 > 0:
                    invkmag2 = kmag2**-1
                    mu2 = dtype_f(k**2) * invkmag2
                else:
                    mu2 = dtype_f(0.0)
                delta_mu2[i, j, k] = delta[i, j, k] * mu2
    return delta_mu2


def pk_to_xi(Pk, Lbox, r_bins, poles=[0, 2, 4]):
    r"""
    Transform 3D power spectrum into correlation function multipoles.

    Parameters
    ----------
    Pk : array_like
        3D power spectrum.
    Lbox : float
        box size of the simulation.
    r_bins : array_like
        r separation bins.
    poles : array_like
        Legendre multipoles of the power spectrum or correlation function.

    Returns
    -------
    r_binc : array_like
        r separation bin centers.
    binned_poles : array_like
        correlation function multipoles.
    Npoles : array_like
        number of modes per r bin.
    """
    # apply fourier transform to get 3D correlation
    Xi = irfftn(Pk, workers=-1).real
    del Pk
    gc.collect()

    # define r bins
    r_binc = (r_bins[1:] + r_bins[:-1]) * 0.5

    # bin into xi_ell(r)
    nmesh = Xi.shape[0]
    poles = np.asarray(poles)
    muedges = np.array([0.0, 1.0])
    _, _, binned_poles, Npoles, r_avg = bin_kmu(
        nmesh, Lbox, r_bins, muedges=muedges, weights=Xi, poles=poles, fourier=False
    )
    binned_poles *= nmesh**3
    return r_binc, binned_poles, Npoles


def get_k_mu_edges(Lbox, k_max, kbins, mubins, logk):
    r"""
    Obtain bin edges of the k wavenumbers and mu angles.

    Parameters
    ----------
    Lbox : float
        box size of the simulation.
    k_max : float
        maximum k wavenumber.
    kbins : int or array_like
        An int indicating the number of bins of k, which ranges
        from 0 to `k_max` if `logk`, and 2pi/L to `k_max` if not.
        Or an array-like, which will be returned unchanged.
    mubins : int or array_like
        An int indicating the number of bins of mu, which ranges from 0 to 1.
        Or an array-like, which will be returned unchanged.
    logk : bool
        Logarithmic or linear k bins

    Returns
    -------
    k_bin_edges
        edges of the k wavenumbers.
    mu_bin_edges
        edges of the mu angles.
    """

    if isinstance(kbins, int):
        # define k-binning
        if logk:
            # set minimum k to make sure we cover fundamental mode
            k_min = (1.0 - 1.0e-4) * 2.0 * np.pi / Lbox
            kbins = np.geomspace(k_min, k_max, kbins + 1)
        else:
            kbins = np.linspace(0.0, k_max, kbins + 1)

    if isinstance(mubins, int):
        # define mu-binning
        mubins = np.linspace(0.0, 1.0, mubins + 1)

    return kbins, mubins


@numba.njit(parallel=True, fastmath=True)
def get_raw_power(field_fft, field2_fft=None):
    r"""
    Calculate the 3D power spectrum of a given Fourier field.

    Parameters
    ----------
    field_fft : array_like
        Fourier 3D field.

    Returns
    -------
    raw_p3d : array_like
        raw 3D power spectrum.
    """
    # calculate <deltak,deltak.conj>
    if field2_fft is not None:
        raw_p3d = (np.conj(field_fft) * field2_fft).real
    else:
        raw_p3d = np.abs(field_fft) ** 2
    return raw_p3d


def calc_pk_from_deltak(
    field_fft,
    Lbox,
    k_bin_edges,
    mu_bin_edges,
    field2_fft=None,
    poles=np.empty(0, 'i8'),
    squeeze_mu_axis=True,
    nthread=MAX_THREADS,
):
    r"""
    Calculate the power spectrum of a given Fourier field, with binning in (k,mu).
    Optionally computes Legendre multipoles in k bins.

    Parameters
    ----------
    field_fft : array_like
        Fourier 3D field.
    Lbox : float
        box size of the simulation.
    k_bin_edges : array_like
        edges of the k wavenumbers.
    mu_bin_edges : array_like
        edges of the mu angles.
    field2_fft : array_like, optional
        second Fourier 3D field, used in cross-correlation.
    poles : np.ndarray, optional
        Legendre multipoles of the power spectrum or correlation function.
        Probably has to be a Numpy array, or Numba will complain.
    squeeze_mu_axis : bool, optional
        Remove the mu axis from the output arrays if it has length 1.
        Default: True
    nthread : int, optional
        Number of numba threads to use

    Returns
    -------
    power : array_like
        mean power spectrum per (k, mu) wedge.
    N_mode : array_like
        number of modes per (k, mu) wedge.
    binned_poles : array_like
        mean power spectrum per k for each Legendre multipole.
    N_mode_poles : array_like
        number of modes per k.
    k_avg : array_like
        mean wavenumber per (k, mu) wedge.
    """
    numba.set_num_threads(nthread)

    # get raw power
    raw_p3d = get_raw_power(field_fft, field2_fft)

    # power spectrum
    nmesh = raw_p3d.shape[0]
    power, N_mode, binned_poles, N_mode_poles, k_avg = bin_kmu(
        nmesh, Lbox, k_bin_edges, mu_bin_edges, raw_p3d, poles, nthread=nthread
    )

    # quantity above is dimensionless, multiply by box size (in Mpc/h)
    power *= Lbox**3
    if len(poles) > 0:
        binned_poles *= Lbox**3

    if squeeze_mu_axis and len(mu_bin_edges) == 2:
        power = power[:, 0]
        N_mode = N_mode[:, 0]
        k_avg = k_avg[:, 0]

    return dict(
        power=power,
        N_mode=N_mode,
        binned_poles=binned_poles,
        N_mode_poles=N_mode_poles,
        k_avg=k_avg,
    )


def get_field(
    pos, Lbox, nmesh, paste, w=None, d=0.0, nthread=MAX_THREADS, dtype=np.float32
):
    r"""
    Construct real-space 3D field given particle positions.

    Parameters
    ----------
    pos : array_like
        particle positions of shape (N, 3).
    Lbox : float
        box size of the simulation.
    nmesh : int
        size of the 3d array along x and y dimension.
    paste :
        particle pasting approach (CIC or TSC).
    w : array_like, optional
        weights for each particle.
    d : float, optional
        uniform shift to particle positions.
    nthread : int, optional
        Number of numba threads to use
    dtype : np.dtype, optional
        Data type of the field

    Returns
    -------
    field : array_like
        field containing pasted particles of shape (nmesh, nmesh, nmesh).
    """
    # check if weights are requested
    if w is not None:
        assert pos.shape[0] == len(w)

    field = np.zeros((nmesh, nmesh, nmesh), dtype=dtype)
    paste = paste.upper()
    if paste == 'TSC':
        tsc_parallel(pos, field, Lbox, weights=w, nthread=nthread, offset=d)
    elif paste == 'CIC':
        warnings.warn(
            'Note that currently CIC pasting, unlike TSC, supports only a non-parallel implementation.'
        )
        if d != 0.0:
            cic_serial(pos + d, field, Lbox, weights=w)
        else:
            cic_serial(pos, field, Lbox, weights=w)
    else:
        raise ValueError(f'Unknown pasting method: {paste}')
    normalize_field(field, inplace=True, tot_weight=len(pos), nthread=nthread)
    return field


@numba.njit(parallel=True, fastmath=True)
def normalize_field(field, tot_weight=None, inplace=False, nthread=MAX_THREADS):
    """
    Normalize a cosmological density field to the overdensity convention:

    ``overdens = field / field.mean() - 1``

    If you know the total weight already (i.e. ``field.sum()``, you can pass that as
    the ``tot_weight`` argument to accelerate the computation.

    Parameters
    ----------
    field : array_like
        The field to normalize

    tot_weight : float, optional
        The total weight, i.e. ``field.sum()``

    inplace : bool, optional
        Whether to normalize in-place

    Returns
    -------
    overdens : np.ndarray
        The normalized overdensity field
    """

    numba.set_num_threads(nthread)

    dtype = field.dtype.type
    if tot_weight is None:
        # TODO parallel=True doesn't accept dtype
        tot_weight = field.sum()

    norm = dtype(field.size / tot_weight)
    if inplace:
        flatfield = field.reshape(-1)
        for i in numba.prange(len(flatfield)):
            flatfield[i] = flatfield[i] * norm - dtype(1.0)
    else:
        field = field * norm - dtype(1.0)
    return field


@numba.njit(parallel=True, fastmath=True)
def shift_field_fft(field_fft, field_shift_fft, n1d, L, d, dtype=np.float32):
    r"""
    Computed interlaced field in Fourier space by combining original and shifted
    (by half a cell size) field.

    Parameters
    ----------
    field_fft : array_like
        Fourier 3D field.
    field_shift_fft : array_like
        shifted Fourier 3D field.
    n1d : int
        size of the 3d array along x and y dimension.
    L : float
        box size of the simulation.
    d : float
        uniform shift to particle positions.
    dtype : np.dtype
        float type (32 or 64) to use in calculations.

    Returns
    -------
    field_fft : array_like
        Modified original array.
    """
    kzlen = n1d // 2 + 1
    numba.get_num_threads()
    dk = dtype(2.0 * np.pi / L)
    d = dtype(d)
    norm = dtype(0.5 / n1d**3)
    fac = dtype(0.5 * d) * 1j

    # Loop over all k vectors
    for i in numba.prange(n1d):
        # tid = numba.get_thread_id()
        kx = dtype(i) * dk if i < n1d // 2 else dtype(i - n1d) * dk
        for j in range(n1d):
            ky = dtype(j) * dk if j < n1d // 2 else dtype(j - n1d) * dk
            for k in range(kzlen):
                kz = dtype(k) * dk
                field_fft[i, j, k] += field_shift_fft[i, j, k] * np.exp(
                    fac * (kx + ky + kz)
                )
                field_fft[i, j, k] *= norm


def get_interlaced_field_fft(
    pos, Lbox, nmesh, paste, w, nthread=MAX_THREADS, verbose=False
):
    r"""
    Calculate interlaced field from particle positions and return 3D Fourier field.

    pos : array_like
        particle positions of shape (N, 3)
    field : array_like
        field containing pasted particles of shape (nmesh, nmesh, nmesh).
    Lbox : float
        box size of the simulation.
    nmesh : int
        size of the 3d array along x and y dimension.
    paste :
        particle pasting approach (CIC or TSC).
    w : array_like, optional
        weights for each particle.

    Returns
    -------
    field_fft : array_like
        interlaced 3D Fourier field.
    """
    # cell width
    d = Lbox / nmesh

    # fourier transform shifted field and sum them up
    field = get_field(pos, Lbox, nmesh, paste, w)
    field_fft = rfftn(field, workers=nthread)
    del field
    gc.collect()

    # offset by half a cell
    field_shift = get_field(pos, Lbox, nmesh, paste, w, d=0.5 * d)
    field_shift_fft = rfftn(field_shift, workers=nthread)
    if verbose:
        print('shift', field_shift.dtype, pos.dtype)
    del field_shift
    del pos, w
    gc.collect()

    shift_field_fft(field_fft, field_shift_fft, nmesh, Lbox, d)
    del field_shift_fft
    gc.collect()
    if verbose:
        print('field fft', field_fft.dtype)
    return field_fft


def get_field_fft(
    pos,
    Lbox,
    nmesh,
    paste,
    w,
    W,
    compensated,
    interlaced,
    nthread=MAX_THREADS,
    verbose=False,
    dtype=np.float32,
):
    r"""
    Calculate field from particle positions and return 3D Fourier field.

    pos : array_like
        particle positions of shape (N, 3)
    Lbox : float
        box size of the simulation.
    nmesh : int
        size of the 3d array along x and y dimension.
    paste :
        particle pasting approach (CIC or TSC).
    w : array_like
        weights for each particle.
    W : array_like
        TSC/CIC compensated filter in Fourier space.
    compensated : bool
        want to apply first-order compensated filter?
    interlaced : bool
        want to apply interlacing?
    nthread : int, optional
        Number of numba threads to use
    verbose : bool, optional
        Print out debugging info
    dtype : np.dtype, optional
        Data type of the field

    Returns
    -------
    field_fft : array_like
        interlaced 3D Fourier field.
    """

    if interlaced:
        # get interlaced field
        field_fft = get_interlaced_field_fft(
            pos, Lbox, nmesh, paste, w, nthread=nthread
        )
    else:
        # get field in real space
        field = get_field(pos, Lbox, nmesh, paste, w, nthread=nthread, dtype=dtype)
        if verbose:
            print('field, pos', field.dtype, pos.dtype)

        # get Fourier modes from skewers grid
        inv_size = dtype(1 / field.size)
        field_fft = rfftn(field, overwrite_x=True, workers=nthread)
        _normalize(field_fft, inv_size, nthread=nthread)

    # apply compensation filter
    if compensated:
        assert W is not None
        field_fft /= (
            W[:, np.newaxis, np.newaxis]
            * W[np.newaxis, :, np.newaxis]
            * W[np.newaxis, np.newaxis, : (nmesh // 2 + 1)]
        )
    return field_fft


@numba.njit(parallel=True, fastmath=True)
def _normalize(field, a, nthread=MAX_THREADS):
    numba.set_num_threads(nthread)
    flatfield = field.reshape(-1)
    for i in numba.prange(len(flatfield)):
        flatfield[i] *= a


def get_W_compensated(Lbox, nmesh, paste, interlaced):
    r"""
    Compute the TSC/CIC kernel convolution for a given set of wavenumbers.

    Parameters
    ----------
    Lbox : float
        box size of the simulation.
    nmesh : int
        size of the 3d array along x and y dimension.
    paste : str
        particle pasting approach (CIC or TSC).
    interlaced : bool
        want to apply interlacing?

    Returns
    -------
    W : array_like
        TSC/CIC compensated filter in Fourier space.
    """

    # cell width
    d = Lbox / nmesh

    # nyquist frequency
    kN = np.pi / d

    # natural wavemodes
    k = (fftfreq(nmesh, d=d) * 2.0 * np.pi).astype(np.float32)  # h/Mpc

    # apply deconvolution
    paste = paste.upper()
    if interlaced:
        if paste == 'TSC':
            p = 3.0
        elif paste == 'CIC':
            p = 2.0
        else:
            raise ValueError(f'Unknown pasting method {paste}')
        W = np.sinc(0.5 * k / kN) ** p  # sinc def
    else:  # first order correction of interlacing (aka aliasing)
        s = np.sin(0.5 * np.pi * k / kN) ** 2
        if paste == 'TSC':
            W = (1 - s + 2.0 / 15 * s**2) ** 0.5
        elif paste == 'CIC':
            W = (1 - 2.0 / 3 * s) ** 0.5
        del s
    return W


def calc_power(
    pos,
    Lbox,
    kbins=None,
    mubins=None,
    k_max=None,
    logk=False,
    paste='TSC',
    nmesh=128,
    compensated=True,
    interlaced=True,
    w=None,
    pos2=None,
    w2=None,
    poles=None,
    squeeze_mu_axis=True,
    nthread=MAX_THREADS,
    dtype=np.float32,
):
    r"""
    Compute the 3D power spectrum given particle positions by first painting them on a
    cubic mesh and then applying Fourier transforms and mode counting. Outputs (k,mu)
    wedges by default; can also output Legendre multipoles.

    pos : array_like
        particle positions, shape (N,3)
    Lbox : float
        box size of the simulation.
    kbins : int, array_like, or None, optional
        An int indicating the number of bins of k, which ranges
        from 0 to `k_max` if `logk`, and 2pi/L to `k_max` if not.
        Or an array-like, which will be used as-is.
        Default is None, which sets `kbins` to `nmesh`.
    mubins : int, None, or array_like, optional
        An int indicating the number of bins of mu. mu ranges from 0 to 1.
        Or an array-like of bin edges, which will be used as-is.
        Default of None sets `mubins` to 1.
    k_max : float, optional
        maximum k wavenumber.
        Default is None, which sets `k_max` to k_Nyquist of the mesh.
    logk : bool, optional
        Logarithmic or linear k bins. Ignored if `kbins` is array-like.
        Default is False.
    paste : str, optional
        particle pasting approach (CIC or TSC). Default is 'TSC'.
    nmesh : int, optional
        size of the 3d array along x and y dimension. Default is 128.
    compensated : bool, optional
        want to apply first-order compensated filter? Default is True.
    interlaced : bool, optional
        want to apply interlacing? Default is True.
    w : array_like, optional
        weights for each particle.
    pos2 : array_like, optional
        second set of particle positions, shape (N,3)
    poles : None or list of int, optional
        Legendre multipoles of the power spectrum or correlation function.
        Default of None gives the monopole.
    squeeze_mu_axis : bool, optional
        Remove the mu axis from the output arrays if it has length 1.
        Default: True
    nthread : int, optional
        Number of numba threads to use
    dtype : np.dtype, optional
        Data type of the field

    Returns
    -------
    power : astropy.Table
        The power spectrum in an astropy Table of length ``nbins_k``. The columns are:

        - ``k_mid``: arithmetic bin centers of the k wavenumbers, shape ``(nbins_k,)``
        - ``k_avg``: mean wavenumber per (k, mu) wedge, shape ``(nbins_k,nbins_mu)``
        - ``mu_mid``: arithmetic bin centers of the mu angles, shape ``(nbins_k,nbins_mu)``
        - ``power``: mean power spectrum per (k, mu) wedge, shape ``(nbins_k,nbins_mu)``
        - ``N_mode``: number of modes per (k, mu) wedge, shape ``(nbins_k,nbins_mu)``

        If multipoles are requested via ``poles``, the table includes:

        - ``poles``: mean Legendre multipole coefficients, shape ``(nbins_k,len(poles))``
        - ``N_mode_poles``: number of modes per pole, shape ``(nbins_k,len(poles))``

        The ``meta`` field of the table will have metadata about the power spectrum.
    """
    if kbins is None:
        kbins = nmesh
    if k_max is None:
        k_max = np.pi * nmesh / Lbox
    return_mubins = mubins is not None
    if mubins is None:
        mubins = 1

    meta = dict(
        Lbox=Lbox,
        logk=logk,
        paste=paste,
        nmesh=nmesh,
        compensated=compensated,
        interlaced=interlaced,
        poles=poles,
        nthread=nthread,
        N_pos=len(pos),
        is_weighted=w is not None,
        field_dtype=dtype,
        squeeze_mu_axis=squeeze_mu_axis,
    )
    if pos2 is not None:
        meta['N_pos2'] = len(pos2)
        meta['is_weighted2'] = w2 is not None

    # get the window function
    if compensated:
        W = get_W_compensated(Lbox, nmesh, paste, interlaced)
    else:
        W = None

    # convert to fourier space
    field_fft = get_field_fft(
        pos,
        Lbox,
        nmesh,
        paste,
        w,
        W,
        compensated,
        interlaced,
        nthread=nthread,
        dtype=dtype,
    )

    # if second field provided
    if pos2 is not None:
        # convert to fourier space
        field2_fft = get_field_fft(
            pos2,
            Lbox,
            nmesh,
            paste,
            w2,
            W,
            compensated,
            interlaced,
            nthread=nthread,
            dtype=dtype,
        )
    else:
        field2_fft = None

    poles = np.asarray(poles or [], dtype=np.int64)

    # calculate power spectrum
    kbins, mubins = get_k_mu_edges(Lbox, k_max, kbins, mubins, logk)
    P = calc_pk_from_deltak(
        field_fft,
        Lbox,
        kbins,
        mubins,
        field2_fft=field2_fft,
        poles=poles,
        squeeze_mu_axis=squeeze_mu_axis,
        nthread=nthread,
    )

    # define bin centers
    k_binc = (kbins[1:] + kbins[:-1]) * 0.5
    mu_binc = (mubins[1:] + mubins[:-1]) * 0.5

    res = dict(
        k_min=kbins[:-1],
        k_max=kbins[1:],
        k_mid=k_binc,
        k_avg=P['k_avg'],
        power=P['power'],
        N_mode=P['N_mode'],
    )
    if len(poles) > 0:
        res.update(
            poles=P['binned_poles'].T,
            N_mode_poles=P['N_mode_poles'],
        )
    if return_mubins:
        res.update(
            mu_min=np.broadcast_to(mubins[:-1], res['power'].shape),
            mu_max=np.broadcast_to(mubins[1:], res['power'].shape),
            mu_mid=np.broadcast_to(mu_binc, res['power'].shape),
        )
    res = Table(res, meta=meta)

    return res
