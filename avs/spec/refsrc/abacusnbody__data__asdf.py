"""
This module contains the ASDF extensions that allow the asdf Python package
to read Abacus ASDF files that use Blosc compression internally.

There are two classes here: an Extension subclass, and a Compressor subclass.
The Extension is registered with ASDF via a setuptools "entry point" in setup.py.
It contains the reference to the Compressor subclass that knows how to
handle Blosc compression.
"""

import struct
import time

import blosc
import numpy as np
from asdf.extension import Compressor, Extension


def set_nthreads(nthreads):
    blosc.set_nthreads(nthreads)


class BloscCompressor(Compressor):
    """
    An implementation of Blosc compression, as used by Abacus.
    """

    @property
    def label(self):
        """
        The string labels in the binary block headers
        that indicate Blosc compression
        """
        return b'blsc'

    def compress(self, data, **kwargs):
        """Useful compression kwargs:
        nthreads
        compression_block_size
        blosc_block_size
        shuffle
        typesize
        cname
        clevel
        """
        # Blosc code probably assumes contiguous buffer
        assert data.contiguous

        nthreads = kwargs.pop('nthreads', 1)
        compression_block_size = kwargs.pop('compression_block_size', 1 << 22)
        blosc_block_size = kwargs.pop('blosc_block_size', 512 * 1024)
        typesize = kwargs.pop(
            'typesize', 'auto'
        )  # dtype size in bytes, e.g. 8 for int64
        clevel = kwargs.pop(
            'clevel', 1
        )  # compression level, usually only need lowest for zstd
        cname = kwargs.pop(
            'cname', 'zstd'
        )  # compressor name, default zstd, good performance/compression tradeoff

        shuffle = kwargs.pop('shuffle', 'shuffle')
        if shuffle == 'shuffle':
            shuffle = blosc.SHUFFLE
        elif shuffle == 'bitshuffle':
            shuffle = blosc.BITSHUFFLE
        elif shuffle is None:
            shuffle = blosc.NOSHUFFLE
        else:
            raise ValueError(shuffle)

        blosc.set_nthreads(nthreads)
        blosc.set_blocksize(blosc_block_size)

        if typesize == 'auto':
            this_typesize = data.itemsize
        else:
            this_typesize = typesize
        # assert this_typesize != 1

        # a frame holds at least one item, also when the block size is below the item size
        nelem = max(1, compression_block_size // data.itemsize)
        for i in range(0, len(data), nelem):
            compressed = blosc.compress(
                data[i : i + nelem],
                typesize=this_typesize,
                clevel=clevel,
                shuffle=shuffle,
                cname=cname,
                **kwargs,
            )
            header = struct.pack('!I', len(compressed))
            # TODO: this probably triggers a data copy, feels inefficient. Probably have to add output array arg to blosc to fix
            yield header + compressed

    def decompress(self, blocks, out, **kwargs):
        """Useful decompression kwargs:
        nthreads
        """
        # TODO: controlled globally for now
        # nthreads = kwargs.pop('nthreads',1)
        # blosc.set_nthreads(nthreads)

        _size = 0
        _pos = 0
        _buffer = None
        _partial_len = b''

        decompression_time = 0.0
        bytesout = 0

        # Blosc code probably assumes contiguous buffer
        if not out.contiguous:
            raise ValueError(out.contiguous)

        # get the out address
        out = np.frombuffer(out, dtype=np.uint8).ctypes.data

        for block in blocks:
            block = memoryview(block).cast('c')
            try:
                block = block.toreadonly()  # python>=3.8 only
            except AttributeError:
                pass

            if not block.contiguous:
                raise ValueError(block.contiguous)

            while len(block):
                if not _size:
                    # Don't know the (compressed) length of this block yet
                    if len(_partial_len) + len(block) < 4:
                        _partial_len += block
                        break  # we've exhausted the data
                    if _partial_len:
                        # If we started to fill a len key, finish filling it
                        remaining = 4 - len(_partial_len)
                        if remaining:
                            _partial_len += block[:remaining]
                            block = block[remaining:]
                        _size = struct.unpack('!I', _partial_len)[0]
                        _partial_len = b''
                    else:
                        # Otherwise just read the len key directly
                        _size = struct.unpack('!I', block[:4])[0]
                        block = block[4:]

                if len(block) < _size or _buffer is not None:
                    # If we have a partial block, or we're already filling a buffer, use the buffer
                    if _buffer is None:
                        _buffer = np.empty(
                            _size, dtype=np.byte
                        )  # use numpy instead of bytearray so we can avoid zero initialization
                        _pos = 0
                    newbytes = min(
                        _size - _pos, len(block)
                    )  # don't fill past the buffer len!
                    _buffer[_pos : _pos + newbytes] = np.frombuffer(
                        block[:newbytes], dtype=np.byte
                    )
                    _pos += newbytes
                    block = block[newbytes:]

                    if _pos == _size:
                        start = time.perf_counter()
                        n_thisout = blosc.decompress_ptr(
                            memoryview(_buffer), out + bytesout, **kwargs
                        )
                        decompression_time += time.perf_counter() - start
                        bytesout += n_thisout
                        _buffer = None
                        _size = 0
                else:
                    # We have at least one full block
                    start = time.perf_counter()
                    n_thisout = blosc.decompress_ptr(
                        memoryview(block[:_size]), out + bytesout, **kwargs
                    )
                    decompression_time += time.perf_counter() - start
                    bytesout += n_thisout
                    block = block[_size:]
                    _size = 0

        return bytesout


class AbacusExtension(Extension):
    """
    An ASDF Extension that deals with Abacus types and formats.
    Currently only implements Blosc compression.
    """

    @property
    def extension_uri(self):
        """
        Get the URI of the extension to the ASDF Standard implemented
        by this class.  Note that this may not uniquely identify the
        class itself.

        Returns
        -------
        str
        """
        return 'asdf://abacusnbody.org/extensions/abacus-0.0.1'

    @property
    def compressors(self):
        """
        Return the Compressors implemented in this extension
        """
        return [BloscCompressor()]
