"""
Local mass environment calculation.
"""

import itertools
from typing import Literal

import numba
import numpy as np
from scipy.spatial import KDTree

from ..util import cumsum

__all__ = ['do_Menv_from_tree']

DEFAULT_BATCH_SIZE = 10**5


def do_Menv_from_tree(
    pos,
    mass,
    r_inner,
    r_outer,
    halo_lc,
    Lbox,
    nthread: int,
    mcut=1e11,
    batch_size: int = DEFAULT_BATCH_SIZE,
):
    """Calculate a local mass environment by taking the difference in
    total neighbor halo mass at two apertures. Neighbor mass includes
    all halos, but only halos above mcut are used as centers (0 returned
    for all others).
    """

    if halo_lc:
        treebox = None  # periodicity not needed for halo light cones
    else:
        # note that periodicity exists only in y and z directions
        # don't modify the user's input in place!
        pos = (pos + Lbox / 2.0) % Lbox  # needs to be within 0 and Lbox for periodicity
        treebox = Lbox

    mmask = mass > mcut
    pos_cut = pos[mmask]
    N = len(pos_cut)

    r_inner = np.asarray(r_inner)
    if r_inner.ndim > 0:
        r_inner = r_inner[mmask]

    r_outer = np.asarray(r_outer)
    if r_outer.ndim > 0:
        r_outer = r_outer[mmask]

    print('Building and querying trees for mass env calculation')
    tree = KDTree(pos, boxsize=treebox)

    # we're taking potentially large differences, use float64
    Menv_cut = np.zeros(N, dtype=np.float64)
    msum_in_batches(
        Menv_cut,
        pos_cut,
        mass,
        r_outer,
        tree,
        nthread=nthread,
        sign=1,
        batch_size=batch_size,
    )

    # now subtract the inner mass
    msum_in_batches(
        Menv_cut,
        pos_cut,
        mass,
        r_inner,
        tree,
        nthread=nthread,
        sign=-1,
        batch_size=batch_size,
    )

    Menv = np.zeros_like(mass)
    Menv[mmask] = Menv_cut

    return Menv


def msum_in_batches(
    msum_out,
    pos,
    mass,
    r,
    tree: KDTree,
    nthread: int,
    sign: Literal[1, -1] = 1,
    batch_size: int = DEFAULT_BATCH_SIZE,
):
    """Calculate the sum of masses within a radius r of each point in pos."""
    N = len(pos)

    for i in range(0, N, batch_size):
        j = min(i + batch_size, N)
        pbatch = pos[i:j]
        mout_batch = msum_out[i:j]
        if r.ndim > 0:
            rbatch = r[i:j]
        else:
            rbatch = r
        # mass is not batched because the indices from the tree query
        # are all relative to the original mass array
        msum_batch(mout_batch, pbatch, mass, rbatch, tree, sign, nthread)

    return msum_out


def msum_batch(
    out,
    pos,
    mass,
    r,
    tree: KDTree,
    sign: Literal[1, -1],
    nthread: int,
):
    inds, starts = query_inds(pos, r, tree, nthread)
    msum_core(
        out,
        mass,
        inds,
        starts,
        sign,
        nthread=nthread,
    )


def query_inds(pos, r, tree: KDTree, nthread: int):
    """Query the tree for indices of neighbors within radius r"""
    allinds = tree.query_ball_point(pos, r=r, workers=nthread)
    # flatten the list of lists
    inds, starts = concat_to_arr(allinds)
    return inds, starts


@numba.njit(parallel=True)
def msum_core(msum_out, masses, inds, starts, sign, nthread: int = 1):
    numba.set_num_threads(nthread)
    N = len(starts) - 1
    for p in numba.prange(N):
        j = starts[p]
        k = starts[p + 1]
        msum_out[p] += sign * np.sum(masses[inds[j:k]])


def concat_to_arr(lists, dtype=np.int64):
    """Concatenate an iterable of lists to a flat Numpy array.
    Returns the concatenated array and the index where each list starts.
    """
    starts = np.empty(len(lists) + 1, dtype=np.int64)
    # an ndarray rather than a list: numba cannot type an empty list
    lens = np.fromiter((len(ell) for ell in lists), dtype=np.int64, count=len(lists))
    cumsum(lens, starts, initial=True, final=True)
    res = np.fromiter(
        itertools.chain.from_iterable(lists), count=starts[-1], dtype=dtype
    )
    return res, starts
