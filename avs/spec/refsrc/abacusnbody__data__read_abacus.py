"""
This is an interface to read various Abacus file formats,
like ASDF, pack9, and RVint.

For particle-oriented access to the data, one can use
this interface.  For halo-oriented access (e.g. associating
halo particles with their host halo), one should use the
relevant halo module (like :mod:`abacusnbody.data.compaso_halo_catalog`).

The decoding of the binary formats is generally contained
in other modules (e.g. bitpacked); this interface mainly
deals with the container formats and high-level logic of
file names, Astropy tables, etc.
"""

# TODO: generator to iterate over files
# TODO: load multiple files into concatenated table

import warnings
from os.path import basename

import numpy as np
from astropy.table import Table

from .bitpacked import unpack_pids, unpack_rvint
from .pack9 import unpack_pack9

__all__ = ['read_asdf']

ASDF_DATA_KEY = 'data'
ASDF_HEADER_KEY = 'header'


def read_asdf(fn, load=None, colname=None, dtype=np.float32, verbose=True, **kwargs):
    """
    Read an Abacus ASDF file.  The result will be returned in an Astropy table.

    Parameters
    ----------
    fn: str
        The filename of the ASDF file to load

    load: list of str or None, optional
        A list of columns to load. The default (``None``) is to load columns based on
        what's in the file. If the file contains positions and velocities, those will
        be loaded; if it contains PIDs, those will be loaded.

        The list of fields that can be specified is: \
        ``'pos', 'vel', 'pid', 'lagr_pos', 'tagged', 'density', 'lagr_idx', 'aux'``

        All except ``pos`` & ``vel`` are PID-derived fields (see
        :func:`abacusnbody.data.bitpacked.unpack_pids`)

    colname: str or None, optional
        The internal column name in the ASDF file to load.  Probably one of ``'rvint'``,
        ``'packedpid'``, ``'pid'``, or ``'pack9'``.  In most cases, the name can be
        automatically detected, which is the default behavior (``None``).

    dtype: np.dtype, optional
        The precision in which to unpack any floating
        point arrays.  Default: np.float32

    verbose: bool, optional
        Print informational messages. Default: True

    Returns
    -------
    table: astropy.Table
        A table whose columns contain the particle
        data from the ASDF file.  The ``meta`` field
        of the table contains the header.
    """

    import asdf

    try:
        import asdf._compression as asdf_compression
    except ImportError:
        import asdf.compression as asdf_compression

    try:
        asdf_compression.validate('blsc')
    except Exception as e:
        raise Exception(
            "Abacus ASDF extension not properly loaded! \
                        Try reinstalling abacusutils: `pip install 'abacusutils>=1'`, \
                        or updating ASDF: `pip install 'asdf>=2.8'`"
        ) from e

    data_key = kwargs.get('data_key', ASDF_DATA_KEY)
    header_key = kwargs.get('header_key', ASDF_HEADER_KEY)

    with asdf.open(fn, lazy_load=True, memmap=False) as af:
        if colname is None:
            _colnames = ['rvint', 'pack9', 'packedpid', 'pid']
            for cn in _colnames:
                if cn in af.tree[data_key]:
                    if colname is not None:
                        raise ValueError(
                            f'More than one key of {_colnames} found in asdf file {fn}. Need to specify colname!'
                        )
                    colname = cn
            if colname is None:
                raise ValueError(
                    f'Could not find any of {_colnames} in asdf file {fn}. Need to specify colname!'
                )

        # determine what fields to unpack
        load = _resolve_columns(colname, load, kwargs)

        header = af.tree[header_key]
        data = af.tree[data_key][colname]

        Nmax = len(data)  # will shrink later

        # determine subsample fraction and add to header
        OutputType = header.get('OutputType', None)
        if OutputType == 'LightCone':
            if header.get('SimSet', None) == 'AbacusSummit':
                SubsampleFraction = (
                    header['ParticleSubsampleA'] + header['ParticleSubsampleB']
                )
                header['SubsampleFraction'] = SubsampleFraction
                if verbose:
                    print(
                        f'Loading "{basename(fn)}", which contains the A and B subsamples ({int(SubsampleFraction * 100):d}% total)'
                    )

        table = Table(meta=header)
        if 'pos' in load:
            table.add_column(np.empty((Nmax, 3), dtype=dtype), copy=False, name='pos')
        if 'vel' in load:
            table.add_column(np.empty((Nmax, 3), dtype=dtype), copy=False, name='vel')
        if 'aux' in load:
            table.add_column(data, copy=False, name='aux')  # 'aux' is the raw aux field
        # For the PID columns, we'll let `unpack_pids` build those for us
        # Eventually, we'll need to be able to pass output arrays

        if colname == 'rvint':
            _posout = table['pos'] if 'pos' in load else False
            _velout = table['vel'] if 'vel' in load else False
            npos, nvel = unpack_rvint(
                data,
                header['BoxSize'],
                float_dtype=dtype,
                posout=_posout,
                velout=_velout,
            )
            nread = max(npos, nvel)
        elif colname == 'pack9':
            _posout = table['pos'] if 'pos' in load else False
            _velout = table['vel'] if 'vel' in load else False
            npos, nvel = unpack_pack9(
                data,
                header['BoxSize'],
                header['VelZSpace_to_kms'],
                float_dtype=dtype,
                posout=_posout,
                velout=_velout,
            )
            nread = max(npos, nvel)
        elif 'pid' in colname:
            ppd = kwargs.get('ppd', int(round(header['ppd'])))
            pid_kwargs = {
                k: (k in load)
                for k in ('pid', 'lagr_pos', 'tagged', 'density', 'lagr_idx')
            }
            cols = unpack_pids(
                data, box=header['BoxSize'], ppd=ppd, float_dtype=dtype, **pid_kwargs
            )
            for n, col in cols.items():
                table.add_column(col, name=n, copy=False)
            nread = len(data)

    table = table[:nread]  # truncate to amount actually read
    # TODO: could drop some memory here

    return table


def _resolve_columns(colname, load, kwargs):
    """Figure out what columns to read. `colname` is the data column in the file,
    `load` is the tuple of strings, `kwargs` might have deprecated load_pos/vel"""

    load_pos = kwargs.pop('load_pos', None)
    load_vel = kwargs.pop('load_vel', None)
    if load_pos is not None or load_vel is not None:
        if load is None:
            warnings.warn(
                '`load_pos` and `load_vel` are deprecated; use '
                '`load=("pos","vel")` instead.',
                FutureWarning,
            )
            load = []
            if load_pos or (load_pos is None and load_vel is False):
                load += ['pos']
            if load_vel or (load_vel is None and load_pos is False):
                load += ['vel']
        else:
            warnings.warn(
                '`load` and deprecated `load_pos` or `load_vel` specified. '
                'Ignoring deprecated parameters.'
            )

    if load is None:
        load = []
        if colname in ('pack9', 'rvint'):
            load += ['pos']
            load += ['vel']
        if 'pid' in colname:
            load += ['pid']

    # Only columns that can be decoded from this raw column may be requested;
    # anything else would come back unfilled, dropped, or with zero rows
    loadable = None
    if colname in ('pack9', 'rvint'):
        loadable = ('pos', 'vel')
    elif 'pid' in colname:
        loadable = ('pid', 'lagr_pos', 'tagged', 'density', 'lagr_idx', 'aux')
    if loadable is not None:
        bad = [c for c in load if c not in loadable]
        if bad:
            raise ValueError(
                f'Columns {bad} cannot be loaded from "{colname}" data; '
                f'valid columns are {loadable}'
            )
    return tuple(load)
