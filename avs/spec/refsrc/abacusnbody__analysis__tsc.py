import timeit
import warnings

import numba
import numpy as np

__all__ = ['tsc_parallel', 'partition_parallel']


def tsc_parallel(
    pos,
    densgrid,
    box,
    weights=None,
    nthread=-1,
    wrap=True,
    npartition=None,
    sort=False,
    coord=0,
    verbose=False,
    offset=0.0,
):
    """
    A parallel implementation of TSC mass assignment using numba. The algorithm
    partitions the particles into stripes of sufficient width that their TSC
    clouds don't overlap, and then does all the even-numbered stripes in
    parallel, followed by the odd-numbered ones.

    This method parallelizes well and can exceed, e.g., 500 million particles
    per second with 32 cores on a modern processor for a cache-resident grid
    size. That's 20 ms for 10^7 particles, which is number density 1e-3 in a
    2 Gpc/h box.

    The algorithm is expected to be bound by memory bandwidth, rather than
    CPU.  Sometimes using, e.g., half of all CPUs will be faster than using all
    of them.

    ``npartition`` is a tuning parameter.  Generally it should be at least
    ``2*nthread``, so that all threads have work to do in both passes.  Sometimes
    an even finer partitioning can produce a favorable ordering in memory of
    particles for TSC.  Sorting the particles within each stripe produces an
    even more favorable ordering, but the current implementation of sorting is
    slow enough that it's usually not worth it.

    Parameters
    ----------
    pos : ndarray of shape (n,3)
        The particles, in domain [0,box)

    densgrid : ndarray, tuple, or int
        Either an ndarray in which to write the density, or a tuple/int
        indicating the shape of the array to allocate. Can be 2D or 3D; ints
        are interpreted as 3D cubic grids. Anisotropic grids are also supported
        (nx != ny != nz).

    box : float
        The domain size. Positions are expected in domain [0,box) (but may be
        wrapped; see ``wrap``).

    weights : ndarray of shape (n,), optional
        Particle weights/masses.
        Default: None

    nthread : int, optional
        Number of threads, for both the parallel partition and the TSC.
        Values < 0 use ``numba.config.NUMBA_NUM_THREADS``, which is usually all
        CPUs.
        Default: -1

    wrap : bool, optional
        Apply an in-place periodic wrap to any out-of-bounds particle positions,
        bringing them back to domain [0,box).  This is on by default
        because it's generally fast compared to TSC.
        Default: True

    npartition : int, optional
        Number of stripes in which to partition the positions.  This is a
        tuning parameter (with certain constraints on the max value); a value
        of None will use the default of (no larger than) 2*nthread.
        Default: None

    sort : bool, optional
        Sort the particles along the ``coord`` coordinate within each partition
        stripe. This can affect performance.
        Default: False

    coord : int, optional
        The coordinate on which to partition. ``coord = 0`` means ``x``,
        ``coord = 1`` means ``y``, etc.
        Default: 0

    verbose : bool, optional
        Print some information about settings and timings.
        Default: False

    Returns
    -------
    dens : ndarray
        The density grid, which may be newly allocated, or the same as the
        input ``densgrid`` argument if that argument was an ndarray.
    """

    if nthread < 0:
        nthread = numba.config.NUMBA_NUM_THREADS
    if verbose:
        print(f'nthread={nthread}')

    numba.set_num_threads(nthread)
    if isinstance(densgrid, (int, np.integer)):
        densgrid = (densgrid, densgrid, densgrid)
    if isinstance(densgrid, tuple):
        densgrid = _zeros_parallel(densgrid)
    n1d = densgrid.shape[coord]

    if not npartition:
        if nthread > 1:
            # Must be less than or equal to n1d//4, so that every stripe is at
            # least 4 cells wide: 3 cells for the TSC cloud plus one spare cell,
            # because the stripe of a particle is floor(x*npartition/box) while
            # its central cell is round((x+offset)*ngrid/box) evaluated in the
            # dtype of pos.  With 3-cell stripes a particle one ulp below a
            # stripe edge can round up to the next cell (edge on a half-integer
            # grid coordinate, e.g. offset = half a cell) while a particle on the
            # edge two stripes further rounds down, and both then store to the
            # same grid row in the same pass.  Must be even, and need not exceed
            # 2*nthread.
            npartition = min(n1d // 4, 2 * nthread)
            npartition = 2 * (npartition // 2)  # must be even
            npartition = max(npartition, 1)  # grid too small to parallelize
        else:
            npartition = 1

    if npartition > 1 and npartition > n1d // 4 and nthread > 1:
        raise ValueError(
            f'npartition {npartition} must be less than or equal to'
            f' ngrid//4 = {n1d // 4}'
        )
    if npartition > 1 and npartition % 2 != 0 and nthread > 1:
        raise ValueError(f'npartition {npartition} not divisible by 2')
    if verbose and nthread > 1 and npartition < 2 * nthread:
        print(
            f'npartition {npartition} not large enough to use'
            f' all {nthread} threads; should be 2*nthread'
        )

    def _check_dtype(a, name):
        if a.itemsize > 4:
            warnings.warn(
                f'{name}.dtype={a.dtype} instead of np.float32. '
                'float32 is recommended for performance.',
            )

    _check_dtype(pos, 'pos')
    _check_dtype(densgrid, 'densgrid')
    if weights is not None:
        _check_dtype(weights, 'weights')

    if verbose:
        print(f'npartition={npartition}')

    wraptime = -timeit.default_timer()
    if wrap:
        # This could be on-the-fly instead of in-place, if needed
        _wrap_inplace(pos, box)
    wraptime += timeit.default_timer()
    if verbose:
        print(f'Wrap time: {wraptime:.4g} sec')

    if npartition > 1:
        parttime = -timeit.default_timer()
        ppart, starts, wpart = partition_parallel(
            pos,
            npartition,
            box,
            weights=weights,
            nthread=nthread,
            coord=coord,
            sort=sort,
        )
        parttime += timeit.default_timer()
        if verbose:
            print(f'Partition time: {parttime:.4g} sec')
    else:
        ppart = pos
        wpart = weights
        starts = np.array([0, len(pos)], dtype=np.int64)

    tsctime = -timeit.default_timer()
    _tsc_parallel(ppart, starts, densgrid, box, weights=wpart, offset=offset)
    tsctime += timeit.default_timer()

    if verbose:
        print(f'TSC time: {tsctime:.4g} sec')

    return densgrid


@numba.njit(parallel=True)
def _zeros_parallel(shape, dtype=np.float32):
    arr = np.empty(shape, dtype=dtype)

    for i in numba.prange(shape[0]):
        arr[i] = 0.0

    return arr


@numba.njit(parallel=True)
def _wrap_inplace(pos, box):
    for i in numba.prange(len(pos)):
        for j in range(3):
            if pos[i, j] >= box:
                pos[i, j] -= box
            elif pos[i, j] < 0:
                pos[i, j] += box


@numba.njit(parallel=True)
def _tsc_parallel(ppart, starts, dens, box, weights, offset):
    npartition = len(starts) - 1
    for i in numba.prange((npartition + 1) // 2):
        if weights is not None:
            wslice = weights[starts[2 * i] : starts[2 * i + 1]]
        else:
            wslice = None
        _tsc_scatter(
            ppart[starts[2 * i] : starts[2 * i + 1]],
            dens,
            box,
            weights=wslice,
            offset=offset,
        )
    if npartition > 1:
        for i in numba.prange(npartition // 2):
            if weights is not None:
                wslice = weights[starts[2 * i + 1] : starts[2 * i + 2]]
            else:
                wslice = None
            _tsc_scatter(
                ppart[starts[2 * i + 1] : starts[2 * i + 2]],
                dens,
                box,
                weights=wslice,
                offset=offset,
            )


@numba.njit(parallel=True)
def partition_parallel(
    pos,
    npartition,
    boxsize,
    weights=None,
    coord=0,
    nthread=-1,
    sort=False,
):
    """
    A parallel partition.  Partitions a set of positions into ``npartition``
    pieces, using the ``coord`` coordinate (``coord=0`` partitions on ``x``, ``coord=1``
    partitions on ``y``, etc.).

    The particle copy stage is coded as a scatter rather than a gather.

    Note that this function is expected to be bound by memory bandwidth rather
    than CPU.

    Parameters
    ----------
    pos : ndarray of shape (n,3)
        The positions, in domain [0,boxsize)

    npartition : int
        The number of partitions

    boxsize : float
        The domain of the particles

    weights : ndarray of shape (n,), optional
        Particle weights.
        Default: None

    coord : int, optional
        The coordinate to partition on. 0 is x, 1 is y, etc.
        Default: 0 (x coordinate)

    nthread : int, optional
        Number of threads to parallelize over (using Numba threading).
        Values < 0 use ``numba.config.NUMBA_NUM_THREADS``, which is usually all
        CPUs.
        Default: -1

    sort : bool, optional
        Sort the particles on the ``coord`` coordinate within each partition.
        Can speed up subsequent TSC, but generally slow and not worth it.
        Default: False

    Returns
    -------
    partitioned : ndarray like ``pos``
        The particles, in partitioned order

    part_starts : ndarray, shape (npartition + 1,), dtype int64
        The index in ``partitioned`` where each partition starts

    wpart : ndarray or None
        The weights, in partitioned order; or None if ``weights`` not given.
    """

    if nthread < 0:
        nthread = numba.config.NUMBA_NUM_THREADS
    numba.set_num_threads(nthread)

    assert pos.shape[1] == 3

    # First pass: compute key and per-thread histogram
    # The stripe of a particle is floor(x*npartition/boxsize), evaluated in
    # float64 in exactly this order.  Multiplying by a pre-rounded
    # npartition/boxsize (in the dtype of pos) misfiles particles that lie on
    # a stripe boundary, e.g. x=1500, boxsize=2000, npartition=36.  (This is
    # also why the function is not compiled with fastmath: that would turn
    # the division back into a multiplication by the rounded 1/boxsize.)
    keys = np.empty(len(pos), dtype=np.int32)
    counts = np.zeros((nthread, npartition), dtype=np.int32)
    tstart = np.linspace(0, len(pos), nthread + 1).astype(np.int64)
    for t in numba.prange(nthread):
        for i in range(tstart[t], tstart[t + 1]):
            keys[i] = min(
                np.int32(np.float64(pos[i, coord]) * npartition / boxsize),
                npartition - 1,
            )
            counts[t, keys[i]] += 1

    # Compute start indices for parallel scatter
    pointers = np.empty(nthread * npartition, dtype=np.int64)
    pointers[0] = 0
    pointers[1:] = np.cumsum(counts.T)[:-1]
    pointers = np.ascontiguousarray(pointers.reshape(npartition, nthread).T)

    starts = np.empty(npartition + 1, dtype=np.int64)
    starts[:-1] = pointers[0]
    starts[-1] = len(pos)

    # Do parallel scatter, specializing for weights to help Numba
    psort = np.empty_like(pos)
    if weights is not None:
        wsort = np.empty_like(weights)
        for t in numba.prange(nthread):
            for i in range(tstart[t], tstart[t + 1]):
                k = keys[i]
                s = pointers[t, k]
                for j in range(3):
                    psort[s, j] = pos[i, j]
                wsort[s] = weights[i]
                pointers[t, k] += 1

        if sort:
            for i in numba.prange(npartition):
                part = psort[starts[i] : starts[i + 1]]
                iord = part[:, coord].argsort()
                part[:] = part[iord]
                weightspart = wsort[starts[i] : starts[i + 1]]
                weightspart[:] = weightspart[iord]
    else:
        wsort = None
        for t in numba.prange(nthread):
            for i in range(tstart[t], tstart[t + 1]):
                k = keys[i]
                s = pointers[t, k]
                for j in range(3):
                    psort[s, j] = pos[i, j]
                pointers[t, k] += 1

        if sort:
            for i in numba.prange(npartition):
                part = psort[starts[i] : starts[i + 1]]
                iord = part[:, coord].argsort()
                part[:] = part[iord]

    return psort, starts, wsort


@numba.njit
def _rightwrap(x, L):
    if x >= L:
        return x - L
    return x


@numba.njit(fastmath=True)
def _tsc_scatter(positions, density, boxsize, weights=None, offset=0.0):
    """
    TSC worker function. Expects particles in domain [0,boxsize).
    Supports 3D and 2D.
    """
    ftype = positions.dtype.type
    itype = np.int32
    # a one-cell-thick third axis is the 2D case
    threeD = density.ndim == 3 and density.shape[2] > 1
    gx = itype(density.shape[0])
    gy = itype(density.shape[1])
    if threeD:
        gz = itype(density.shape[2])

    inv_hx = ftype(gx / boxsize)
    inv_hy = ftype(gy / boxsize)
    if threeD:
        inv_hz = ftype(gz / boxsize)

    offset = ftype(offset)
    W = ftype(1.0)
    have_W = weights is not None

    HALF = ftype(0.5)
    P75 = ftype(0.75)
    for n in range(len(positions)):
        if have_W:
            W = ftype(weights[n])

        # convert to a position in the grid
        px = (positions[n, 0] + offset) * inv_hx
        py = (positions[n, 1] + offset) * inv_hy
        if threeD:
            pz = (positions[n, 2] + offset) * inv_hz

        # round to nearest cell center
        ix = itype(round(px))
        iy = itype(round(py))
        if threeD:
            iz = itype(round(pz))

        # calculate distance to cell center
        dx = ftype(ix) - px
        dy = ftype(iy) - py
        if threeD:
            dz = ftype(iz) - pz

        # find the tsc weights for each dimension
        wx = P75 - dx**2
        wxm1 = HALF * (HALF + dx) ** 2
        wxp1 = HALF * (HALF - dx) ** 2
        wy = P75 - dy**2
        wym1 = HALF * (HALF + dy) ** 2
        wyp1 = HALF * (HALF - dy) ** 2
        if threeD:
            wz = P75 - dz**2
            wzm1 = HALF * (HALF + dz) ** 2
            wzp1 = HALF * (HALF - dz) ** 2
        else:
            wz = ftype(1.0)

        # find the wrapped x,y,z grid locations of the points we need to change
        # negative indices will be automatically wrapped
        ixm1 = _rightwrap(ix - itype(1), gx)
        ixw = _rightwrap(ix, gx)
        ixp1 = _rightwrap(ix + itype(1), gx)
        iym1 = _rightwrap(iy - itype(1), gy)
        iyw = _rightwrap(iy, gy)
        iyp1 = _rightwrap(iy + itype(1), gy)
        if threeD:
            izm1 = _rightwrap(iz - itype(1), gz)
            izw = _rightwrap(iz, gz)
            izp1 = _rightwrap(iz + itype(1), gz)
        else:
            izw = itype(0)

        # change the 9 or 27 cells that the cloud touches
        density[ixm1, iym1, izw] += wxm1 * wym1 * wz * W
        density[ixm1, iyw, izw] += wxm1 * wy * wz * W
        density[ixm1, iyp1, izw] += wxm1 * wyp1 * wz * W
        density[ixw, iym1, izw] += wx * wym1 * wz * W
        density[ixw, iyw, izw] += wx * wy * wz * W
        density[ixw, iyp1, izw] += wx * wyp1 * wz * W
        density[ixp1, iym1, izw] += wxp1 * wym1 * wz * W
        density[ixp1, iyw, izw] += wxp1 * wy * wz * W
        density[ixp1, iyp1, izw] += wxp1 * wyp1 * wz * W

        if threeD:
            density[ixm1, iym1, izm1] += wxm1 * wym1 * wzm1 * W
            density[ixm1, iym1, izp1] += wxm1 * wym1 * wzp1 * W

            density[ixm1, iyw, izm1] += wxm1 * wy * wzm1 * W
            density[ixm1, iyw, izp1] += wxm1 * wy * wzp1 * W

            density[ixm1, iyp1, izm1] += wxm1 * wyp1 * wzm1 * W
            density[ixm1, iyp1, izp1] += wxm1 * wyp1 * wzp1 * W

            density[ixw, iym1, izm1] += wx * wym1 * wzm1 * W
            density[ixw, iym1, izp1] += wx * wym1 * wzp1 * W

            density[ixw, iyw, izm1] += wx * wy * wzm1 * W
            density[ixw, iyw, izp1] += wx * wy * wzp1 * W

            density[ixw, iyp1, izm1] += wx * wyp1 * wzm1 * W
            density[ixw, iyp1, izp1] += wx * wyp1 * wzp1 * W

            density[ixp1, iym1, izm1] += wxp1 * wym1 * wzm1 * W
            density[ixp1, iym1, izp1] += wxp1 * wym1 * wzp1 * W

            density[ixp1, iyw, izm1] += wxp1 * wy * wzm1 * W
            density[ixp1, iyw, izp1] += wxp1 * wy * wzp1 * W

            density[ixp1, iyp1, izm1] += wxp1 * wyp1 * wzm1 * W
            density[ixp1, iyp1, izp1] += wxp1 * wyp1 * wzp1 * W
