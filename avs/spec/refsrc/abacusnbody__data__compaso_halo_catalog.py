# The compaso_halo_catalog module loads halo catalogs from CompaSO, Abacus's
# on-the-fly halo finder. The module defines one class, CompaSOHaloCatalog,
# whose constructor takes the path to a halo catalog as an argument.
# Users should use this class as the primary interface to load and manipulate
# halo catalogs.

# A high-level overview of this module is given at
# https://abacusutils.readthedocs.io/en/latest/compaso.html
# or docs/compaso.rst.

import gc
import os
import re
import warnings
from collections import defaultdict
from pathlib import Path, PurePath

import asdf
import astropy.table
import numba
import numpy as np
from astropy.table import Table

try:
    import asdf._compression as asdf_compression
except ImportError:
    import asdf.compression as asdf_compression

from .. import util
from . import asdf as _asdf
from . import bitpacked

try:
    asdf_compression.validate('blsc')
except Exception as e:
    raise Exception(
        'Abacus ASDF extension not properly loaded! Try reinstalling abacusutils, or updating ASDF: `pip install asdf>=2.8`'
    ) from e


# Default to 4 decompression threads, or fewer if fewer cores are available
DEFAULT_BLOSC_THREADS = 4
DEFAULT_BLOSC_THREADS = max(1, min(len(os.sched_getaffinity(0)), DEFAULT_BLOSC_THREADS))

_asdf.set_nthreads(DEFAULT_BLOSC_THREADS)


class CompaSOHaloCatalog:
    """
    A halo catalog from Abacus's on-the-fly group finder.
    """

    # TODO: optional progress meter for loading files
    # TODO: generator mode over superslabs

    def __init__(
        self,
        path,
        cleaned=True,
        subsamples=False,
        convert_units=True,
        unpack_bits=False,
        fields='DEFAULT_FIELDS',
        verbose=False,
        cleandir=None,
        filter_func=None,
        halo_lc=None,
        passthrough=False,
        **kwargs,
    ):
        """
        Loads halos.  The ``halos`` field of this object will contain
        the halo records; and the ``subsamples`` field will contain
        the corresponding halo/field subsample positions and velocities and their
        ids (if requested via ``subsamples``).  The ``header`` field contains
        metadata about the simulation.

        Whether a particle is tagged or not is returned when loading the
        halo and field pids, as it is encoded for each in the 64-bit PID.
        The local density of the particle is also encoded in the PIDs
        and returned upon loading those.

        Parameters
        ----------
        path: path-like or list of path-like
            The halo catalog directory, like ``MySimulation/halos/z1.000/``.
            Or a single halo info file, or a list of halo info files.
            Will accept ``halo_info`` dirs or "redshift" dirs
            (e.g. ``z1.000/halo_info/`` or ``z1.000/``).

            .. note::

                To load cleaned catalogs, you do *not* need to pass a different
                argument to the ``path`` directory.  Use ``cleaned=True`` instead
                and the path to the cleaning info will be detected automatically
                (or see ``cleandir``).

        cleaned: bool, optional
            Loads the "cleaned" version of the halo catalogues. Always recommended.
            Assumes there is a directory called ``cleaning/`` at the same level
            as the top-level simulation directory (or see ``cleandir``).
            Default: True.
            False returns the out-of-the-box CompaSO halos. May be useful for specific
            applications.

        subsamples: bool or dict, optional
            Load halo particle subsamples.  True or False may be specified
            to load all particles or none, or a dict to specify whether to
            load subsample A and/or B, with pos, vel, and/or pid fields:

            .. code-block:: none

                subsamples=dict(A=True, B=True, pos=True, vel=True, pid=True)

            The ``rv`` key may be used as shorthand to set both ``pos`` and ``vel``.
            False (the default) loads nothing.

        convert_units: bool, optional
            Convert positions from unit-box units to BoxSize-box units,
            velocities already come in km/s.  Default: True.

        unpack_bits: bool, or list of str, optional
            Extract information from the PID field of each subsample particle
            info about its Lagrangian position, whether it is tagged, and its
            current local density.  If False, only the particle ID part will
            be extracted.  Note that this per-particle information can be large.
            Can be a list of str, in which case only those fields will be unpacked.
            Field names are: ('pid', 'lagr_pos', 'tagged', 'density', 'lagr_idx').
            Default: False.

        fields: str or list of str, optional
            A list of field names/halo properties to load.  Selecting a small
            subset of fields can be substantially faster than loading all fields
            because the file IO will be limited to the desired fields.
            See ``compaso_halo_catalog.user_dt`` or the :doc:`AbacusSummit Data Model page <summit:data-products>`
            for a list of available fields. See ``compaso_halo_catalog.clean_dt`` for the list
            of cleaned halo fields that will be loaded. 'all' will also load main progenitor
            information, which could be slow.
            Default: 'DEFAULT_FIELDS'

        verbose: bool, optional
            Print informational messages. Default: False

        cleandir: str, optional
            Where the halo catalog cleaning files are located (usually called ``cleaning/``).
            Default of None will try to detect it automatically.  Only has any effect if
            using ``cleaned=True``.

        filter_func: function, optional
            A mask function to be applied to each superslab as it is loaded.  The function
            must take one argument (a halo table) and return a boolean array or similar
            mask on the rows. Simple lambda expressions are particularly useful here;
            for example, to load all halos with 100 particles or more, use:

            .. code-block:: python

                filter_func = lambda h: h['N'] >= 100

        halo_lc: bool or None, optional
            Whether the catalog is a halo light cone catalog, i.e. an output of the CompaSO
            halo light cone pipeline. Default of None means to detect based on the catalog path.

        passthrough: bool, optional
            Do not unpack any of the halo or subsample columns, just load the raw data.  This is useful
            for pipelining, where the data will be unpacked later. Subsample indices, filter_func,
            and cleaning will all still be applied. Defaut: False.

        """
        # Internally, we will use `load_subsamples` as the name of the `subsamples` arg to distinguish it from the `self.subsamples` table
        load_subsamples = subsamples
        del subsamples

        # `cleaned` and `self.cleaned` mean slightly different things.
        # `cleaned` (local var) means to load the cleaning info files,
        # `self.cleaned` means the catalog incorporates cleaning info, either because the user
        # said `cleaned=True` or because this is a halo light cone catalog, which is already cleaned
        self.cleaned = cleaned

        if halo_lc is None:
            halo_lc = self._is_path_halo_lc(
                path[0] if not isinstance(path, (PurePath, str)) else path
            )
            if verbose and halo_lc:
                print('Detected halo light cone catalog.')
        self.halo_lc = halo_lc

        # If loading halo light cones, turn off cleaning and bit unpacking because done already
        if halo_lc:
            if not self.cleaned:
                warnings.warn(
                    '`cleaned=False` was specified but halo light cones always incorporate cleaning'
                )
            cleaned = False
            unpack_bits = False
            self.cleaned = True

        # Check no unknown args!
        if kwargs:
            raise ValueError(
                f'Unknown arguments to CompaSOHaloCatalog constructor: {list(kwargs)}'
            )

        # Parse `path` to determine what files to read
        (
            self.groupdir,
            self.clean_halo_info_dir,
            self.clean_rvpid_dir,
            self.superslab_inds,
            self.halo_fns,
            self.cleaned_halo_fns,
        ) = self._setup_file_paths(
            path, cleaned=cleaned, cleandir=cleandir, halo_lc=halo_lc
        )

        # Figure out what subsamples the user is asking us to loads
        # The halo light cone particle file has no packed columns (rvint, packedpid):
        # "all subsamples" means its pos, vel and pid columns, also in passthrough mode
        self.load_AB, self.load_pidrv = self._setup_load_subsamples(
            load_subsamples, passthrough=passthrough and not halo_lc
        )
        del load_subsamples  # use the parsed values

        # If using halo light cones, only have subsample A available
        if halo_lc and self.load_AB:
            self.load_AB = ['A']

        self.data_key = 'data'
        self.convert_units = convert_units  # let's save, user might want to check later
        self.verbose = verbose
        self.filter_func = filter_func

        unpack_bits = self._setup_unpack_bits(unpack_bits)

        # End parameter parsing, begin opening files

        # Open the first file, just to grab the header
        with asdf.open(self.halo_fns[0], lazy_load=True) as af:
            # will also be available as self.halos.meta
            self.header = af['header']
            # For any applications that propagate the header, record whether they used cleaned halos
            self.header['cleaned_halos'] = self.cleaned

        # If we are using cleaned haloes, want to also grab header information regarding number of preceding timesteps
        if cleaned:
            with asdf.open(self.cleaned_halo_fns[0], lazy_load=True) as af:
                self.header['TimeSliceRedshiftsPrev'] = af['header'][
                    'TimeSliceRedshiftsPrev'
                ]
                self.header['NumTimeSliceRedshiftsPrev'] = len(
                    af['header']['TimeSliceRedshiftsPrev']
                )

        # Read and unpack the catalog into self.halos
        self._setup_halo_field_loaders(passthrough=passthrough)
        N_halo_per_file = self._read_halo_info(
            self.halo_fns,
            fields,
            cleaned=cleaned,
            passthrough=passthrough,
            cleaned_fns=self.cleaned_halo_fns,
        )

        # empty table, to be filled with PIDs and RVs in the loading functions below
        self.subsamples = Table()

        # The subsample loading algorithm is:
        # - load all the (cleaned) halos with their particle indexing info,
        #   maybe with filters applied but not yet reindexed
        # - compute a new set of indices: write start locations and lengths,
        #   both of which combine original and cleaned particles and all files.
        #   The overall ordering will be [[[[original_AB, cleaned_AB] for halo] for file] for A, B].
        # - allocate the output columns for the rv/pid/A/B particles using the new lengths
        # - for each (rv,pid) x (a,b) combo, read a particle file and its cleaned counterpart,
        #   then loop over the corresponding halos (which we know from N_halo_per_file).
        #   For each halo, use the original indices to find the particles.
        #   Unpack them directly into the corresponding column(s), using
        #   the halo's write indexing. Do the original then cleaned particles for each halo.
        #   After writing, check that the number of particles matched the expected write length.

        if halo_lc:
            self._load_halo_lc_subsamples(
                which=self.load_pidrv, unpack_bits=unpack_bits
            )

        elif self.load_AB:
            npstartAB_new = self._compute_new_subsample_indices(
                cleaned=cleaned, load_AB=self.load_AB
            )

            self._load_subsamples(
                N_halo_per_file,
                npstartAB_new,
                which=self.load_pidrv,
                load_AB=self.load_AB,
                cleaned=cleaned,
                unpack_bits=unpack_bits,
            )

            self._update_subsample_index_cols(
                npstartAB_new, load_AB=self.load_AB, cleaned=cleaned
            )

        # If we're reading in cleaned haloes, N should be updated
        if cleaned and not passthrough:
            self.halos.rename_column('N_total', 'N')

        if verbose:
            print('\n' + str(self))

        gc.collect()

    def _setup_file_paths(self, path, cleaned=True, cleandir=None, halo_lc=False):
        """Figure out what files the user is asking for"""

        if isinstance(path, (PurePath, str)):
            path = [Path(path)]  # dir or file
        else:
            path = [Path(p) for p in path]

            # if list, must be all files
            for p in path:
                if p.exists() and not p.is_file():
                    raise ValueError(
                        f'If passing a list of paths, all paths must be files, not dirs. Path "{p}" is not a file.'
                    )

        for p in path:
            if not os.path.exists(p):
                raise FileNotFoundError(f'Path "{p}" does not exist!')

        path = [p.absolute() for p in path]

        # Allow users to pass halo_info dirs, even though redshift dirs remain canonical
        for i, p in enumerate(path):
            if p.name == 'halo_info':
                path[i] = p.parent

        # Can't mix files from different catalogs!
        if path[0].is_file():
            groupdir = path[0].parents[1]
            if halo_lc:
                groupdir = path[0].parent
            for p in path:
                if not groupdir == p.parents[1] and not halo_lc:
                    raise ValueError("Can't mix files from different catalogs!")
                halo_fns = path  # path is list of one or more files

            for i, p in enumerate(path):
                for j, q in enumerate(path[i + 1 :]):
                    if p == q:
                        raise ValueError(
                            f'Cannot pass duplicate halo_info files! Found duplicate "{p}" and at indices {i} and {i + j + 1}'
                        )
        else:
            groupdir = path[0]  # path is a singlet of one dir
            if halo_lc:  # naming convention differs for the light cone catalogs
                globpat = 'lc_halo_info*.asdf'
            else:
                globpat = 'halo_info/halo_info_*.asdf'
            halo_fns = sorted(groupdir.glob(globpat))
            if len(halo_fns) == 0:
                raise FileNotFoundError(
                    f'No halo_info files found! Search pattern was: "{groupdir / globpat}"'
                )

        if halo_lc:
            # halo light cones files aggregate all superslabs into a single file
            superslab_inds = np.array([0])
        else:
            superslab_inds = np.array(
                [int(hfn.stem.split('_')[-1]) for hfn in halo_fns]
            )

        if cleaned:
            if not cleandir:
                for p in groupdir.parents:
                    if (cleandir := (p / 'cleaning')).is_dir():
                        break
                else:
                    raise FileNotFoundError(
                        f'Could not find cleaning info dir, searching upwards from {groupdir}. To load the uncleaned catalog, use `cleaned=False`.'
                    )

            # Check for structures like:
            # cleaning/SimName/z0.000/cleaned_halo_info/cleaned_halo_info_000.asdf
            # cleaning/small/SmallSimName/z0.000/cleaned_halo_info/cleaned_halo_info_000.asdf
            # SimName/cleaning/z0.000/cleaned_halo_info/cleaned_halo_info_000.asdf
            # SimName/cleaning/z0.000/cleaned_halo_info_000.asdf
            relpath = (groupdir.parents[1] / groupdir.name).relative_to(cleandir.parent)
            if (cleandir / relpath / 'cleaned_halo_info').is_dir():
                clean_halo_info_dir = cleandir / relpath / 'cleaned_halo_info'
                clean_rvpid_dir = cleandir / relpath / 'cleaned_rvpid'
            else:
                clean_halo_info_dir = cleandir / relpath
                clean_rvpid_dir = cleandir / relpath

            cleaned_halo_fns = [
                clean_halo_info_dir / f'cleaned_halo_info_{i:03d}.asdf'
                for i in superslab_inds
            ]

            for fn in cleaned_halo_fns:
                if not fn.is_file():
                    raise FileNotFoundError(
                        f'Cleaning info not found. File path was: "{fn}". To load the uncleaned catalog, use `cleaned=False`.'
                    )
        else:
            clean_halo_info_dir = None
            clean_rvpid_dir = None
            cleaned_halo_fns: list[Path] = []

        return (
            groupdir,
            clean_halo_info_dir,
            clean_rvpid_dir,
            superslab_inds,
            halo_fns,
            cleaned_halo_fns,
        )

    def _setup_unpack_bits(self, unpack_bits):
        # validate unpack_bits
        if isinstance(unpack_bits, str):
            unpack_bits = [unpack_bits]
        if unpack_bits not in (True, False):
            try:
                for _f in unpack_bits:
                    assert _f in bitpacked.PID_FIELDS
            except Exception:
                raise ValueError(
                    f'`unpack_bits` must be True, False, or one of: "{bitpacked.PID_FIELDS}"'
                )
        return unpack_bits

    def _setup_load_subsamples(self, load_subsamples, passthrough=False):
        """
        Figure out if the user wants A, B, pid, pos, vel.
        Will be returned as lists of strings in `load_AB` and `load_pidrv`.
        """
        if load_subsamples is False:
            # stub
            load_AB = []
            load_pidrv = []
        else:
            # If user has not specified which subsamples, then assume user wants to load everything
            if load_subsamples is True:
                if passthrough:
                    load_subsamples = dict(A=True, B=True, rvint=True, packedpid=True)
                else:
                    load_subsamples = dict(A=True, B=True, rv=True, pid=True)

            if isinstance(load_subsamples, dict):
                # Work on a copy: the known keys are popped below, and the caller's dict
                # must still describe the same selection on the next load
                load_subsamples = dict(load_subsamples)
                load_AB = [k for k in 'AB' if load_subsamples.get(k)]  # ['A', 'B']

                # Check for conflicts between rv, pos, vel. Must be done before list-ifying to distinguish False and not given.
                if 'rv' in load_subsamples:
                    if 'pos' in load_subsamples or 'vel' in load_subsamples:
                        raise ValueError(
                            'Cannot pass `rv` and `pos` or `vel` in `load_subsamples`.'
                        )

                load_pidrv = [
                    k
                    for k in load_subsamples
                    if k in ('pid', 'pos', 'vel', 'rv', 'rvint', 'packedpid')
                    and load_subsamples.get(k)
                ]  # ['pid', 'pos', 'vel']

                # set some intelligent defaults
                if load_pidrv and not load_AB:
                    warnings.warn(
                        f'Loading of {load_pidrv} was requested but neither subsample A nor B was specified. Assuming subsample A. Can specify with `load_subsamples=dict(A=True)`.'
                    )
                    load_AB = ['A']
                elif not load_pidrv and load_AB:
                    if load_subsamples.get('pos') is not False:
                        load_pidrv += ['pos']
                    if load_subsamples.get('vel') is not False:
                        load_pidrv += ['vel']
                    if not load_pidrv:
                        warnings.warn(
                            f'Loading of subsample {load_AB} was requested but none of `pos`, `vel`, `rv`, `pid` was specified. Assuming `rv`. Can specify with `load_subsamples=dict(rv=True)`.'
                        )
                        load_pidrv = ['rv']

                if load_subsamples.pop('field', False):
                    raise ValueError(
                        'Loading field particles through CompaSOHaloCatalog is not supported. Read the particle files directly with `abacusnbody.data.read_abacus.read_asdf()`.'
                    )

                # Pop all known keys, so if anything is left, that's an error!
                for k in [
                    'A',
                    'B',
                    'rv',
                    'pid',
                    'pos',
                    'vel',
                    'unpack',
                    'rvint',
                    'packedpid',
                ]:
                    load_subsamples.pop(k, None)

                if load_subsamples:
                    raise ValueError(
                        f'Unrecognized keys in `load_subsamples`: {list(load_subsamples)}'
                    )

        if 'rv' in load_pidrv:
            load_pidrv.remove('rv')
            load_pidrv += ['pos', 'vel']

        return load_AB, load_pidrv

    def _setup_fields(
        self,
        fields,
        cleaned=True,
        load_AB=None,
        halo_lc=False,
        passthrough=False,
        halo_info_af=None,
        cleaned_halo_info_af=None,
    ):
        """Determine the halo catalog fields to load based on user input"""

        if passthrough:
            # In passthrough mode, the fields are determined by the file contents
            raw_fields = list(halo_info_af[self.data_key])
            # There is no cleaning file when loading the uncleaned catalog
            if cleaned_halo_info_af is not None:
                raw_cleaned_fields = list(cleaned_halo_info_af[self.data_key])
            else:
                raw_cleaned_fields = []

            if isinstance(fields, str) and fields == 'all':
                fields = raw_fields
                cleaned_fields = raw_cleaned_fields
            elif isinstance(fields, str) and fields == 'DEFAULT_FIELDS':
                # Same convention as the unpacked catalog: everything but the main progenitor info
                fields = raw_fields
                cleaned_fields = [r for r in raw_cleaned_fields if r in clean_dt.names]
            else:
                if isinstance(fields, str):
                    fields = [fields]
                requested = list(fields)

                # The columns needed to index the subsamples must always be loaded
                for AB in load_AB or []:
                    requested += ['npstart' + AB, 'npout' + AB]
                    if cleaned:
                        requested += [
                            'npstart' + AB + '_merge',
                            'npout' + AB + '_merge',
                            'N_total',
                        ]

                fields = [r for r in raw_fields if r in requested]
                cleaned_fields = [r for r in raw_cleaned_fields if r in requested]

            return fields, cleaned_fields

        if fields == 'DEFAULT_FIELDS':
            fields = list(user_dt.names)
            if cleaned:
                fields += list(clean_dt.names)
            if halo_lc:
                fields += list(halo_lc_dt.names)
        if fields == 'all':
            fields = list(user_dt.names)
            if cleaned:
                fields += list(clean_dt_progen.names)
            if halo_lc:
                fields += list(halo_lc_dt.names)

        if isinstance(fields, str):
            fields = [fields]
        # Convert any other iter, like tuple
        fields = list(fields)

        # Minimum requirement for cleaned haloes
        if cleaned:
            # If we load cleaned, 'N' no longer has meaning
            if 'N' in fields:
                fields.remove('N')
            if 'N_total' not in fields:
                fields += ['N_total']

        # Let's split `fields` so that there is a separate set of `cleaned_fields`
        cleaned_fields = []
        if cleaned:
            for item in list(clean_dt_progen.names):
                if item in fields:
                    fields.remove(item)
                    cleaned_fields += [item]

        # B.H. Remove fields that are not recorded for the light cone catalogs
        if halo_lc:
            for item in list(fields):
                # TODO: this will silently drop misspellings
                if 'L2' not in item and item not in halo_lc_dt.names:
                    fields.remove(item)

        if load_AB is None:
            load_AB = []

        # If the user has not asked to load the npstart/npout columns (and their _merge
        # counterparts for cleaned catalogs), we need to do so ourselves for indexing
        for AB in load_AB:
            if 'npstart' + AB not in fields:
                fields += ['npstart' + AB]
            if 'npout' + AB not in fields:
                fields += ['npout' + AB]
            if cleaned:
                if 'npstart' + AB + '_merge' not in cleaned_fields:
                    cleaned_fields += ['npstart' + AB + '_merge']
                if 'npout' + AB + '_merge' not in cleaned_fields:
                    cleaned_fields += ['npout' + AB + '_merge']

        return fields, cleaned_fields

    def _read_halo_info(
        self,
        halo_fns,
        fields,
        cleaned=False,
        cleaned_fns=None,
        passthrough=False,
    ):
        if not cleaned_fns:
            cleaned_fns = []
        else:
            assert len(cleaned_fns) == len(halo_fns)

        # Open all the files, validate them, and count the halos
        # Lazy load, but don't use mmap
        afs = [asdf.open(hfn, lazy_load=True, memmap=False) for hfn in halo_fns]
        cleaned_afs = [
            asdf.open(hfn, lazy_load=True, memmap=False) for hfn in cleaned_fns
        ]

        # Parse `fields` to determine halo catalog fields to read.
        # If using passthrough, the fields will be (a subset of) the raw columns
        # as determined from the files on disk
        fields, cleaned_fields = self._setup_fields(
            fields,
            cleaned=cleaned,
            load_AB=self.load_AB,
            halo_lc=self.halo_lc,
            passthrough=passthrough,
            halo_info_af=afs[0],
            cleaned_halo_info_af=cleaned_afs[0] if cleaned else None,
        )
        self.fields = fields
        self.cleaned_fields = cleaned_fields

        N_halo_per_file = np.array(
            [len(af[self.data_key][list(af[self.data_key].keys())[0]]) for af in afs]
        )
        for _N, caf in zip(N_halo_per_file, cleaned_afs):
            assert (
                len(caf[self.data_key][next(iter(caf[self.data_key]))]) == _N
            )  # check cleaned/regular file consistency

        N_halos = N_halo_per_file.sum()

        # Make an empty table for the concatenated, unpacked values
        # Note that np.empty is being smart here and creating 2D arrays when the dtype is a vector

        cols = {}
        if not passthrough:
            for col in fields:
                if col in halo_lc_dt.names:
                    cols[col] = np.empty(N_halos, dtype=halo_lc_dt[col])
                else:
                    cols[col] = np.empty(N_halos, dtype=user_dt[col])
            for col in cleaned_fields:
                cols[col] = np.empty(N_halos, dtype=clean_dt_progen[col])
        else:
            # For passthrough, the file contents determine the shapes/dtypes
            raw_cols = afs[0][self.data_key]
            for field in fields:
                col = raw_cols[field]
                cols[field] = np.empty((N_halos,) + col.shape[1:], dtype=col.dtype)

            raw_cols = cleaned_afs[0][self.data_key] if cleaned_afs else {}
            for field in cleaned_fields:
                col = raw_cols[field]
                cols[field] = np.empty((N_halos,) + col.shape[1:], dtype=col.dtype)

        all_fields = list(cols)

        # Figure out what raw columns we need to read based on the fields the user requested
        # TODO: provide option to drop un-requested columns
        raw_dependencies, fields_with_deps, extra_fields = (
            self._get_halo_fields_dependencies(all_fields)
        )

        if passthrough:
            assert set(raw_dependencies) == set(fields_with_deps)
            assert len(extra_fields) == 0

        # save for informational purposes
        if not hasattr(self, 'dependency_info'):
            self.dependency_info = defaultdict(list)
        self.dependency_info['raw_dependencies'] += raw_dependencies
        self.dependency_info['fields_with_deps'] += fields_with_deps
        self.dependency_info['extra_fields'] += extra_fields

        if self.verbose:
            print(
                f'{len(fields)} halo catalog fields ({len(cleaned_fields)} cleaned) requested. '
                f'Reading {len(raw_dependencies)} fields from disk. '
                f'Computing {len(extra_fields)} intermediate fields.'
            )
            if self.halo_lc:
                print(
                    '\nFor more information on the halo light cone catalog fields, see https://abacussummit.readthedocs.io/en/latest/data-products.html#halo-light-cone-catalogs'
                )

        self.halos = Table(cols, copy=False)
        self.halos.meta.update(self.header)

        # If we're loading main progenitor info, do this:

        if not passthrough:
            # TODO: this shows the limits of querying the types from a numpy dtype, should query from a function
            r = re.compile('.*mainprog')
            prog_fields = list(filter(r.match, cleaned_fields))
            for fields in prog_fields:
                if fields in ['v_L2com_mainprog', 'haloindex_mainprog']:
                    continue
                else:
                    self.halos.replace_column(
                        fields,
                        np.empty(
                            N_halos,
                            dtype=(
                                clean_dt_progen[fields],
                                self.header['NumTimeSliceRedshiftsPrev'],
                            ),
                        ),
                        copy=False,
                    )

        # Unpack the cats into the concatenated array
        # The writes would probably be more efficient if the outer loop was over column
        # and the inner was over cats, but wow that would be ugly
        N_written = 0
        for i, af in enumerate(afs):
            caf = cleaned_afs[i] if cleaned_afs else None

            # The unit factors are those of the file the values are stored in: the files of
            # a halo light cone may come from several epochs, each with its own VelZSpace_to_kms
            if not passthrough:
                self._setup_halo_field_loaders(header=af['header'])

            # This is where the IO on the raw columns happens
            # There are some fields that we'd prefer to directly read into the concatenated table,
            # but ASDF doesn't presently support that, so this is the best we can do
            rawhalos = {}
            for field in raw_dependencies:
                # Without a cleaning file (uncleaned catalog, halo light cone) every column,
                # also one that bears the name of a cleaning column, is in the halo info file
                if caf is not None and field in clean_dt_progen.names:
                    src = caf
                else:
                    src = af
                rawhalos[field] = src[self.data_key][field][:]
            rawhalos = Table(data=rawhalos, copy=False)
            af.close()
            if caf:
                caf.close()

            # `halos` will be a "pointer" to the next open space in the master table
            halos = self.halos[N_written : N_written + len(rawhalos)]

            # For temporary (extra) columns, only need to construct the per-file version
            for field in extra_fields:
                src = clean_dt_progen if field in clean_dt_progen.names else user_dt
                halos.add_column(
                    np.empty(len(rawhalos), dtype=src[field]), name=field, copy=False
                )
                # halos[field][:] = np.nan  # for debugging

            loaded_fields = []
            for field in fields_with_deps:
                if field in loaded_fields:
                    continue
                loaded_fields += self._load_halo_field(halos, rawhalos, field)

            if self.filter_func:
                # N_total from the cleaning replaces N. For filtering purposes, allow the user to use 'N'
                if cleaned and not passthrough:
                    halos.rename_column('N_total', 'N')

                mask = self.filter_func(halos)
                nmask = mask.sum()
                halos[:nmask] = halos[mask]
                del mask
                N_superslab = nmask
            else:
                N_superslab = len(halos)
            N_written += N_superslab
            N_halo_per_file[i] = N_superslab

            del halos, rawhalos
            del af, caf, src
            afs[i] = None
            if cleaned_afs:
                cleaned_afs[i] = None
            gc.collect()

        # Now the filtered length
        self.halos = self.halos[:N_written]
        if N_written < N_halos:
            # Release virtual memory if we didn't fill the whole allocation
            for col in cols:
                s = list(cols[col].shape)
                s[0] = N_written
                oldaddr = cols[col].ctypes.data
                cols[col].resize(s, refcheck=False)
                if cols[col].ctypes.data != oldaddr:
                    warnings.warn('Resize resulted in copy')
        N_halos = len(self.halos)

        return N_halo_per_file

    def _setup_halo_field_loaders(self, passthrough=False, header=None):
        # Loaders is a dict of regex -> lambda
        # The lambda is responsible for unpacking the rawhalos field
        # The first regex that matches will be used, so they must be precise
        self.halo_field_loaders = {}

        if passthrough:
            pat = re.compile(r'.*')
            self.halo_field_loaders[pat] = lambda m, raw, halos: raw[m[0]]
            return

        if header is None:
            header = self.header

        if self.convert_units:
            box = header['BoxSize']
            # TODO: correct velocity units? There is an earlier comment claiming that velocities are already in km/s
            zspace_to_kms = header['VelZSpace_to_kms']
        else:
            box = 1.0
            zspace_to_kms = 1.0

        # The first argument to the following lambdas is the match object from re.match()
        # We will use m[0] to access the full match (i.e. the full field name)
        # Other indices, like m['com'], will access the sub-match with that group name

        # r10,r25,r33,r50,r67,r75,r90,r95,r98
        pat = re.compile(r'(?:r\d{1,2}|rvcirc_max)(?P<com>_(?:L2)?com)')
        self.halo_field_loaders[pat] = (
            lambda m, raw, halos: raw[m[0] + '_i16']
            * raw['r100' + m['com']]
            / INT16SCALE
            * box
        )

        # sigmavMin, sigmavMaj, sigmavrad, sigmavtan
        pat = re.compile(r'(?P<stem>sigmav(?:Min|Maj|rad|tan))(?P<com>_(?:L2)?com)')

        def _sigmav_loader(m, raw, halos):
            stem = m['stem'].replace('Maj', 'Max')
            return (
                raw[stem + '_to_sigmav3d' + m['com'] + '_i16']
                * raw['sigmav3d' + m['com']]
                / INT16SCALE
                * zspace_to_kms
            )

        self.halo_field_loaders[pat] = _sigmav_loader

        # sigmavMid
        pat = re.compile(r'sigmavMid(?P<com>_(?:L2)?com)')

        def _sigmavMid_loader(m, raw, halos):
            # Mid^2 = sigmav3d^2 - Maj^2 - Min^2. Take the difference on the stored
            # integer ratios, where it is exact: the difference of the rounded float32
            # squares comes out below zero (NaN) when the ratios leave nothing for
            # the middle axis, and loses digits near that.
            rmin = np.asarray(
                raw['sigmavMin_to_sigmav3d' + m['com'] + '_i16'], dtype=np.int64
            )
            rmaj = np.asarray(
                raw['sigmavMax_to_sigmav3d' + m['com'] + '_i16'], dtype=np.int64
            )
            rmid2 = int(INT16SCALE) ** 2 - rmaj**2 - rmin**2
            return (
                np.sqrt(rmid2) / INT16SCALE * raw['sigmav3d' + m['com']] * zspace_to_kms
            )

        self.halo_field_loaders[pat] = _sigmavMid_loader

        # sigmar
        pat = re.compile(r'sigmar(?P<com>_(?:L2)?com)')
        self.halo_field_loaders[pat] = (
            lambda m, raw, halos: raw[m[0] + '_i16']
            * raw['r100' + m['com']].reshape(-1, 1)
            / INT16SCALE
            * box
        )

        # sigman
        pat = re.compile(r'sigman(?P<com>_(?:L2)?com)')
        self.halo_field_loaders[pat] = (
            lambda m, raw, halos: raw[m[0] + '_i16'] / INT16SCALE * box
        )

        # x,r100 (box-scaled fields)
        pat = re.compile(r'(x|r100)(?P<com>_(?:L2)?com)')
        self.halo_field_loaders[pat] = lambda m, raw, halos: raw[m[0]] * box

        # v,sigmav,sigmav3d,meanSpeed,sigmav3d_r50,meanSpeed_r50,vcirc_max (vel-scaled fields)
        pat = re.compile(
            r'(v|sigmav3d|meanSpeed|sigmav3d_r50|meanSpeed_r50|vcirc_max)(?P<com>_(?:L2)?com)'
        )
        self.halo_field_loaders[pat] = lambda m, raw, halos: raw[m[0]] * zspace_to_kms

        # id,npstartA,npstartB,npoutA,npoutB,ntaggedA,ntaggedB,N,L2_N,L0_N (raw/passthrough fields)
        # If ASDF could read into a user-provided array, could avoid these copies
        pat = re.compile(
            r'id|npstartA|npstartB|npoutA|npoutB|ntaggedA|ntaggedB|N|L2_N|L0_N|N_total|N_merge|npstartA_merge|npstartB_merge|npoutA_merge|npoutB_merge|npoutA_L0L1|npoutB_L0L1|is_merged_to|N_mainprog|vcirc_max_L2com_mainprog|sigmav3d_L2com_mainprog|haloindex|haloindex_mainprog|v_L2com_mainprog'
        )
        self.halo_field_loaders[pat] = lambda m, raw, halos: raw[m[0]]

        # SO_central_particle,SO_radius (and _L2max) (box-scaled fields)
        pat = re.compile(r'SO(?:_L2max)?(?:_central_particle|_radius)')
        self.halo_field_loaders[pat] = lambda m, raw, halos: raw[m[0]] * box

        # SO_central_density (and _L2max)
        pat = re.compile(r'SO(?:_L2max)?(?:_central_density)')
        self.halo_field_loaders[pat] = lambda m, raw, halos: raw[m[0]]

        # loader for halo light cone catalog specific fields
        pat = re.compile(r'index_halo|pos_avg|vel_avg|redshift_interp|N_interp')
        self.halo_field_loaders[pat] = lambda m, raw, halos: raw[m[0]]

        # loader for halo light cone catalog field `origin`
        pat = re.compile(r'origin')
        self.halo_field_loaders[pat] = lambda m, raw, halos: raw[m[0]] % 3

        # loader for halo light cone catalog fields: interpolated position and velocity
        pat = re.compile(r'(?P<pv>pos|vel)_interp')

        def lc_interp_loader(m, raw, halos):
            columns = {}
            pa = np.atleast_2d(raw['pos_avg'])
            avg_avail = np.any(pa, axis=1)  # abacusnbody/hod/prepare_sim.py
            if m[0] == 'pos_interp' or 'pos_interp' in halos.colnames:
                columns['pos_interp'] = np.where(
                    avg_avail[:, None], raw['pos_avg'], raw['pos_interp']
                )
            if m[0] == 'vel_interp' or 'vel_interp' in halos.colnames:
                columns['vel_interp'] = np.where(
                    avg_avail[:, None], raw['vel_avg'], raw['vel_interp']
                )
            return columns

        self.halo_field_loaders[pat] = lc_interp_loader

        # eigvecs loader
        pat = re.compile(
            r'(?P<rnv>sigma(?:r|n|v)_eigenvecs)(?P<which>Min|Mid|Maj)(?P<com>_(?:L2)?com)'
        )

        def eigvecs_loader(m, raw, halos):
            minor, middle, major = _unpack_euler16(raw[m['rnv'] + m['com'] + '_u16'])
            columns = {}

            minor_field = m['rnv'] + 'Min' + m['com']
            if minor_field in halos.colnames:
                columns[minor_field] = minor
            middle_field = m['rnv'] + 'Mid' + m['com']
            if middle_field in halos.colnames:
                columns[middle_field] = middle
            major_field = m['rnv'] + 'Maj' + m['com']
            if major_field in halos.colnames:
                columns[major_field] = major

            return columns

        self.halo_field_loaders[pat] = eigvecs_loader

    def _get_halo_fields_dependencies(self, fields):
        """Each of the loaders accesses some raw columns on disk to
        produce the user-facing halo catalog columns. This function
        will determine which of those raw fields needs to be read
        by calling the loader functions with a dummy object that
        records field accesses.
        """

        # TODO: define pre-set subsets of common fields

        class DepCapture:
            def __init__(self):
                self.keys = []
                self.colnames = []

            def __getitem__(self, key):
                self.keys += [key]
                return np.ones(1)  # a safe numeric value

        iter_fields = list(fields)  # make a copy

        raw_dependencies = []
        field_dependencies = []
        for field in iter_fields:
            have_match = False
            for pat in self.halo_field_loaders:
                match = pat.fullmatch(field)
                if match:
                    if have_match:
                        raise KeyError(
                            f'Found more than one way to load field "{field}"'
                        )
                    capturer, raw_capturer = DepCapture(), DepCapture()
                    self.halo_field_loaders[pat](match, raw_capturer, capturer)
                    raw_dependencies += raw_capturer.keys

                    # these are fields of `halos`
                    for k in capturer.keys:
                        # Add fields regardless of whether they have already been encountered
                        iter_fields += [k]
                        if k not in fields:
                            field_dependencies += [k]
                    have_match = True
                    # break  # comment out for debugging
            else:
                if not have_match:
                    raise KeyError(f'Don\'t know how to load halo field "{field}"')

        raw_dependencies = list(set(raw_dependencies))  # make unique
        # unique, preserve order, but using last occurrence
        # because nested dependencies need to be loaded in reverse order
        fields_with_deps = list(dict.fromkeys(iter_fields[::-1]))
        field_deps = list(dict.fromkeys(field_dependencies[::-1]))

        # All raw dependencies for all user-requested fields
        return raw_dependencies, fields_with_deps, field_deps

    def _load_halo_field(self, halos, rawhalos, field):
        # TODO: attach units to all these?

        # We must use the halos['field'][:] syntax in order to do an in-place update
        # We will enable column replacement warnings to make sure we don't make a mistake
        # Remember that "halos" here is a view into the self.halos table
        _oldwarn = astropy.table.conf.replace_warnings
        astropy.table.conf.replace_warnings = ['always']

        # Look for the loader for this field, should only match one
        have_match = False
        loaded_fields = []
        for pat in self.halo_field_loaders:
            match = pat.fullmatch(field)
            if match:
                if have_match:
                    raise KeyError(f'Found more than one way to load field "{field}"')
                column = self.halo_field_loaders[pat](match, rawhalos, halos)

                # Note that we missed an opportunity to load the fields in-place.
                # However, the extra copy should be on a per-field, per-file basis.
                # TODO: if we get asdf.read_into(), we should refactor this

                # The loader is allowed to return a dict if it incidentally loaded multiple columns
                if isinstance(column, dict):
                    assert field in column
                    for k in column:
                        halos[k][:] = column[k]
                    loaded_fields += list(column)
                else:
                    halos[field][:] = column
                    loaded_fields += [field]

                have_match = True
                # break  # comment out for debugging
        else:
            if not have_match:
                raise KeyError(f'Don\'t know how to load halo field "{field}"')

        astropy.table.conf.replace_warnings = _oldwarn

        return loaded_fields

    def _compute_new_subsample_indices(self, cleaned=True, load_AB=None):
        # Return the npstart{AB}_new arrays. This is where subsamples will be written.
        # One special thing about these arrays is that they will be oversized by 1
        # so that we know where the end of the last halo is.
        # Later, we'll shrink it by 1 then make it a halo column.
        # The order is original followed by clean for each halo, with all A before all B.

        offset = np.uint64(0)

        if cleaned:
            cleaned_mask = self.halos['N_total'] == 0

        npstartAB_new = {}
        for AB in load_AB:
            npoutAB = self.halos[f'npout{AB}']
            if cleaned:
                # Need to modify the originals, because these halos have been cleaned away.
                # Their subsample particles are already in another halo's incoming cleaned particles.
                self.halos[f'npout{AB}'][cleaned_mask] = 0

                # But can't add the merged counts yet to the originals,
                # we still need the original indexing for the reads.
                npoutAB = npoutAB + self.halos[f'npout{AB}_merge']

            npstartAB_new[AB] = np.empty(len(self.halos) + 1, dtype=np.uint64)
            offset = util.cumsum(
                npoutAB,
                npstartAB_new[AB],
                initial=True,
                final=True,
                offset=offset,
            )

        return npstartAB_new

    def _load_subsamples(
        self,
        N_halo_per_file,
        npstartAB_new,
        which=['pos', 'vel', 'pid'],  # 'rvint'
        load_AB=None,
        cleaned=True,
        check_pids=False,
        unpack_bits=False,
    ):
        # Read each requested subsample file.
        # Unpack the data directly into the subsample table,
        # using the write indices computed in _compute_new_subsample_indices().
        # The read indices are simply the unaltered npstart/npout columns!

        N_subsamp = npstartAB_new['B'][-1] if 'B' in load_AB else npstartAB_new['A'][-1]
        for w in which:
            if w in ('pos', 'vel', 'rvint'):
                shape = (N_subsamp, 3)
                dtype = np.int32 if w == 'rvint' else np.float32
                self.subsamples.add_column(
                    np.empty(shape, dtype=dtype), name=w, copy=False
                )

        if 'pid' in which or 'packedpid' in which:
            # TODO: the distiction between `which` and `unpack_bits` is getting a bit muddled
            if unpack_bits is False:
                unpack_bits = 'packedpid' if 'packedpid' in which else 'pid'
            # add any PID fields
            self.subsamples.update(
                bitpacked.empty_bitpacked_arrays(N_subsamp, unpack_bits),
                copy=False,
            )

        which_files = []
        if 'pos' in which or 'vel' in which or 'rvint' in which:
            which_files += ['rv']
        if 'pid' in which or 'packedpid' in which:
            which_files += ['pid']

        # The boundaries of each halo file in the self.halos table
        halo_file_offsets = np.empty(len(N_halo_per_file) + 1, dtype=np.uint64)
        util.cumsum(N_halo_per_file, halo_file_offsets, initial=True, final=True)

        if cleaned:
            # these will be reused
            clean_afs = [
                asdf.open(
                    self.clean_rvpid_dir / f'cleaned_rvpid_{i:03d}.asdf',
                    lazy_load=True,
                    memmap=False,
                )
                for i in self.superslab_inds
            ]

        for rvpid in which_files:
            colname = {'rv': 'rvint', 'pid': 'packedpid'}[rvpid]
            for AB in load_AB:
                for i in range(len(self.superslab_inds)):
                    fn = (
                        Path(self.groupdir)
                        / f'halo_{rvpid}_{AB}'
                        / f'halo_{rvpid}_{AB}_{self.superslab_inds[i]:03d}.asdf'
                    )
                    with asdf.open(fn, lazy_load=True, memmap=False) as af:
                        slab_particles = af[self.data_key][colname][:]
                    if cleaned:
                        clean_af = clean_afs[i]
                        clean_slab_particles = clean_af[self.data_key][
                            f'{colname}_{AB}'
                        ][:]

                    keys = [f'npstart{AB}', f'npout{AB}']
                    if cleaned:
                        keys += [f'npstart{AB}_merge', f'npout{AB}_merge']
                    slab_halos = {
                        k: self.halos[k][
                            halo_file_offsets[i] : halo_file_offsets[i + 1]
                        ]
                        for k in keys
                    }

                    # We grab an extra element at the end to know where the last halo ends
                    slab_write_offsets = npstartAB_new[AB][
                        halo_file_offsets[i] : halo_file_offsets[i + 1] + np.uint64(1)
                    ]

                    kwargs = {
                        'slab_read_offsets': slab_halos[f'npstart{AB}'],
                        'slab_read_lens': slab_halos[f'npout{AB}'],
                        'slab_write_offsets': slab_write_offsets,
                        'boxsize': self.header['BoxSize'],
                    }

                    if cleaned:
                        kwargs.update(
                            {
                                'clean_slab_read_offsets': slab_halos[
                                    f'npstart{AB}_merge'
                                ],
                                'clean_slab_read_lens': slab_halos[f'npout{AB}_merge'],
                            }
                        )

                    if rvpid == 'rv':
                        kwargs['slab_rvint'] = slab_particles
                        if cleaned:
                            kwargs['clean_slab_rvint'] = clean_slab_particles

                        kwargs['pos'] = self.subsamples.columns.get('pos')
                        kwargs['vel'] = self.subsamples.columns.get('vel')
                        kwargs['rvint'] = self.subsamples.columns.get('rvint')

                        self._unpack_rv_subsamples(**kwargs)
                    else:
                        kwargs['slab_packedpid'] = slab_particles
                        if cleaned:
                            kwargs['clean_slab_packedpid'] = clean_slab_particles

                        for pidfield in bitpacked.PID_FIELDS:
                            kwargs[pidfield] = self.subsamples.columns.get(pidfield)

                        kwargs['ppd'] = self.header['ppd']
                        self._unpack_pid_subsamples(**kwargs)

        if cleaned:
            for af in clean_afs:
                af.close()

    @staticmethod
    @numba.njit
    def _unpack_rv_subsamples(
        pos,
        vel,
        rvint,
        slab_rvint,
        slab_read_offsets,
        slab_read_lens,
        slab_write_offsets,
        boxsize,
        clean_slab_rvint=None,
        clean_slab_read_offsets=None,
        clean_slab_read_lens=None,
    ):
        # Zipper togther the original and cleaned subsamples on a per-halo basis.
        # Reads may not be contiguous (e.g. halos could be filtered out, and we skip L0),
        # but writes are.

        N_halo = len(slab_read_offsets)
        for i in range(N_halo):
            halo_rvint = slab_rvint[
                slab_read_offsets[i] : slab_read_offsets[i] + slab_read_lens[i]
            ]

            wstart = slab_write_offsets[i]
            wend = slab_write_offsets[i + 1]

            halo_posout = pos[wstart:wend] if pos is not None else None
            halo_velout = vel[wstart:wend] if vel is not None else None
            halo_rvintout = rvint[wstart:wend] if rvint is not None else None

            if rvint is not None:
                halo_rvintout[: len(halo_rvint)] = halo_rvint

            bitpacked._unpack_rvint(halo_rvint, boxsize, halo_posout, halo_velout)

            if clean_slab_rvint is not None:
                clean_halo_rvint = clean_slab_rvint[
                    clean_slab_read_offsets[i] : clean_slab_read_offsets[i]
                    + clean_slab_read_lens[i]
                ]

                # fast-forward the write index
                woff = slab_read_lens[i]

                if pos is not None:
                    halo_posout = halo_posout[woff:]
                if vel is not None:
                    halo_velout = halo_velout[woff:]
                if rvint is not None:
                    halo_rvintout = halo_rvintout[woff:]
                    halo_rvintout[: len(clean_halo_rvint)] = clean_halo_rvint
                bitpacked._unpack_rvint(
                    clean_halo_rvint, boxsize, halo_posout, halo_velout
                )

    @staticmethod
    @numba.njit
    def _unpack_pid_subsamples(
        pid,
        slab_packedpid,
        slab_read_offsets,
        slab_read_lens,
        slab_write_offsets,
        boxsize,
        ppd,
        clean_slab_packedpid=None,
        clean_slab_read_offsets=None,
        clean_slab_read_lens=None,
        lagr_pos=None,
        tagged=None,
        density=None,
        lagr_idx=None,
        packedpid=None,
    ):
        N_halo = len(slab_read_offsets)
        for i in range(N_halo):
            halo_packedpid = slab_packedpid[
                slab_read_offsets[i] : slab_read_offsets[i] + slab_read_lens[i]
            ]

            wstart = slab_write_offsets[i]
            wend = slab_write_offsets[i + 1]

            # Because these have different types and shapes, and can be None, it's hard to use a Numba dict
            halo_pidout = pid[wstart:wend] if pid is not None else None
            halo_lagr_posout = lagr_pos[wstart:wend] if lagr_pos is not None else None
            halo_taggedout = tagged[wstart:wend] if tagged is not None else None
            halo_densityout = density[wstart:wend] if density is not None else None
            halo_lagr_idxout = lagr_idx[wstart:wend] if lagr_idx is not None else None
            halo_packedpidout = (
                packedpid[wstart:wend] if packedpid is not None else None
            )

            if packedpid is not None:
                halo_packedpidout[: len(halo_packedpid)] = halo_packedpid

            bitpacked._unpack_pids(
                halo_packedpid,
                boxsize,
                ppd,
                pid=halo_pidout,
                lagr_pos=halo_lagr_posout,
                tagged=halo_taggedout,
                density=halo_densityout,
                lagr_idx=halo_lagr_idxout,
            )

            if clean_slab_packedpid is not None:
                clean_halo_packedpid = clean_slab_packedpid[
                    clean_slab_read_offsets[i] : clean_slab_read_offsets[i]
                    + clean_slab_read_lens[i]
                ]

                # fast-forward the write index
                woff = slab_read_lens[i]

                if pid is not None:
                    halo_pidout = halo_pidout[woff:]
                if lagr_pos is not None:
                    halo_lagr_posout = halo_lagr_posout[woff:]
                if tagged is not None:
                    halo_taggedout = halo_taggedout[woff:]
                if density is not None:
                    halo_densityout = halo_densityout[woff:]
                if lagr_idx is not None:
                    halo_lagr_idxout = halo_lagr_idxout[woff:]
                if packedpid is not None:
                    halo_packedpidout = halo_packedpidout[woff:]
                    halo_packedpidout[: len(clean_halo_packedpid)] = (
                        clean_halo_packedpid
                    )

                bitpacked._unpack_pids(
                    clean_halo_packedpid,
                    boxsize,
                    ppd,
                    pid=halo_pidout,
                    lagr_pos=halo_lagr_posout,
                    tagged=halo_taggedout,
                    density=halo_densityout,
                    lagr_idx=halo_lagr_idxout,
                )

    def _update_subsample_index_cols(self, npstartAB_new, load_AB='AB', cleaned=True):
        # Now that we've used the original npout/npstart columns to read the subsamples,
        # we can move the new indices into the old columns.

        for AB in load_AB:
            self.halos.remove_column(f'npstart{AB}')
            self.halos.remove_column(f'npout{AB}')
            if cleaned:
                self.halos.remove_column(f'npstart{AB}_merge')
                self.halos.remove_column(f'npout{AB}_merge')

            self.halos.add_column(
                npstartAB_new[AB][:-1], name=f'npstart{AB}', copy=False
            )

            # We knew the writes were contiguous, so we never computed npout{AB}_new
            # Reconstruct it here
            self.halos.add_column(
                np.diff(npstartAB_new[AB]).astype(np.uint32),
                name=f'npout{AB}',
                copy=False,
            )

        gc.collect()

    def _load_halo_lc_subsamples(self, which=['pos', 'vel', 'pid'], unpack_bits=False):
        # Halo LC subsamples are loaded separately because the data model is different
        # and way simpler: just one file, no slab divisions, no B particles, no unpacking, no cleaning.

        fn = Path(self.groupdir) / 'lc_pid_rv.asdf'

        # The stored npstartA/npoutA of a halo file index the lc_pid_rv file of that
        # file's own directory, and only this one particle file is loaded
        if which:
            for hfn in self.halo_fns:
                if Path(hfn).parent != Path(self.groupdir):
                    raise ValueError(
                        f'Cannot load subsamples for halo light cone files from different directories: "{hfn}" is not indexed into "{fn}"'
                    )

        with asdf.open(fn, lazy_load=True, memmap=False) as af:
            for w in which:
                self.subsamples.add_column(af[self.data_key][w][:], name=w, copy=False)

        if 'pid' in which and unpack_bits:
            self.subsamples.update(
                bitpacked.unpack_pids(
                    self.subsamples['pid'],
                    box=self.header['BoxSize'],
                    ppd=self.header['ppd'],
                    **{f: True for f in unpack_bits},
                ),
                copy=False,
            )

    def nbytes(self, halos=True, subsamples=True):
        """Return the memory usage of the big arrays: the halo catalog and the particle subsamples"""
        nbytes = 0
        which = []
        if halos:
            which += [self.halos]
        if subsamples:
            which += [self.subsamples]
        for cat in which:
            for col in cat.columns:
                nbytes += cat[col].nbytes
        return nbytes

    @staticmethod
    def _is_path_halo_lc(path):
        path = Path(path)
        return 'halo_light_cones' in str(path) or any(path.glob('lc_*.asdf'))

    def __repr__(self):
        # TODO: there's probably some more helpful info we could put in here
        # Formally, this is supposed to be unambiguous, but mostly we just want it to look good in a notebook
        lines = [
            'CompaSO Halo Catalog',
            '====================',
            f'{self.header["SimName"]} @ z={self.header["Redshift"]:.5g}',
        ]
        n_halo_field = len(self.halos.columns)
        n_subsamp_field = len(self.subsamples.columns)
        lines += [
            '-' * len(lines[-1]),
            f'     Halos: {len(self.halos):8.3g} halos,     {n_halo_field:3d} {"fields" if n_halo_field != 1 else "field "}, {self.nbytes(halos=True, subsamples=False) / 1e9:7.3g} GB',
            f'Subsamples: {len(self.subsamples):8.3g} particles, {n_subsamp_field:3d} {"fields" if n_subsamp_field != 1 else "field "}, {self.nbytes(halos=False, subsamples=True) / 1e9:7.3g} GB',
            f'Cleaned halos: {self.cleaned}',
            f'Halo light cone: {self.halo_lc}',
        ]
        return '\n'.join(lines)


####################################################################################################
# The following constants and functions relate to unpacking our compressed halo and particle formats
####################################################################################################

# Constants
EULER_ABIN = 45
EULER_TBIN = 11
EULER_NORM = 1.8477590650225735122  # 1/sqrt(1-1/sqrt(2))

INT16SCALE = 32000.0


# unpack the eigenvectors
def _unpack_euler16(bin_this):
    N = bin_this.shape[0]
    minor = np.zeros((N, 3))
    middle = np.zeros((N, 3))
    major = np.zeros((N, 3))

    cap = bin_this // EULER_ABIN
    iaz = bin_this - cap * EULER_ABIN  # This is the minor axis bin_this
    bin_this = cap
    cap = bin_this // (EULER_TBIN * EULER_TBIN)  # This is the cap
    bin_this = bin_this - cap * (EULER_TBIN * EULER_TBIN)

    it = (np.floor(np.sqrt(bin_this))).astype(int)
    # its = np.sum(np.isnan(it))

    ir = bin_this - it * it

    t = (it + 0.5) * (1.0 / EULER_TBIN)  # [0,1]
    r = (ir + 0.5) / (it + 0.5) - 1.0  # [-1,1]

    # We need to undo the transformation of t to get back to yy/zz
    t *= 1 / EULER_NORM
    t = t * np.sqrt(2.0 - t * t) / (1.0 - t * t)  # Now we have yy/zz

    yy = t
    xx = r * t
    # and zz=1
    norm = 1.0 / np.sqrt(1.0 + xx * xx + yy * yy)
    zz = norm
    yy *= norm
    xx *= norm  # These are now a unit vector

    # TODO: legacy code, rewrite
    major[cap == 0, 0] = zz[cap == 0]
    major[cap == 0, 1] = yy[cap == 0]
    major[cap == 0, 2] = xx[cap == 0]
    major[cap == 1, 0] = zz[cap == 1]
    major[cap == 1, 1] = -yy[cap == 1]
    major[cap == 1, 2] = xx[cap == 1]
    major[cap == 2, 0] = zz[cap == 2]
    major[cap == 2, 1] = xx[cap == 2]
    major[cap == 2, 2] = yy[cap == 2]
    major[cap == 3, 0] = zz[cap == 3]
    major[cap == 3, 1] = xx[cap == 3]
    major[cap == 3, 2] = -yy[cap == 3]

    major[cap == 4, 1] = zz[cap == 4]
    major[cap == 4, 2] = yy[cap == 4]
    major[cap == 4, 0] = xx[cap == 4]
    major[cap == 5, 1] = zz[cap == 5]
    major[cap == 5, 2] = -yy[cap == 5]
    major[cap == 5, 0] = xx[cap == 5]
    major[cap == 6, 1] = zz[cap == 6]
    major[cap == 6, 2] = xx[cap == 6]
    major[cap == 6, 0] = yy[cap == 6]
    major[cap == 7, 1] = zz[cap == 7]
    major[cap == 7, 2] = xx[cap == 7]
    major[cap == 7, 0] = -yy[cap == 7]

    major[cap == 8, 2] = zz[cap == 8]
    major[cap == 8, 0] = yy[cap == 8]
    major[cap == 8, 1] = xx[cap == 8]
    major[cap == 9, 2] = zz[cap == 9]
    major[cap == 9, 0] = -yy[cap == 9]
    major[cap == 9, 1] = xx[cap == 9]
    major[cap == 10, 2] = zz[cap == 10]
    major[cap == 10, 0] = xx[cap == 10]
    major[cap == 10, 1] = yy[cap == 10]
    major[cap == 11, 2] = zz[cap == 11]
    major[cap == 11, 0] = xx[cap == 11]
    major[cap == 11, 1] = -yy[cap == 11]

    # Next, we can get the minor axis
    az = (iaz + 0.5) * (1.0 / EULER_ABIN) * np.pi
    xx = np.cos(az)
    yy = np.sin(az)
    # print("az = %f, %f, %f\n", az, xx, yy)
    # We have to derive the 3rd coord, using the fact that the two axes
    # are perpendicular.

    eq2 = (cap // 4) == 2
    minor[eq2, 0] = xx[eq2]
    minor[eq2, 1] = yy[eq2]
    minor[eq2, 2] = (minor[eq2, 0] * major[eq2, 0] + minor[eq2, 1] * major[eq2, 1]) / (
        -major[eq2, 2]
    )
    eq4 = (cap // 4) == 0
    minor[eq4, 1] = xx[eq4]
    minor[eq4, 2] = yy[eq4]
    minor[eq4, 0] = (minor[eq4, 1] * major[eq4, 1] + minor[eq4, 2] * major[eq4, 2]) / (
        -major[eq4, 0]
    )
    eq1 = (cap // 4) == 1
    minor[eq1, 2] = xx[eq1]
    minor[eq1, 0] = yy[eq1]
    minor[eq1, 1] = (minor[eq1, 2] * major[eq1, 2] + minor[eq1, 0] * major[eq1, 0]) / (
        -major[eq1, 1]
    )
    minor *= 1.0 / np.linalg.norm(minor, axis=1).reshape(N, 1)

    middle = np.zeros((minor.shape[0], 3))
    middle[:, 0] = minor[:, 1] * major[:, 2] - minor[:, 2] * major[:, 1]
    middle[:, 1] = minor[:, 2] * major[:, 0] - minor[:, 0] * major[:, 2]
    middle[:, 2] = minor[:, 0] * major[:, 1] - minor[:, 1] * major[:, 0]
    middle *= 1.0 / np.linalg.norm(middle, axis=1).reshape(N, 1)
    return minor, middle, major


"""
struct HaloStat {
    uint64_t id;    ///< A unique halo number.
    uint64_t npstartA;  ///< Where to start counting in the particle output for subsample A
    uint64_t npstartB;  ///< Where to start counting in the particle output for subsample B
    uint32_t npoutA;    ///< Number of taggable particles pos/vel/aux written out in subsample A
    uint32_t npoutB;    ///< Number of taggable particles pos/vel/aux written out in subsample B
    uint32_t ntaggedA;      ///< Number of tagged particle PIDs written out in subsample A. A particle is tagged if it is taggable and is in the largest L2 halo for a given L1 halo.
    uint32_t ntaggedB;
    uint32_t N; ///< The number of particles in this halo
    uint32_t L2_N[N_LARGEST_SUBHALOS];   ///< The number of particles in the largest L2 subhalos
    uint32_t L0_N;    ///< The number of particles in the L0 parent group

    float x_com[3];      ///< Center of mass position
    float v_com[3];      ///< Center of mass velocity
    float sigmav3d_com;  ///< Sum of eigenvalues
    float meanSpeed_com;  ///< Mean speed (the norm of the velocity vector)
    float sigmav3d_r50_com;  ///< Velocity dispersion of the inner 50% of particles
    float meanSpeed_r50_com;  ///< Mean speed of the inner 50% of particles
    float r100_com; ///<Radius of 100% of mass
    float vcirc_max_com; ///< max circular velocity, based on the particles in this L1 halo
    float SO_central_particle[3]; ///< Coordinates of the SO central particle
    float SO_central_density;  ///< Density of the SO central particle.
    float SO_radius;           ///< Radius of SO halo (distance to particle furthest from central particle)

    float x_L2com[3];   ///< Center of mass pos of the largest L2 subhalo
    float v_L2com[3];   ///< Center of mass vel of the largest L2 subhalo
    float sigmav3d_L2com;  ///< Sum of eigenvalues
    float meanSpeed_L2com;  ///< Mean speed
    float sigmav3d_r50_L2com;  ///< Velocity dispersion of the inner 50% of particles
    float meanSpeed_r50_L2com;  ///< Mean speed of the inner 50% of particles
    float r100_L2com; /// Radius of 100% of mass, relative to L2 center.
    float vcirc_max_L2com;   ///< max circular velocity, based on the particles in this L1 halo
    float SO_L2max_central_particle[3]; ///< Coordinates of the SO central particle for the largest L2 subhalo.
    float SO_L2max_central_density;  ///< Density of the SO central particle of the largest L2 subhalo.
    float SO_L2max_radius;           ///< Radius of SO halo (distance to particle furthest from central particle) for the largest L2 subhalo

    int16_t sigmavMin_to_sigmav3d_com; ///< Min(sigmav_eigenvalue) / sigmav3d, compressed
    int16_t sigmavMax_to_sigmav3d_com; ///< Max(sigmav_eigenvalue) / sigmav3d, compressed
    uint16_t sigmav_eigenvecs_com;  ///<Eigenvectors of the velocity dispersion tensor, compressed into 16 bits.
    int16_t sigmavrad_to_sigmav3d_com; ///< sigmav_rad / sigmav3d, compressed
    int16_t sigmavtan_to_sigmav3d_com; ///< sigmav_tan / sigmav3d, compressed

    int16_t r10_com, r25_com, r33_com, r50_com, r67_com, r75_com, r90_com, r95_com, r98_com; ///<Expressed as ratios of r100, and scaled to 32000 to store as int16s.
    int16_t sigmar_com[3]; ///<sqrt( Eigenvalues of the moment of inertia tensor ), sorted largest to smallest
    int16_t sigman_com[3]; ///<sqrt( Eigenvalues of the weighted moment of inertia tensor ), sorted largest to smallest
    uint16_t sigmar_eigenvecs_com;  ///<Eigenvectors of the moment of inertia tensor, compressed into 16 bits. Compression format Euler16.
    uint16_t sigman_eigenvecs_com;  ///<Eigenvectors of the weighted moment of inertia tensor, compressed into 16 bits. Compression format Euler16.
    int16_t rvcirc_max_com; ///< radius of max velocity, stored as int16 ratio of r100 scaled by 32000.

    // The largest (most massive) subhalo center of mass
    int16_t sigmavMin_to_sigmav3d_L2com; ///< Min(sigmav_eigenvalue) / sigmav3d, compressed
    int16_t sigmavMax_to_sigmav3d_L2com; ///< Max(sigmav_eigenvalue) / sigmav3d, compressed
    uint16_t sigmav_eigenvecs_L2com;  ///<Eigenvectors of the velocity dispersion tensor, compressed into 16 bits.
    int16_t sigmavrad_to_sigmav3d_L2com; ///< sigmav_rad / sigmav3d, compressed
    int16_t sigmavtan_to_sigmav3d_L2com; ///< sigmav_tan / sigmav3d, compressed
    int16_t r10_L2com, r25_L2com, r33_L2com, r50_L2com, r67_L2com, r75_L2com, r90_L2com, r95_L2com, r98_L2com;
        ///< Radii of this percentage of mass, relative to L2 center. Expressed as ratios of r100 and compressed to int16.

    int16_t sigmar_L2com[3];
    int16_t sigman_L2com[3];
    uint16_t sigmar_eigenvecs_L2com;   ///< euler16 format
    uint16_t sigman_eigenvecs_L2com;   ///< euler16 format
    int16_t rvcirc_max_L2com;   ///< radius of max circular velocity, stored as ratio to r100, relative to L2 center

};
"""

# Note we never actually create a Numpy array with this dtype
# But it is a useful format for parsing the needed dtypes for the Astropy table columns

clean_dt = np.dtype(
    [
        ('npstartA_merge', np.int64),
        ('npstartB_merge', np.int64),
        ('npoutA_merge', np.uint32),
        ('npoutB_merge', np.uint32),
        ('N_total', np.uint32),
        ('N_merge', np.uint32),
        ('haloindex', np.uint64),
        ('is_merged_to', np.int64),
        ('haloindex_mainprog', np.int64),
        ('v_L2com_mainprog', np.float32, 3),
    ],
    align=True,
)

clean_dt_progen = np.dtype(
    [
        ('npstartA_merge', np.int64),
        ('npstartB_merge', np.int64),
        ('npoutA_merge', np.uint32),
        ('npoutB_merge', np.uint32),
        ('N_total', np.uint32),
        ('N_merge', np.uint32),
        ('haloindex', np.uint64),
        ('is_merged_to', np.int64),
        ('N_mainprog', np.uint32),
        ('vcirc_max_L2com_mainprog', np.float32),
        ('sigmav3d_L2com_mainprog', np.float32),
        ('haloindex_mainprog', np.int64),
        ('v_L2com_mainprog', np.float32, 3),
    ],
    align=True,
)

halo_lc_dt = np.dtype(
    [
        ('N', np.uint32),
        ('N_interp', np.uint32),
        ('npstartA', np.uint64),
        ('npoutA', np.uint32),
        ('index_halo', np.int64),
        ('origin', np.int8),
        ('pos_avg', np.float32, 3),
        ('pos_interp', np.float32, 3),
        ('vel_avg', np.float32, 3),
        ('vel_interp', np.float32, 3),
        ('redshift_interp', np.float32),
    ],
    align=True,
)

user_dt = np.dtype(
    [
        ('id', np.uint64),
        ('npstartA', np.uint64),
        ('npstartB', np.uint64),
        ('npoutA', np.uint32),
        ('npoutB', np.uint32),
        ('ntaggedA', np.uint32),
        ('ntaggedB', np.uint32),
        ('N', np.uint32),
        ('L2_N', np.uint32, 5),
        ('L0_N', np.uint32),
        ('x_com', np.float32, 3),
        ('v_com', np.float32, 3),
        ('sigmav3d_com', np.float32),
        ('meanSpeed_com', np.float32),
        ('sigmav3d_r50_com', np.float32),
        ('meanSpeed_r50_com', np.float32),
        ('r100_com', np.float32),
        ('vcirc_max_com', np.float32),
        ('SO_central_particle', np.float32, 3),
        ('SO_central_density', np.float32),
        ('SO_radius', np.float32),
        ('x_L2com', np.float32, 3),
        ('v_L2com', np.float32, 3),
        ('sigmav3d_L2com', np.float32),
        ('meanSpeed_L2com', np.float32),
        ('sigmav3d_r50_L2com', np.float32),
        ('meanSpeed_r50_L2com', np.float32),
        ('r100_L2com', np.float32),
        ('vcirc_max_L2com', np.float32),
        ('SO_L2max_central_particle', np.float32, 3),
        ('SO_L2max_central_density', np.float32),
        ('SO_L2max_radius', np.float32),
        ('sigmavMin_com', np.float32),
        ('sigmavMid_com', np.float32),
        ('sigmavMaj_com', np.float32),
        ('r10_com', np.float32),
        ('r25_com', np.float32),
        ('r33_com', np.float32),
        ('r50_com', np.float32),
        ('r67_com', np.float32),
        ('r75_com', np.float32),
        ('r90_com', np.float32),
        ('r95_com', np.float32),
        ('r98_com', np.float32),
        ('sigmar_com', np.float32, 3),
        ('sigman_com', np.float32, 3),
        ('sigmar_eigenvecsMin_com', np.float32, 3),
        ('sigmar_eigenvecsMid_com', np.float32, 3),
        ('sigmar_eigenvecsMaj_com', np.float32, 3),
        ('sigmav_eigenvecsMin_com', np.float32, 3),
        ('sigmav_eigenvecsMid_com', np.float32, 3),
        ('sigmav_eigenvecsMaj_com', np.float32, 3),
        ('sigman_eigenvecsMin_com', np.float32, 3),
        ('sigman_eigenvecsMid_com', np.float32, 3),
        ('sigman_eigenvecsMaj_com', np.float32, 3),
        ('sigmavrad_com', np.float32),
        ('sigmavtan_com', np.float32),
        ('rvcirc_max_com', np.float32),
        ('sigmavMin_L2com', np.float32),
        ('sigmavMid_L2com', np.float32),
        ('sigmavMaj_L2com', np.float32),
        ('r10_L2com', np.float32),
        ('r25_L2com', np.float32),
        ('r33_L2com', np.float32),
        ('r50_L2com', np.float32),
        ('r67_L2com', np.float32),
        ('r75_L2com', np.float32),
        ('r90_L2com', np.float32),
        ('r95_L2com', np.float32),
        ('r98_L2com', np.float32),
        ('sigmar_L2com', np.float32, 3),
        ('sigman_L2com', np.float32, 3),
        ('sigmar_eigenvecsMin_L2com', np.float32, 3),
        ('sigmar_eigenvecsMid_L2com', np.float32, 3),
        ('sigmar_eigenvecsMaj_L2com', np.float32, 3),
        ('sigmav_eigenvecsMin_L2com', np.float32, 3),
        ('sigmav_eigenvecsMid_L2com', np.float32, 3),
        ('sigmav_eigenvecsMaj_L2com', np.float32, 3),
        ('sigman_eigenvecsMin_L2com', np.float32, 3),
        ('sigman_eigenvecsMid_L2com', np.float32, 3),
        ('sigman_eigenvecsMaj_L2com', np.float32, 3),
        ('sigmavrad_L2com', np.float32),
        ('sigmavtan_L2com', np.float32),
        ('rvcirc_max_L2com', np.float32),
    ],
    align=True,
)
