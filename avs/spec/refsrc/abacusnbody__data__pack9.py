"""
Unpack pack9 particle data, which encodes the pos + vel in 9 bytes, and then the
PID + aux in another 8 bytes in a separate file.  The 9-byte part is handled by this
module; the 8-byte (PID) part is handled by ``bitpacked.unpack_pids()``.

Most users will not use this module directly, but will instead use the
:func:`abacusnbody.data.read_abacus.read_asdf` function.
"""

import numba as nb
import numpy as np

__all__ = ['unpack_pack9']


def unpack_pack9(
    data, boxsize, velzspace_to_kms, float_dtype=np.float32, posout=None, velout=None
):
    data = np.asanyarray(data, dtype=np.ubyte)
    Nmax = len(data)  # some pack9s will be cell headers

    if posout is None:
        _posout = np.empty((Nmax, 3), dtype=float_dtype)
    elif posout is False:
        _posout = None
    else:
        _posout = posout

    if velout is None:
        _velout = np.empty((Nmax, 3), dtype=float_dtype)
    elif velout is False:
        _velout = None
    else:
        _velout = velout

    npart = _unpack_pack9(
        data, boxsize, velzspace_to_kms, _posout, _velout, float_dtype
    )

    ret = []
    if posout is None:
        ret += [_posout[:npart]]
    elif posout is False:
        ret += [0]
    else:
        ret += [npart]

    if velout is None:
        ret += [_velout[:npart]]
    elif velout is False:
        ret += [0]
    else:
        ret += [npart]

    return tuple(ret)


@nb.njit
def _unpack_pack9(data, boxsize, velzspace_to_kms, posout, velout, dtype):
    w = np.int64(0)  # written
    N = len(data)
    boxsize = dtype(boxsize)
    velzspace_to_kms = dtype(velzspace_to_kms)
    halfbox = boxsize / 2

    # header state
    csize = dtype(np.nan)  # in user units
    vscale = dtype(np.nan)
    cellx = dtype(np.nan)
    celly = dtype(np.nan)
    cellz = dtype(np.nan)
    pscale = dtype(np.nan)

    # each coord is packed in 12 bits, which we will expand to 16 and store in shorts
    sh = np.empty(6, dtype=np.int16)

    dop = posout is not None
    dov = velout is not None

    for i in range(N):
        p9 = data[i]
        _expand_to_short(p9, sh)
        if p9[0] == np.ubyte(0xFF):
            # new header!
            invcpd = dtype(1.0 / (sh[1] + 2000))
            csize = boxsize * invcpd
            vscale = dtype((sh[2] + 2000) * 0.0005) * invcpd * velzspace_to_kms
            cellx = dtype((sh[3] + 2000.5) * csize - halfbox)
            celly = dtype((sh[4] + 2000.5) * csize - halfbox)
            cellz = dtype((sh[5] + 2000.5) * csize - halfbox)
            pscale = dtype(0.0005 * csize)
            # print(f'invcpd ({invcpd}) vscale ({vscale}) cellx ({cellx}) celly ({celly}) cellz ({cellz}), velz ({velzspace_to_kms})')
        else:
            # print(sh)
            # particle
            # assert not np.isnan(csize)  # valid header
            if dop:
                posout[w, 0] = sh[0] * pscale + cellx
                posout[w, 1] = sh[1] * pscale + celly
                posout[w, 2] = sh[2] * pscale + cellz
            if dov:
                velout[w, 0] = sh[3] * vscale
                velout[w, 1] = sh[4] * vscale
                velout[w, 2] = sh[5] * vscale
            w += 1

    return w


@nb.njit
def _expand_to_short(c, s):
    # inflate 9 chars to 6 shorts
    # it seems like numba promotes all bitwise operations to 64-bit
    # which is not ideal for performance, but should be safe
    s[0] = (c[1] & 0x0F) | (c[0] << 4)
    s[1] = ((c[1] & 0xF0) << 4) | c[2]
    s[2] = (c[4] & 0x0F) | (c[3] << 4)
    s[3] = ((c[4] & 0xF0) << 4) | c[5]
    s[4] = (c[7] & 0x0F) | (c[6] << 4)
    s[5] = ((c[7] & 0xF0) << 4) | c[8]

    for i in range(6):
        s[i] -= 2048
