""" """


# The AbacusHOD module generates HOD tracers from Abacus simulations.
# A high-level overview of this module can be found in
# https://abacusutils.readthedocs.io/en/latest/hod.html
# or docs/hod.rst.

import gc
import time
from pathlib import Path
import logging

import asdf
import h5py
import numba
import numpy as np
from astropy.io import ascii
from numba import njit
from parallel_numpy_rng import MTGenerator

from ..analysis.power_spectrum import calc_power
from ..analysis.tpcf_corrfunc import (
    calc_multipole_fast,
    calc_wp_fast,
    calc_xirppi_fast,
)
from .GRAND_HOD import (
    gen_gal_cat,
    n_cen_LRG,
    n_sat_LRG_modified,
    N_cen_ELG_v1,
    N_sat_elg,
    N_cen_QSO,
    N_sat_generic,
)

# TODO B.H.: staging can be shorter and prettier; perhaps asdf for h5 and ecsv?


class AbacusHOD:
    """
    A highly efficient multi-tracer HOD code for the AbacusSummmit simulations.
    """

    def __init__(
        self,
        sim_params,
        HOD_params,
        clustering_params=None,
        chunk=-1,
        n_chunks=1,
        skip_staging=False,
    ):
        """
        Loads simulation. The ``sim_params`` dictionary specifies which simulation
        volume to load. The ``HOD_params`` specifies the HOD parameters and tracer
        configurations. The ``clustering_params`` specifies the summary statistics
        configurations. The ``HOD_params`` and ``clustering_params`` can be set to their
        default values in the ``config/abacus_hod.yaml`` file and changed later.
        The ``sim_params`` cannot be changed once the ``AbacusHOD`` object is created.

        Parameters
        ----------
        sim_params: dict
            Dictionary of simulation parameters. Load from ``config/abacus_hod.yaml``. The dictionary should contain the following keys:
                * ``sim_name``: str, name of the simulation volume, e.g. 'AbacusSummit_base_c000_ph006'.
                * ``sim_dir``: str, the directory that the simulation lives in, e.g. '/path/to/AbacusSummit/'.
                * ``output_dir``: str, the diretory to save galaxy to, e.g. '/my/output/galalxies'.
                * ``subsample_dir``: str, where to save halo+particle subsample, e.g. '/my/output/subsamples/'.
                * ``z_mock``: float, which redshift slice, e.g. 0.5.

        HOD_params: dict
            HOD parameters and tracer configurations. Load from ``config/abacus_hod.yaml``. It contains the following keys:
                * ``tracer_flags``: dict, which tracers is enabled:
                    * ``LRG``: bool, default ``True``.
                    * ``ELG``: bool, default ``False``.
                    * ``QSO``: bool, default ``False``.
                * ``want_ranks``: bool, enable satellite profile flexibilities. If ``False``, satellite profile follows the DM, default ``True``.
                * ``want_rsd``: bool, enable RSD? default ``True``.                 # want RSD?
                * ``Ndim``: int, grid density for computing local environment, default 1024.
                * ``density_sigma``: float, scale radius in Mpc / h for local density definition, default 3.
                * ``write_to_disk``: bool, output to disk? default ``False``. Setting to ``True`` decreases performance.
                * ``LRG_params``: dict, HOD parameter values for LRGs. Default values are given in config file.
                * ``ELG_params``: dict, HOD parameter values for ELGs. Default values are given in config file.
                * ``QSO_params``: dict, HOD parameter values for QSOs. Default values are given in config file.

        clustering_params: dict, optional
            Summary statistics configuration parameters. Load from ``config/abacus_hod.yaml``. It contains the following keys:
                * ``clustering_type``: str, which summary statistic to compute. Options: ``wp``, ``xirppi``, default: ``xirppi``.
                * ``bin_params``: dict, transverse scale binning.
                    * ``logmin``: float, :math:`\\log_{10}r_{\\mathrm{min}}` in Mpc/h.
                    * ``logmax``: float, :math:`\\log_{10}r_{\\mathrm{max}}` in Mpc/h.
                    * ``nbins``: int, number of bins.
                * ``pimax``: int, :math:`\\pi_{\\mathrm{max}}`.
                * ``pi_bin_size``: int, size of bins along of the line of sight. Need to be divisor of ``pimax``.
        chunk: int, optional
            Index of current chunk. Must be between ``0`` and ``n_chunks-1``. Files associated with this chunk are written out as ``{tracer}s_{chunk}.dat``. Default is -1 (no chunking).
        n_chunks: int, optional
            Number of chunks to split the input from the halo+particle subsample and number of output files in which to write out the galaxy catalogs following the format ``{tracer}s_{chunk}.dat``.
        """
        self.logger = logging.getLogger('AbacusHOD')
        # simulation details
        self.sim_name = sim_params['sim_name']
        self.sim_dir = sim_params['sim_dir']
        self.subsample_dir = sim_params['subsample_dir']
        self.z_mock = sim_params['z_mock']
        self.output_dir = sim_params.get('output_dir', './')
        self.halo_lc = sim_params.get('halo_lc', False)
        self.force_mt = sim_params.get('force_mt', False)  # use MT subsamples for LRG?

        ztype = None
        if self.halo_lc:
            ztype = 'lightcone'
        elif self.z_mock in [
            3.0,
            2.5,
            2.0,
            1.7,
            1.4,
            1.1,
            0.8,
            0.5,
            0.4,
            0.3,
            0.2,
            0.1,
            0.0,
        ]:
            ztype = 'primary'
        elif self.z_mock in [
            0.15,
            0.25,
            0.35,
            0.45,
            0.575,
            0.65,
            0.725,
            0.875,
            0.95,
            1.025,
            1.175,
            1.25,
            1.325,
            1.475,
            1.55,
            1.625,
            1.85,
            2.25,
            2.75,
            3.0,
            5.0,
            8.0,
        ]:
            ztype = 'secondary'
        else:
            raise Exception('illegal redshift')
        self.z_type = ztype

        # tracers
        tracer_flags = HOD_params['tracer_flags']
        tracers = {}
        for key in tracer_flags.keys():
            if tracer_flags[key]:
                tracers[key] = HOD_params[key + '_params']
        self.tracers = tracers

        # HOD parameter choices
        self.want_ranks = HOD_params.get('want_ranks', False)
        self.want_AB = HOD_params.get('want_AB', False)
        self.want_shear = HOD_params.get('want_shear', False)
        self.want_expvel = HOD_params.get('want_expvel', False)
        self.want_rsd = HOD_params['want_rsd']

        if clustering_params is not None:
            # clusteringparameters
            self.pimax = clustering_params.get('pimax', None)
            self.pi_bin_size = clustering_params.get('pi_bin_size', None)
            bin_params = clustering_params['bin_params']
            self.rpbins = np.logspace(
                bin_params['logmin'], bin_params['logmax'], bin_params['nbins'] + 1
            )
            self.clustering_type = clustering_params.get('clustering_type', None)

        # setting up chunking
        self.chunk = chunk
        self.n_chunks = n_chunks
        assert self.chunk < self.n_chunks, (
            'Total number of chunks needs to be larger than current chunk index'
        )

        if not skip_staging:
            # load the subsample particles
            self.halo_data, self.particle_data, self.params, self.mock_dir = (
                self.staging()
            )

            # determine the halo mass function
            self.logMbins = np.linspace(
                np.log10(np.min(self.halo_data['hmass'])),
                np.log10(np.max(self.halo_data['hmass'])),
                101,
            )
            self.deltacbins = np.linspace(-0.5, 0.5, 101)
            self.fenvbins = np.linspace(-0.5, 0.5, 101)
            self.shearbins = np.linspace(-0.5, 0.5, 101)

            self.halo_mass_func, edges = np.histogramdd(
                np.vstack(
                    (
                        np.log10(self.halo_data['hmass']),
                        self.halo_data.get(
                            'hdeltac', np.zeros(len(self.halo_data['hmass']))
                        ),
                        self.halo_data.get(
                            'hfenv', np.zeros(len(self.halo_data['hmass']))
                        ),
                    )
                ).T,
                bins=[self.logMbins, self.deltacbins, self.fenvbins],
                weights=self.halo_data['hmultis'],
            )
        else:
            from abacusnbody.metadata import get_meta

            meta = get_meta(self.sim_name, redshift=0.1)
            self.lbox = meta['BoxSize']

        if self.want_AB:
            assert 'hfenv' in self.halo_data.keys()
            assert 'hdeltac' in self.halo_data.keys()
        if self.want_shear:
            assert 'hshear' in self.halo_data.keys()

        self.halo_mass_func_wshear, edges = np.histogramdd(
            np.vstack(
                (
                    np.log10(self.halo_data['hmass']),
                    self.halo_data.get(
                        'hdeltac', np.zeros(len(self.halo_data['hmass']))
                    ),
                    self.halo_data.get('hfenv', np.zeros(len(self.halo_data['hmass']))),
                    self.halo_data.get(
                        'hshear', np.zeros(len(self.halo_data['hmass']))
                    ),
                )
            ).T,
            bins=[self.logMbins, self.deltacbins, self.fenvbins, self.shearbins],
            weights=self.halo_data['hmultis'],
        )

    def staging(self):
        """
        Constructor call this function to load the halo+particle subsamples onto memory.
        """
        # all paths relevant for mock generation
        output_dir = Path(self.output_dir)
        simname = Path(self.sim_name)
        sim_dir = Path(self.sim_dir)
        mock_dir = output_dir / simname / ('z%4.3f' % self.z_mock)
        # create mock_dir if not created
        mock_dir.mkdir(parents=True, exist_ok=True)
        subsample_dir = Path(self.subsample_dir) / simname / ('z%4.3f' % self.z_mock)

        # load header to read parameters
        if self.halo_lc:
            halo_info_fns = [
                str(sim_dir / simname / ('z%4.3f' % self.z_mock) / 'lc_halo_info.asdf')
            ]
        else:
            halo_info_fns = list(
                (
                    sim_dir / simname / 'halos' / ('z%4.3f' % self.z_mock) / 'halo_info'
                ).glob('*.asdf')
            )
        f = asdf.open(halo_info_fns[0], lazy_load=True)
        header = f['header']

        # constants
        params = {}
        params['z'] = self.z_mock
        params['h'] = header['H0'] / 100.0
        params['Lbox'] = header['BoxSize']  # Mpc / h, box size
        params['Mpart'] = header['ParticleMassHMsun']  # Msun / h, mass of each particle
        params['velz2kms'] = header['VelZSpace_to_kms'] / params['Lbox']
        if self.halo_lc:
            params['origin'] = np.array(header['LightConeOrigins']).reshape(-1, 3)[0]
        else:
            params['origin'] = None  # observer at infinity in the -z direction

        # settitng up chunking
        n_chunks = self.n_chunks
        params['chunk'] = self.chunk
        if self.chunk == -1:
            chunk = 0
        else:
            chunk = self.chunk
        n_jump = int(np.ceil(len(halo_info_fns) / n_chunks))
        start = (chunk) * n_jump
        end = (chunk + 1) * n_jump
        if end > len(halo_info_fns):
            end = len(halo_info_fns)
        params['numslabs'] = end - start
        self.lbox = header['BoxSize']

        # count ther number of halos and particles
        Nhalos = np.zeros(params['numslabs'])
        Nparts = np.zeros(params['numslabs'])
        for eslab in range(start, end):
            if (
                ('ELG' not in self.tracers.keys())
                and ('QSO' not in self.tracers.keys())
                and (not self.force_mt)
            ):
                halofilename = subsample_dir / (
                    'halos_xcom_%d_seed600_abacushod_oldfenv' % eslab
                )
                particlefilename = subsample_dir / (
                    'particles_xcom_%d_seed600_abacushod_oldfenv' % eslab
                )
            else:
                halofilename = subsample_dir / (
                    'halos_xcom_%d_seed600_abacushod_oldfenv_MT' % eslab
                )
                particlefilename = subsample_dir / (
                    'particles_xcom_%d_seed600_abacushod_oldfenv_MT' % eslab
                )

            if self.want_ranks:
                particlefilename = str(particlefilename) + '_withranks'
            halofilename = str(halofilename) + '_new.h5'
            particlefilename = str(particlefilename) + '_new.h5'

            newfile = h5py.File(halofilename, 'r')
            Nhalos[eslab - start] = len(newfile['halos'])
            if self.z_type == 'primary' or self.z_type == 'lightcone':
                newpart = h5py.File(particlefilename, 'r')
                Nparts[eslab - start] = len(newpart['particles'])

        Nhalos = Nhalos.astype(int)
        Nparts = Nparts.astype(int)
        Nhalos_tot = int(np.sum(Nhalos))
        Nparts_tot = int(np.sum(Nparts))

        # list holding individual slabs
        hpos = np.empty((Nhalos_tot, 3))
        hvel = np.empty((Nhalos_tot, 3))
        hmass = np.empty([Nhalos_tot])
        hid = np.empty([Nhalos_tot], dtype=int)
        hmultis = np.empty([Nhalos_tot])
        hrandoms = np.empty([Nhalos_tot])
        hveldev = np.empty((Nhalos_tot, 3))
        hsigma3d = np.empty([Nhalos_tot])
        hc = np.empty([Nhalos_tot])
        hrvir = np.empty([Nhalos_tot])
        if self.want_AB:
            hdeltac = np.empty([Nhalos_tot])
            hfenv = np.empty([Nhalos_tot])
        if self.want_shear:
            hshear = np.empty([Nhalos_tot])

        ppos = np.empty((Nparts_tot, 3))
        pvel = np.empty((Nparts_tot, 3))
        phvel = np.empty((Nparts_tot, 3))
        phmass = np.empty([Nparts_tot])
        phid = np.empty([Nparts_tot], dtype=int)
        pNp = np.empty([Nparts_tot])
        psubsampling = np.empty([Nparts_tot])
        prandoms = np.empty([Nparts_tot])
        if self.want_AB:
            pdeltac = np.empty([Nparts_tot])
            pfenv = np.empty([Nparts_tot])
        if self.want_shear:
            pshear = np.empty([Nparts_tot])

        # ranks
        if self.want_ranks:
            p_ranks = np.empty([Nparts_tot])
            p_ranksv = np.empty([Nparts_tot])
            p_ranksp = np.empty([Nparts_tot])
            p_ranksr = np.empty([Nparts_tot])
            p_ranksc = np.empty([Nparts_tot])

        # B.H. make into ASDF
        # load all the halo and particle data we need
        halo_ticker = 0
        parts_ticker = 0
        for eslab in range(start, end):
            self.logger.info(f'Loading simulation slab {eslab}')
            if (
                ('ELG' not in self.tracers.keys())
                and ('QSO' not in self.tracers.keys())
                and (not self.force_mt)
            ):
                halofilename = subsample_dir / (
                    'halos_xcom_%d_seed600_abacushod_oldfenv' % eslab
                )
                particlefilename = subsample_dir / (
                    'particles_xcom_%d_seed600_abacushod_oldfenv' % eslab
                )
            else:
                halofilename = subsample_dir / (
                    'halos_xcom_%d_seed600_abacushod_oldfenv_MT' % eslab
                )
                particlefilename = subsample_dir / (
                    'particles_xcom_%d_seed600_abacushod_oldfenv_MT' % eslab
                )

            if self.want_ranks:
                particlefilename = str(particlefilename) + '_withranks'
            halofilename = str(halofilename) + '_new.h5'
            particlefilename = str(particlefilename) + '_new.h5'

            newfile = h5py.File(halofilename, 'r')
            maskedhalos = newfile['halos']

            # extracting the halo properties that we need
            halo_ids = maskedhalos['id'].astype(int)  # halo IDs
            halo_pos = maskedhalos['x_L2com']  # halo positions, Mpc / h
            halo_vels = maskedhalos['v_L2com']  # halo velocities, km/s
            if self.want_expvel:
                halo_vel_dev = maskedhalos[
                    'randoms_exp'
                ]  # halo velocity dispersions, km/s
            else:
                halo_vel_dev = maskedhalos[
                    'randoms_gaus_vrms'
                ]  # halo velocity dispersions, km/s

            if len(halo_vel_dev.shape) == 1:
                self.logger.warning(
                    'Warning: galaxy x, y velocity bias randoms not set, using z randoms instead. x, y velocities may be unreliable.'
                )
                halo_vel_dev = np.repeat(halo_vel_dev, 3).reshape(-1, 3)
            halo_sigma3d = maskedhalos['sigmav3d_L2com']  # 3d velocity dispersion
            halo_c = (
                maskedhalos['r98_L2com'] / maskedhalos['r25_L2com']
            )  # concentration
            halo_rvir = maskedhalos['r98_L2com']  # rvir but using r98
            halo_mass = maskedhalos['N'] * params['Mpart']  # halo mass, Msun / h, 200b

            halo_deltac = maskedhalos['deltac_rank']  # halo concentration
            halo_fenv = maskedhalos['fenv_rank']  # halo velocities, km/s
            # halo_pstart = maskedhalos['npstartA'].astype(int) # starting index of particles
            # halo_pnum = maskedhalos['npoutA'].astype(int) # number of particles
            halo_multi = maskedhalos['multi_halos']
            # halo_submask = maskedhalos['mask_subsample'].astype(bool)
            halo_randoms = maskedhalos['randoms']

            hpos[halo_ticker : halo_ticker + Nhalos[eslab - start]] = halo_pos
            hvel[halo_ticker : halo_ticker + Nhalos[eslab - start]] = halo_vels
            hmass[halo_ticker : halo_ticker + Nhalos[eslab - start]] = halo_mass
            hid[halo_ticker : halo_ticker + Nhalos[eslab - start]] = halo_ids
            hmultis[halo_ticker : halo_ticker + Nhalos[eslab - start]] = halo_multi
            hrandoms[halo_ticker : halo_ticker + Nhalos[eslab - start]] = halo_randoms
            hveldev[halo_ticker : halo_ticker + Nhalos[eslab - start]] = halo_vel_dev
            hsigma3d[halo_ticker : halo_ticker + Nhalos[eslab - start]] = halo_sigma3d
            hc[halo_ticker : halo_ticker + Nhalos[eslab - start]] = halo_c
            hrvir[halo_ticker : halo_ticker + Nhalos[eslab - start]] = halo_rvir
            if self.want_AB:
                halo_deltac = maskedhalos['deltac_rank']  # halo concentration
                halo_fenv = maskedhalos['fenv_rank']  # halo velocities, km/s
                hdeltac[halo_ticker : halo_ticker + Nhalos[eslab - start]] = halo_deltac
                hfenv[halo_ticker : halo_ticker + Nhalos[eslab - start]] = halo_fenv
            if self.want_shear:
                halo_shear = maskedhalos['shear_rank']  # halo velocities, km/s
                hshear[halo_ticker : halo_ticker + Nhalos[eslab - start]] = halo_shear
            halo_ticker += Nhalos[eslab - start]

            if self.z_type == 'primary' or self.z_type == 'lightcone':
                # extract particle data that we need
                newpart = h5py.File(particlefilename, 'r')
                subsample = newpart['particles']
                part_fields = subsample.dtype.fields.keys()
                part_pos = subsample['pos']
                part_vel = subsample['vel']
                part_hvel = subsample['halo_vel']
                part_halomass = subsample['halo_mass']  # msun / h
                part_haloid = subsample['halo_id'].astype(int)
                part_Np = subsample['Np']  # number of particles that end up in the halo
                part_subsample = subsample['downsample_halo']
                part_randoms = subsample['randoms']
                if self.want_AB:
                    part_deltac = subsample['halo_deltac']
                    part_fenv = subsample['halo_fenv']
                if self.want_shear:
                    part_shear = subsample['halo_shear']

                if self.want_ranks:
                    assert 'ranks' in part_fields
                    assert 'ranksv' in part_fields
                    part_ranks = subsample['ranks']
                    part_ranksv = subsample['ranksv']

                    if 'ranksp' in part_fields:
                        part_ranksp = subsample['ranksp']
                    else:
                        part_ranksp = np.zeros(len(subsample))

                    if 'ranksr' in part_fields:
                        part_ranksr = subsample['ranksr']
                    else:
                        part_ranksr = np.zeros(len(subsample))

                    if 'ranksc' in part_fields:
                        part_ranksc = subsample['ranksc']
                    else:
                        part_ranksc = np.zeros(len(subsample))

                    p_ranks[parts_ticker : parts_ticker + Nparts[eslab - start]] = (
                        part_ranks
                    )
                    p_ranksv[parts_ticker : parts_ticker + Nparts[eslab - start]] = (
                        part_ranksv
                    )
                    p_ranksp[parts_ticker : parts_ticker + Nparts[eslab - start]] = (
                        part_ranksp
                    )
                    p_ranksr[parts_ticker : parts_ticker + Nparts[eslab - start]] = (
                        part_ranksr
                    )
                    p_ranksc[parts_ticker : parts_ticker + Nparts[eslab - start]] = (
                        part_ranksc
                    )

                # #     part_data_slab += [part_ranks, part_ranksv, part_ranksp, part_ranksr]
                # particle_data = vstack([particle_data, new_part_table])
                ppos[parts_ticker : parts_ticker + Nparts[eslab - start]] = part_pos
                pvel[parts_ticker : parts_ticker + Nparts[eslab - start]] = part_vel
                phvel[parts_ticker : parts_ticker + Nparts[eslab - start]] = part_hvel
                phmass[parts_ticker : parts_ticker + Nparts[eslab - start]] = (
                    part_halomass
                )
                phid[parts_ticker : parts_ticker + Nparts[eslab - start]] = part_haloid
                pNp[parts_ticker : parts_ticker + Nparts[eslab - start]] = part_Np
                psubsampling[parts_ticker : parts_ticker + Nparts[eslab - start]] = (
                    part_subsample
                )
                prandoms[parts_ticker : parts_ticker + Nparts[eslab - start]] = (
                    part_randoms
                )
                if self.want_AB:
                    pdeltac[parts_ticker : parts_ticker + Nparts[eslab - start]] = (
                        part_deltac
                    )
                    pfenv[parts_ticker : parts_ticker + Nparts[eslab - start]] = (
                        part_fenv
                    )
                if self.want_shear:
                    pshear[parts_ticker : parts_ticker + Nparts[eslab - start]] = (
                        part_shear
                    )
                parts_ticker += Nparts[eslab - start]

        # sort halos by hid, important for conformity
        if not np.all(hid[:-1] <= hid[1:]):
            self.logger.info('Sorting halos for conformity calculation.')
            sortind = np.argsort(hid)
            hpos = hpos[sortind]
            hvel = hvel[sortind]
            hmass = hmass[sortind]
            hid = hid[sortind]
            hmultis = hmultis[sortind]
            hrandoms = hrandoms[sortind]
            hveldev = hveldev[sortind]
            hsigma3d = hsigma3d[sortind]
            hc = hc[sortind]
            hrvir = hrvir[sortind]
            if self.want_AB:
                hdeltac = hdeltac[sortind]
                hfenv = hfenv[sortind]
            if self.want_shear:
                hshear = hshear[sortind]
        assert np.all(hid[:-1] <= hid[1:])

        halo_data = {
            'hpos': hpos,
            'hvel': hvel,
            'hmass': hmass,
            'hid': hid,
            'hmultis': hmultis,
            'hrandoms': hrandoms,
            'hveldev': hveldev,
            'hsigma3d': hsigma3d,
            'hc': hc,
            'hrvir': hrvir,
        }

        pweights = 1 / pNp / psubsampling
        pinds = _searchsorted_parallel(hid, phid)
        particle_data = {
            'ppos': ppos,
            'pvel': pvel,
            'phvel': phvel,
            'phmass': phmass,
            'phid': phid,
            'pweights': pweights,
            'prandoms': prandoms,
            'pinds': pinds,
        }
        if self.want_AB:
            halo_data['hdeltac'] = hdeltac
            halo_data['hfenv'] = hfenv
            particle_data['pdeltac'] = pdeltac
            particle_data['pfenv'] = pfenv
        if self.want_shear:
            halo_data['hshear'] = hshear
            particle_data['pshear'] = pshear

        if self.want_ranks:
            particle_data['pranks'] = p_ranks
            particle_data['pranksv'] = p_ranksv
            particle_data['pranksp'] = p_ranksp
            particle_data['pranksr'] = p_ranksr
            particle_data['pranksc'] = p_ranksc
        else:
            particle_data['pranks'] = np.ones(Nparts_tot)
            particle_data['pranksv'] = np.ones(Nparts_tot)
            particle_data['pranksp'] = np.ones(Nparts_tot)
            particle_data['pranksr'] = np.ones(Nparts_tot)
            particle_data['pranksc'] = np.ones(Nparts_tot)

        return halo_data, particle_data, params, mock_dir

    def run_hod(
        self,
        tracers=None,
        want_rsd=True,
        want_nfw=False,
        NFW_draw=None,
        reseed=None,
        write_to_disk=False,
        Nthread=16,
        verbose=False,
        fn_ext=None,
    ):
        """
        Runs a custom HOD.

        Parameters
        ----------
        ``tracers``: dict
            dictionary of multi-tracer HOD. ``tracers['LRG']`` is the dictionary of LRG HOD parameters,
            overwrites the ``LRG_params`` argument in the constructor.
            Same for keys ``'ELG'`` and ``'QSO'``.

        ``want_rsd``: bool
            enable RSD? default ``True``.

        ``want_nfw``: bool
            Distribute satellites on NFW instead of particles? default ``False``.
            Needs to feed in a long array of random numbers drawn from an NFW profile.
            !!! NFW profile is unoptimized. It has different velocity bias. It does not support lightcone. !!!

        ``NFW_draw``: np.array
            A long array of random numbers drawn from an NFW profile. P(x) = 1./(x*(1+x)**2)*x**2. default ``None``.
            Only needed if ``want_nfw == True``.

        ``reseed``: int
            re-generate random numbers? supply random number seed. This overwrites the pre-generated random numbers, at a performance cost.
            Default ``None``.

        ``write_to_disk``: bool
            output to disk? default ``False``. Setting to ``True`` decreases performance.

        ``Nthread``: int
            number of threads in the HOD run. Default 16.

        ``verbose``: bool,
            detailed stdout? default ``False``.

        ``fn_ext``: str
            filename extension for saved files. Only relevant when ``write_to_disk = True``.

        Returns
        -------
        mock_dict: dict
            dictionary of galaxy outputs. Contains keys ``'LRG'``, ``'ELG'``, and ``'QSO'``. Each
            tracer key corresponds to a sub-dictionary that contains the galaxy properties with keys
            ``'x'``, ``'y'``, ``'z'``, ``'vx'``, ``'vy'``, ``'vz'``, ``'mass'``, ``'id'``, ``Ncent'``.
            The coordinates are in Mpc/h, and the velocities are in km/s.
            The ``'mass'`` refers to host halo mass and is in units of Msun/h.
            The ``'id'`` refers to halo id, and the ``'Ncent'`` key refers to number of
            central galaxies for that tracer. The first ``'Ncent'`` galaxies
            in the catalog are always centrals and the rest are satellites.

        """
        if tracers is None:
            tracers = self.tracers
        if self.z_type == 'secondary' and not want_nfw:
            raise RuntimeError(
                'Secondary redshifts do not have particle pos/vel outputs and so only NFW profiles are supported'
            )
        if reseed:
            start = time.time()
            # np.random.seed(reseed)
            mtg = MTGenerator(np.random.PCG64(reseed))
            r1 = mtg.random(
                size=len(self.halo_data['hrandoms']), nthread=Nthread, dtype=np.float32
            )
            if self.want_expvel:
                rt0 = mtg.random(
                    size=len(self.halo_data['hrandoms']),
                    nthread=Nthread,
                    dtype=np.float32,
                )
                rt1 = mtg.random(
                    size=len(self.halo_data['hrandoms']),
                    nthread=Nthread,
                    dtype=np.float32,
                )
                rt2 = mtg.random(
                    size=len(self.halo_data['hrandoms']),
                    nthread=Nthread,
                    dtype=np.float32,
                )
                rt = np.vstack((rt0, rt1, rt2)).T
                r2 = np.zeros((len(rt), 3), dtype=np.float32)
                r2[rt >= 0.5] = -np.log(2 * (1 - rt[rt >= 0.5]))
                r2[rt < 0.5] = np.log(2 * rt[rt < 0.5])
            else:
                r20 = mtg.standard_normal(
                    size=len(self.halo_data['hveldev']),
                    nthread=Nthread,
                    dtype=np.float32,
                )
                r21 = mtg.standard_normal(
                    size=len(self.halo_data['hveldev']),
                    nthread=Nthread,
                    dtype=np.float32,
                )
                r22 = mtg.standard_normal(
                    size=len(self.halo_data['hveldev']),
                    nthread=Nthread,
                    dtype=np.float32,
                )
                r2 = np.vstack((r20, r21, r22)).T
            r3 = mtg.random(
                size=len(self.particle_data['prandoms']),
                nthread=Nthread,
                dtype=np.float32,
            )
            self.halo_data['hrandoms'] = r1
            if len(self.halo_data['hveldev'].shape) == 1:
                self.halo_data['hveldev'] = (
                    r20 * self.halo_data['hsigma3d'] / np.sqrt(3)
                )
            else:
                self.halo_data['hveldev'] = (
                    r2
                    * np.repeat(self.halo_data['hsigma3d'], 3).reshape((-1, 3))
                    / np.sqrt(3)
                )
            self.particle_data['prandoms'] = r3

            self.logger.info(
                f'Randoms generated in elapsed time {time.time() - start:.2f} s.'
            )

        start = time.time()
        mock_dict = gen_gal_cat(
            self.halo_data,
            self.particle_data,
            tracers,
            self.params,
            Nthread,
            enable_ranks=self.want_ranks,
            rsd=want_rsd,
            nfw=want_nfw,
            NFW_draw=NFW_draw,
            write_to_disk=write_to_disk,
            savedir=self.mock_dir,
            verbose=verbose,
            fn_ext=fn_ext,
        )
        self.logger.info(f'HOD generated in elapsed time {time.time() - start:.2f} s.')

        return mock_dict

    def compute_ngal(self, tracers=None, Nthread=16):
        """
        Computes the number of each tracer generated by the HOD

        Parameters
        ----------
        ``tracers``: dict
            dictionary of multi-tracer HOD. ``tracers['LRG']`` is the dictionary of LRG HOD parameters,
            overwrites the ``LRG_params`` argument in the constructor.
            Same for keys ``'ELG'`` and ``'QSO'``.

        ``Nthread``: int
            Number of threads in the HOD run. Default 16.

        Returns
        -------
        ngal_dict: dict
        dictionary of number of each tracer.

        fsat_dict: dict
        dictionary of satellite fraction of each tracer.

        """
        if tracers is None:
            tracers = self.tracers

        ngal_dict = {}
        fsat_dict = {}
        for etracer in tracers.keys():
            tracer_hod = tracers[etracer]

            # used in z-evolving HOD
            Delta_a = 1.0 / (1 + self.z_mock) - 1.0 / (
                1 + tracer_hod.get('z_pivot', self.z_mock)
            )
            if etracer == 'LRG':
                newngal = AbacusHOD._compute_ngal_lrg(
                    self.logMbins,
                    self.deltacbins,
                    self.fenvbins,
                    self.halo_mass_func,
                    tracer_hod['logM_cut'],
                    tracer_hod['logM1'],
                    tracer_hod['sigma'],
                    tracer_hod['alpha'],
                    tracer_hod['kappa'],
                    tracer_hod.get('logM_cut_pr', 0),
                    tracer_hod.get('logM1_pr', 0),
                    tracer_hod.get('Acent', 0),
                    tracer_hod.get('Asat', 0),
                    tracer_hod.get('Bcent', 0),
                    tracer_hod.get('Bsat', 0),
                    tracer_hod.get('ic', 1),
                    Delta_a,
                    Nthread,
                )
                ngal_dict[etracer] = newngal[0] + newngal[1]
                fsat_dict[etracer] = newngal[1] / (newngal[0] + newngal[1])
            elif etracer == 'ELG':
                newngal = AbacusHOD._compute_ngal_elg(
                    self.logMbins,
                    self.deltacbins,
                    self.fenvbins,
                    self.shearbins,
                    self.halo_mass_func_wshear,
                    tracer_hod['p_max'],
                    tracer_hod['Q'],
                    tracer_hod['logM_cut'],
                    tracer_hod['kappa'],
                    tracer_hod['sigma'],
                    tracer_hod['logM1'],
                    tracer_hod['alpha'],
                    tracer_hod['gamma'],
                    tracer_hod.get('logM_cut_pr', 0),
                    tracer_hod.get('logM1_pr', 0),
                    tracer_hod.get('A_s', 1),
                    tracer_hod.get('Acent', 0),
                    tracer_hod.get('Asat', 0),
                    tracer_hod.get('Bcent', 0),
                    tracer_hod.get('Bsat', 0),
                    tracer_hod.get('Ccent', 0),
                    tracer_hod.get('Csat', 0),
                    tracer_hod.get('logM1_EE', tracer_hod['logM1']),
                    tracer_hod.get('alpha_EE', tracer_hod['alpha']),
                    tracer_hod.get('logM1_EL', tracer_hod['logM1']),
                    tracer_hod.get('alpha_EL', tracer_hod['alpha']),
                    tracer_hod.get('ic', 1),
                    Delta_a,
                    Nthread,
                )
                print('newngal', newngal)

                ngal_dict[etracer] = newngal[0] + newngal[1]
                fsat_dict[etracer] = newngal[1] / (newngal[0] + newngal[1])
            elif etracer == 'QSO':
                newngal = AbacusHOD._compute_ngal_qso(
                    self.logMbins,
                    self.deltacbins,
                    self.fenvbins,
                    self.halo_mass_func,
                    tracer_hod['logM_cut'],
                    tracer_hod['kappa'],
                    tracer_hod['sigma'],
                    tracer_hod['logM1'],
                    tracer_hod['alpha'],
                    tracer_hod.get('logM_cut_pr', 0),
                    tracer_hod.get('logM1_pr', 0),
                    tracer_hod.get('Acent', 0),
                    tracer_hod.get('Asat', 0),
                    tracer_hod.get('Bcent', 0),
                    tracer_hod.get('Bsat', 0),
                    tracer_hod.get('ic', 1),
                    Delta_a,
                    Nthread,
                )
                ngal_dict[etracer] = newngal[0] + newngal[1]
                fsat_dict[etracer] = newngal[1] / (newngal[0] + newngal[1])
        return ngal_dict, fsat_dict

    @staticmethod
    @njit(fastmath=True, parallel=True)
    def _compute_ngal_lrg(
        logMbins,
        deltacbins,
        fenvbins,
        halo_mass_func,
        logM_cut,
        logM1,
        sigma,
        alpha,
        kappa,
        logM_cut_pr,
        logM1_pr,
        Acent,
        Asat,
        Bcent,
        Bsat,
        ic,
        Delta_a,
        Nthread,
    ):
        """
        internal helper to compute number of LRGs
        """
        numba.set_num_threads(Nthread)

        logMs = 0.5 * (logMbins[1:] + logMbins[:-1])
        deltacs = 0.5 * (deltacbins[1:] + deltacbins[:-1])
        fenvs = 0.5 * (fenvbins[1:] + fenvbins[:-1])
        ngal_cent = 0
        ngal_sat = 0
        # z-evolving HOD
        logM_cut = logM_cut + logM_cut_pr * Delta_a
        logM1 = logM1 + logM1_pr * Delta_a
        for i in numba.prange(len(logMbins) - 1):
            for j in range(len(deltacbins) - 1):
                for k in range(len(fenvbins) - 1):
                    Mh_temp = 10 ** logMs[i]
                    logM_cut_temp = logM_cut + Acent * deltacs[j] + Bcent * fenvs[k]
                    M1_temp = 10 ** (logM1 + Asat * deltacs[j] + Bsat * fenvs[k])
                    ncent_temp = n_cen_LRG(Mh_temp, logM_cut_temp, sigma)
                    nsat_temp = n_sat_LRG_modified(
                        Mh_temp,
                        logM_cut_temp,
                        10**logM_cut_temp,
                        M1_temp,
                        sigma,
                        alpha,
                        kappa,
                    )
                    ngal_cent += halo_mass_func[i, j, k] * ncent_temp * ic
                    ngal_sat += halo_mass_func[i, j, k] * nsat_temp * ic
        return ngal_cent, ngal_sat

    @staticmethod
    @njit(fastmath=True, parallel=True)
    def _compute_ngal_elg(
        logMbins,
        deltacbins,
        fenvbins,
        shearbins,
        halo_mass_func,
        p_max,
        Q,
        logM_cut,
        kappa,
        sigma,
        logM1,
        alpha,
        gamma,
        logM_cut_pr,
        logM1_pr,
        As,
        Acent,
        Asat,
        Bcent,
        Bsat,
        Ccent,
        Csat,
        logM1_EE,
        alpha_EE,
        logM1_EL,
        alpha_EL,
        ic,
        Delta_a,
        Nthread,
    ):
        """
        internal helper to compute number of LRGs
        """
        numba.set_num_threads(Nthread)

        logMs = 0.5 * (logMbins[1:] + logMbins[:-1])
        deltacs = 0.5 * (deltacbins[1:] + deltacbins[:-1])
        fenvs = 0.5 * (fenvbins[1:] + fenvbins[:-1])
        shears = 0.5 * (shearbins[1:] + shearbins[:-1])
        ngal_cent = 0
        ngal_sat = 0
        # z-evolving HOD
        logM_cut = logM_cut + logM_cut_pr * Delta_a
        logM1 = logM1 + logM1_pr * Delta_a
        for i in numba.prange(len(logMbins) - 1):
            for j in range(len(deltacbins) - 1):
                for k in range(len(fenvbins) - 1):
                    for el in range(len(shearbins) - 1):
                        Mh_temp = 10 ** logMs[i]
                        logM_cut_temp = (
                            logM_cut
                            + Acent * deltacs[j]
                            + Bcent * fenvs[k]
                            + Ccent * shears[el]
                        )
                        M1_temp = 10 ** (
                            logM1
                            + Asat * deltacs[j]
                            + Bsat * fenvs[k]
                            + Csat * shears[el]
                        )
                        ncent_temp = (
                            N_cen_ELG_v1(Mh_temp, p_max, Q, logM_cut_temp, sigma, gamma)
                            * ic
                        )
                        nsat_temp = (
                            N_sat_elg(
                                Mh_temp, 10**logM_cut_temp, kappa, M1_temp, alpha, As
                            )
                            * ic
                        )
                        # conformity treatment

                        M1_conf = 10 ** (
                            logM1_EE
                            + Asat * deltacs[j]
                            + Bsat * fenvs[k]
                            + Csat * shears[el]
                        )
                        nsat_conf = (
                            N_sat_elg(
                                Mh_temp, 10**logM_cut_temp, kappa, M1_conf, alpha_EE, As
                            )
                            * ic
                        )
                        # we cannot calculate the number of EL conformal satellites with this approach, so we ignore it for now.

                        ngal_cent += halo_mass_func[i, j, k, el] * ncent_temp
                        ngal_sat += halo_mass_func[i, j, k, el] * (
                            nsat_temp * (1 - ncent_temp) + nsat_conf * ncent_temp
                        )
                        # print(Mh_temp, 10**logM_cut_temp, kappa, M1_temp, alpha, As)
        return ngal_cent, ngal_sat

    @staticmethod
    @njit(fastmath=True, parallel=True)
    def _compute_ngal_qso(
        logMbins,
        deltacbins,
        fenvbins,
        halo_mass_func,
        logM_cut,
        kappa,
        sigma,
        logM1,
        alpha,
        logM_cut_pr,
        logM1_pr,
        Acent,
        Asat,
        Bcent,
        Bsat,
        ic,
        Delta_a,
        Nthread,
    ):
        """
        internal helper to compute number of LRGs
        """
        numba.set_num_threads(Nthread)

        logMs = 0.5 * (logMbins[1:] + logMbins[:-1])
        deltacs = 0.5 * (deltacbins[1:] + deltacbins[:-1])
        fenvs = 0.5 * (fenvbins[1:] + fenvbins[:-1])
        ngal_cent = 0
        ngal_sat = 0
        # z-evolving HOD
        logM_cut = logM_cut + logM_cut_pr * Delta_a
        logM1 = logM1 + logM1_pr * Delta_a
        for i in numba.prange(len(logMbins) - 1):
            for j in range(len(deltacbins) - 1):
                for k in range(len(fenvbins) - 1):
                    Mh_temp = 10 ** logMs[i]
                    logM_cut_temp = logM_cut + Acent * deltacs[j] + Bcent * fenvs[k]
                    M1_temp = 10 ** (logM1 + Asat * deltacs[j] + Bsat * fenvs[k])
                    ncent_temp = N_cen_QSO(Mh_temp, logM_cut_temp, sigma)
                    nsat_temp = N_sat_generic(
                        Mh_temp, 10**logM_cut_temp, kappa, M1_temp, alpha
                    )
                    ngal_cent += halo_mass_func[i, j, k] * ncent_temp * ic
                    ngal_sat += halo_mass_func[i, j, k] * nsat_temp * ic
        return ngal_cent, ngal_sat

    def compute_clustering(self, mock_dict, *args, **kwargs):
        """
        Computes summary statistics, currently enabling ``wp`` and ``xirppi``.

        Parameters
        ----------
        ``mock_dict``: dict
            dictionary of tracer positions. Output of ``run_hod``.

        ``Ntread``: int
            number of threads in the HOD run. Default 16.

        ``rpbins``: np.array
            array of transverse bins in Mpc/h.

        ``pimax``: int
            maximum bin edge along the line of sight direction, in Mpc/h.

        ``pi_bin_size``: int
            size of bin along the line of sight. Currently, we only support linear binning along the line of sight.

        Returns
        -------
        clustering: dict
            dictionary of summary statistics. Auto-correlations/spectra can be
            accessed with keys such as ``'LRG_LRG'``. Cross-correlations/spectra can be
            accessed with keys such as ``'LRG_ELG'``.
        """
        if self.clustering_type == 'xirppi':
            clustering = self.compute_xirppi(mock_dict, *args, **kwargs)
        elif self.clustering_type == 'wp':
            clustering = self.compute_wp(mock_dict, *args, **kwargs)
        elif self.clustering_type == 'multipole':
            clustering = self.compute_multipole(mock_dict, *args, **kwargs)
        else:
            raise ValueError(
                'clustering_type not implemented or not specified, use xirppi, wp, multipole'
            )
        return clustering

    def compute_xirppi(self, mock_dict, rpbins, pimax, pi_bin_size, Nthread=8):
        """
        Computes :math:`\\xi(r_p, \\pi)`.

        Parameters
        ----------
        ``mock_dict``: dict
            dictionary of tracer positions. Output of ``run_hod``.

        ``Ntread``: int
            number of threads in the HOD run. Default 16.

        ``rpbins``: np.array
            array of transverse bins in Mpc/h.

        ``pimax``: int
            maximum bin edge along the line of sight direction, in Mpc/h.

        ``pi_bin_size``: int
            size of bin along the line of sight. Currently, we only support linear binning along the line of sight.

        Returns
        -------
        clustering: dict
            dictionary of summary statistics. Auto-correlations/spectra can be
            accessed with keys such as ``'LRG_LRG'``. Cross-correlations/spectra can be
            accessed with keys such as ``'LRG_ELG'``.
        """
        clustering = {}
        for i1, tr1 in enumerate(mock_dict.keys()):
            x1 = mock_dict[tr1]['x']
            y1 = mock_dict[tr1]['y']
            z1 = mock_dict[tr1]['z']
            for i2, tr2 in enumerate(mock_dict.keys()):
                if i1 > i2:
                    continue  # cross-correlations are symmetric
                if i1 == i2:  # auto corr
                    clustering[tr1 + '_' + tr2] = calc_xirppi_fast(
                        x1, y1, z1, rpbins, pimax, pi_bin_size, self.lbox, Nthread
                    )
                else:
                    x2 = mock_dict[tr2]['x']
                    y2 = mock_dict[tr2]['y']
                    z2 = mock_dict[tr2]['z']
                    clustering[tr1 + '_' + tr2] = calc_xirppi_fast(
                        x1,
                        y1,
                        z1,
                        rpbins,
                        pimax,
                        pi_bin_size,
                        self.lbox,
                        Nthread,
                        x2=x2,
                        y2=y2,
                        z2=z2,
                    )
                    clustering[tr2 + '_' + tr1] = clustering[tr1 + '_' + tr2]
        return clustering

    def compute_multipole(
        self, mock_dict, rpbins, pimax, sbins, nbins_mu, orders=[0, 2], Nthread=8
    ):
        clustering = {}
        for i1, tr1 in enumerate(mock_dict.keys()):
            x1 = mock_dict[tr1]['x']
            y1 = mock_dict[tr1]['y']
            z1 = mock_dict[tr1]['z']
            for i2, tr2 in enumerate(mock_dict.keys()):
                if i1 > i2:
                    continue  # cross-correlations are symmetric
                if i1 == i2:  # auto corr
                    new_multi = calc_multipole_fast(
                        x1,
                        y1,
                        z1,
                        sbins,
                        self.lbox,
                        Nthread,
                        nbins_mu=nbins_mu,
                        orders=orders,
                    )
                    new_wp = calc_wp_fast(x1, y1, z1, rpbins, pimax, self.lbox, Nthread)
                    clustering[tr1 + '_' + tr2] = np.concatenate((new_wp, new_multi))
                else:
                    x2 = mock_dict[tr2]['x']
                    y2 = mock_dict[tr2]['y']
                    z2 = mock_dict[tr2]['z']
                    new_multi = calc_multipole_fast(
                        x1,
                        y1,
                        z1,
                        rpbins,
                        self.lbox,
                        Nthread,
                        x2=x2,
                        y2=y2,
                        z2=z2,
                        nbins_mu=nbins_mu,
                        orders=orders,
                    )
                    new_wp = calc_wp_fast(
                        x1,
                        y1,
                        z1,
                        rpbins,
                        pimax,
                        self.lbox,
                        Nthread,
                        x2=x2,
                        y2=y2,
                        z2=z2,
                    )
                    clustering[tr1 + '_' + tr2] = np.concatenate((new_wp, new_multi))
                    clustering[tr2 + '_' + tr1] = clustering[tr1 + '_' + tr2]
        return clustering

    def compute_power(
        self,
        mock_dict,
        nbins_k,
        nbins_mu,
        k_hMpc_max,
        logk,
        poles=[],
        paste='TSC',
        num_cells=550,
        compensated=False,
        interlaced=False,
    ):
        r"""
        Computes :math:`P(k, \mu)` and/or :math:`P_\ell(k)`.

        TODO: parallelize, document, include deconvolution and aliasing, cross-correlations

        Parameters
        ----------
        ``mock_dict``: dict
            dictionary of tracer positions. Output of ``run_hod``.

        ``nbins_k``: int
            number of k bin centers (same convention as other correlation functions).

        ``nbins_mu``: int
            number of mu bin centers (same convention as other correlation functions).

        ``k_hMpc_max``: float
            maximum wavemode k in units of [Mpc/h]^-1. Note that the minimum k mode is
            currently set as the fundamental mode of the box

        ``logk``: bool
            flag determining whether the k bins are defined in log space or in normal space.

        ``poles``: list
            list of integers determining which multipoles to compute. Default is [], i.e. none.

        ``paste``: str
            scheme for painting particles on a mesh. Can be one of ``TSC`` or ``CIC``.

        ``num_cells``: int
            number of cells per dimension adopted for the particle gridding.

        ``compensated``: bool
            flag determining whether to apply the TSC/CIC grid deconvolution.

        ``interlaced``: bool
            flag determining whether to apply interlacing (i.e., aliasing).

        Returns
        -------
        clustering: dict
            dictionary of summary statistics. Auto-correlations/spectra can be
            accessed with keys such as ``'LRG_LRG'`` and ``'LRG_LRG_ell'`` for the
            multipoles with number of modes per bin, ``'LRG_LRG[_ell]_modes'``.
            Cross-correlations/spectra can be accessed with keys such
            as ``'LRG_ELG'`` and ``'LRG_ELG_ell'`` for the multipoles
            with number of modes per bin, ``'LRG_LRG[_ell]_modes'``. Keys ``k_binc``
            and ``mu_binc`` contain the bin centers of k and mu, respectively.
            The power spectrum P(k, mu) has a shape (nbins_k, nbins_mu), whereas
            the multipole power spectrum has shape (len(poles), nbins_k). Cubic box only.
        """
        Lbox = self.lbox
        clustering = {}
        for i1, tr1 in enumerate(mock_dict.keys()):
            x1 = mock_dict[tr1]['x']
            y1 = mock_dict[tr1]['y']
            z1 = mock_dict[tr1]['z']
            pos1 = np.stack((x1, y1, z1), axis=1)
            w1 = mock_dict[tr1].get('w', None)
            for i2, tr2 in enumerate(mock_dict.keys()):
                if i1 > i2:
                    continue  # cross-correlations are symmetric
                if i1 == i2:
                    print(tr1 + '_' + tr2)
                    power = calc_power(
                        pos1,
                        Lbox,
                        nbins_k,
                        nbins_mu,
                        k_hMpc_max,
                        logk,
                        paste,
                        num_cells,
                        compensated,
                        interlaced,
                        w=w1,
                        poles=poles,
                    )
                    clustering[tr1 + '_' + tr2] = power['power']
                    clustering[tr1 + '_' + tr2 + '_modes'] = power['N_mode']
                    clustering[tr1 + '_' + tr2 + '_ell'] = power['poles']
                    clustering[tr1 + '_' + tr2 + '_ell_modes'] = power['N_mode_poles']
                else:
                    print(tr1 + '_' + tr2)
                    x2 = mock_dict[tr2]['x']
                    y2 = mock_dict[tr2]['y']
                    z2 = mock_dict[tr2]['z']
                    pos2 = np.stack((x2, y2, z2), axis=1)
                    w2 = mock_dict[tr2].get('w', None)
                    power = calc_power(
                        pos1,
                        Lbox,
                        nbins_k,
                        nbins_mu,
                        k_hMpc_max,
                        logk,
                        paste,
                        num_cells,
                        compensated,
                        interlaced,
                        w=w1,
                        pos2=pos2,
                        w2=w2,
                        poles=poles,
                    )
                    clustering[tr1 + '_' + tr2] = power['power']
                    clustering[tr1 + '_' + tr2 + '_modes'] = power['N_mode']
                    clustering[tr1 + '_' + tr2 + '_ell'] = power['poles']
                    clustering[tr1 + '_' + tr2 + '_ell_modes'] = power['N_mode_poles']
                    clustering[tr2 + '_' + tr1] = clustering[tr1 + '_' + tr2]
                    clustering[tr2 + '_' + tr1 + '_modes'] = clustering[
                        tr1 + '_' + tr2 + '_modes'
                    ]
                    clustering[tr2 + '_' + tr1 + '_ell'] = clustering[
                        tr1 + '_' + tr2 + '_ell'
                    ]
                    clustering[tr2 + '_' + tr1 + '_ell_modes'] = clustering[
                        tr1 + '_' + tr2 + '_ell_modes'
                    ]
        clustering['k_binc'] = power['k_mid']
        clustering['mu_binc'] = power['mu_mid'][0]
        return clustering

    def apply_zcv(self, mock_dict, config, load_presaved=False):
        """
        Apply control variates reduction of the variance to a power spectrum observable.
        """

        # ZCV module has optional dependencies, don't import unless necessary
        from .zcv.tools_cv import run_zcv
        from .zcv.tracer_power import get_tracer_power
        from ..analysis.power_spectrum import get_k_mu_edges

        # compute real space and redshift space
        # assert config['HOD_params']['want_rsd'], "Currently want_rsd=False not implemented"
        assert len(mock_dict.keys()) == 1, (
            'Currently implemented only a single tracer'
        )  # should make a dict of dicts, but need cross
        assert len(config['power_params']['poles']) <= 3, (
            'Currently implemented only multipoles 0, 2, 4; need to change ZeNBu'
        )
        assert config['power_params']['nbins_mu'] == 1, (
            'Currently wedges are not implemented; need to change ZeNBu'
        )
        if 'nmesh' not in config['power_params'].keys():
            config['power_params']['nmesh'] = config['zcv_params']['nmesh']
        assert config['zcv_params']['nmesh'] == config['power_params']['nmesh'], (
            '`nmesh` in `power_params` and `zcv_params` should match.'
        )

        # create save directory
        save_dir = (
            Path(config['zcv_params']['zcv_dir']) / config['sim_params']['sim_name']
        )
        save_z_dir = save_dir / f'z{config["sim_params"]["z_mock"]:.3f}'
        rsd_str = '_rsd' if config['HOD_params']['want_rsd'] else ''

        # define bins
        Lbox = self.lbox
        k_bin_edges, mu_bin_edges = get_k_mu_edges(
            Lbox,
            config['power_params']['k_hMpc_max'],
            config['power_params']['nbins_k'],
            config['power_params']['nbins_mu'],
            config['power_params']['logk'],
        )
        k_binc = 0.5 * (k_bin_edges[1:] + k_bin_edges[:-1])
        mu_binc = 0.5 * (mu_bin_edges[1:] + mu_bin_edges[:-1])

        # get file names
        if not config['power_params']['logk']:
            dk = k_bin_edges[1] - k_bin_edges[0]
        else:
            dk = np.log(k_bin_edges[1] / k_bin_edges[0])
        if config['power_params']['nbins_k'] == config['zcv_params']['nmesh'] // 2:
            power_rsd_tr_fn = (
                save_z_dir
                / f'power{rsd_str}_tr_nmesh{config["zcv_params"]["nmesh"]}.asdf'
            )
            power_rsd_ij_fn = (
                save_z_dir
                / f'power{rsd_str}_ij_nmesh{config["zcv_params"]["nmesh"]}.asdf'
            )
            power_tr_fn = (
                save_z_dir / f'power_tr_nmesh{config["zcv_params"]["nmesh"]}.asdf'
            )
            power_ij_fn = (
                save_z_dir / f'power_ij_nmesh{config["zcv_params"]["nmesh"]}.asdf'
            )
        else:
            power_rsd_tr_fn = (
                save_z_dir
                / f'power{rsd_str}_tr_nmesh{config["zcv_params"]["nmesh"]}_dk{dk:.3f}.asdf'
            )
            power_rsd_ij_fn = (
                save_z_dir
                / f'power{rsd_str}_ij_nmesh{config["zcv_params"]["nmesh"]}_dk{dk:.3f}.asdf'
            )
            power_tr_fn = (
                save_z_dir
                / f'power_tr_nmesh{config["zcv_params"]["nmesh"]}_dk{dk:.3f}.asdf'
            )
            power_ij_fn = (
                save_z_dir
                / f'power_ij_nmesh{config["zcv_params"]["nmesh"]}_dk{dk:.3f}.asdf'
            )
        pk_fns = [power_rsd_tr_fn, power_rsd_ij_fn, power_tr_fn, power_ij_fn]
        for fn in pk_fns:
            try:
                assert np.isclose(
                    asdf.open(fn)['header']['kcut'], config['zcv_params']['kcut']
                ), f'Mismatching file: {str(fn)}'
            except FileNotFoundError:
                pass

        if load_presaved:
            pk_rsd_tr_dict = asdf.open(power_rsd_tr_fn)['data']
            pk_rsd_ij_dict = asdf.open(power_rsd_ij_fn)['data']
            assert np.allclose(k_binc, pk_rsd_tr_dict['k_binc']), (
                f'Mismatching file: {str(power_rsd_tr_fn)}'
            )
            assert np.allclose(k_binc, pk_rsd_ij_dict['k_binc']), (
                f'Mismatching file: {str(power_rsd_ij_fn)}'
            )
            assert np.allclose(mu_binc, pk_rsd_tr_dict['mu_binc']), (
                f'Mismatching file: {str(power_rsd_tr_fn)}'
            )
            assert np.allclose(mu_binc, pk_rsd_ij_dict['mu_binc']), (
                f'Mismatching file: {str(power_rsd_ij_fn)}'
            )
            if config['HOD_params']['want_rsd']:
                pk_tr_dict = asdf.open(power_tr_fn)['data']
                pk_ij_dict = asdf.open(power_ij_fn)['data']
                assert np.allclose(k_binc, pk_tr_dict['k_binc']), (
                    f'Mismatching file: {str(power_tr_fn)}'
                )
                assert np.allclose(k_binc, pk_ij_dict['k_binc']), (
                    f'Mismatching file: {str(power_ij_fn)}'
                )
                assert np.allclose(mu_binc, pk_tr_dict['mu_binc']), (
                    f'Mismatching file: {str(power_tr_fn)}'
                )
                assert np.allclose(mu_binc, pk_ij_dict['mu_binc']), (
                    f'Mismatching file: {str(power_ij_fn)}'
                )
            else:
                pk_tr_dict, pk_ij_dict = None, None

        else:
            # run version with rsd or without rsd
            for tr in mock_dict.keys():
                # obtain the positions
                tracer_pos = (
                    np.vstack(
                        (mock_dict[tr]['x'], mock_dict[tr]['y'], mock_dict[tr]['z'])
                    ).T
                ).astype(np.float32)
                del mock_dict
                gc.collect()

                # get power spectra for this tracer
                pk_rsd_tr_dict = get_tracer_power(
                    tracer_pos, config['HOD_params']['want_rsd'], config
                )
                pk_rsd_ij_dict = asdf.open(power_rsd_ij_fn)['data']
                assert np.allclose(k_binc, pk_rsd_ij_dict['k_binc']), (
                    f'Mismatching file: {str(power_rsd_ij_fn)}'
                )
                assert np.allclose(mu_binc, pk_rsd_ij_dict['mu_binc']), (
                    f'Mismatching file: {str(power_rsd_ij_fn)}'
                )
            # run version without rsd if rsd was requested
            if config['HOD_params']['want_rsd']:
                mock_dict = self.run_hod(
                    self.tracers,
                    want_rsd=False,
                    reseed=None,
                    write_to_disk=False,
                    Nthread=16,
                    verbose=False,
                    fn_ext=None,
                )
                for tr in mock_dict.keys():
                    # obtain the positions
                    tracer_pos = (
                        np.vstack(
                            (mock_dict[tr]['x'], mock_dict[tr]['y'], mock_dict[tr]['z'])
                        ).T
                    ).astype(np.float32)
                    del mock_dict
                    gc.collect()

                    # get power spectra for this tracer
                    pk_tr_dict = get_tracer_power(
                        tracer_pos, want_rsd=False, config=config
                    )
                    pk_ij_dict = asdf.open(power_ij_fn)['data']
                    assert np.allclose(k_binc, pk_ij_dict['k_binc']), (
                        f'Mismatching file: {str(power_ij_fn)}'
                    )
                    assert np.allclose(mu_binc, pk_ij_dict['mu_binc']), (
                        f'Mismatching file: {str(power_ij_fn)}'
                    )
            else:
                pk_tr_dict, pk_ij_dict = None, None

        # run the final part and save
        zcv_dict = run_zcv(
            pk_rsd_tr_dict, pk_rsd_ij_dict, pk_tr_dict, pk_ij_dict, config
        )
        return zcv_dict

    def apply_zcv_xi(self, mock_dict, config, load_presaved=False):
        """
        Apply control variates reduction of the variance to a power spectrum observable.
        """

        # ZCV module has optional dependencies, don't import unless necessary
        from .zcv.tools_cv import run_zcv_field
        from .zcv.tracer_power import get_tracer_power
        from ..analysis.power_spectrum import pk_to_xi

        # compute real space and redshift space
        assert config['HOD_params']['want_rsd'], (
            'Currently want_rsd=False not implemented'
        )
        assert len(mock_dict.keys()) == 1, (
            'Currently implemented only a single tracer'
        )  # should make a dict of dicts, but need cross
        assert len(config['power_params']['poles']) <= 3, (
            'Currently implemented only multipoles 0, 2, 4; need to change ZeNBu'
        )
        assert config['power_params']['nbins_mu'] == 1, (
            'Currently wedges are not implemented; need to change ZeNBu'
        )
        if 'nmesh' not in config['power_params'].keys():
            config['power_params']['nmesh'] = config['zcv_params']['nmesh']
        assert config['zcv_params']['nmesh'] == config['power_params']['nmesh'], (
            '`nmesh` in `power_params` and `zcv_params` should match.'
        )

        # create save directory
        save_dir = (
            Path(config['zcv_params']['zcv_dir']) / config['sim_params']['sim_name']
        )
        save_z_dir = save_dir / f'z{config["sim_params"]["z_mock"]:.3f}'
        rsd_str = '_rsd' if config['HOD_params']['want_rsd'] else ''

        # construct names of files based on fields
        keynames = config['zcv_params']['fields']

        # tracer and field file names
        pk_rsd_tr_fns = []
        pk_tr_fns = []
        pk_rsd_ij_fns = []
        pk_ij_fns = []
        pk_rsd_tr_fns.append(
            save_z_dir
            / f'power{rsd_str}_tr_tr_nmesh{config["zcv_params"]["nmesh"]:d}.asdf'
        )
        pk_tr_fns.append(
            save_z_dir / f'power_tr_tr_nmesh{config["zcv_params"]["nmesh"]:d}.asdf'
        )
        for i in range(len(keynames)):
            pk_rsd_tr_fns.append(
                save_z_dir
                / f'power{rsd_str}_{keynames[i]}_tr_nmesh{config["zcv_params"]["nmesh"]:d}.asdf'
            )
            pk_tr_fns.append(
                save_z_dir
                / f'power_{keynames[i]}_tr_nmesh{config["zcv_params"]["nmesh"]:d}.asdf'
            )
            for j in range(len(keynames)):
                if i < j:
                    continue
                pk_rsd_ij_fns.append(
                    save_z_dir
                    / f'power{rsd_str}_{keynames[i]}_{keynames[j]}_nmesh{config["zcv_params"]["nmesh"]:d}.asdf'
                )
                pk_ij_fns.append(
                    save_z_dir
                    / f'power_{keynames[i]}_{keynames[j]}_nmesh{config["zcv_params"]["nmesh"]:d}.asdf'
                )

        if not load_presaved:
            # run version with rsd or without rsd
            for tr in mock_dict.keys():
                # obtain the positions
                tracer_pos = (
                    np.vstack(
                        (mock_dict[tr]['x'], mock_dict[tr]['y'], mock_dict[tr]['z'])
                    ).T
                ).astype(np.float32)
                del mock_dict
                gc.collect()

                pk_rsd_tr_fns = get_tracer_power(
                    tracer_pos,
                    config['HOD_params']['want_rsd'],
                    config,
                    save_3D_power=True,
                )
                del tracer_pos
                gc.collect()

            # run version without rsd if rsd was requested
            if config['HOD_params']['want_rsd']:
                mock_dict = self.run_hod(
                    self.tracers,
                    want_rsd=False,
                    reseed=None,
                    write_to_disk=False,
                    Nthread=16,
                    verbose=False,
                    fn_ext=None,
                )  # TODO: reseed
                for tr in mock_dict.keys():
                    # obtain the positions
                    tracer_pos = (
                        np.vstack(
                            (mock_dict[tr]['x'], mock_dict[tr]['y'], mock_dict[tr]['z'])
                        ).T
                    ).astype(np.float32)
                    del mock_dict
                    gc.collect()

                    pk_tr_fns = get_tracer_power(
                        tracer_pos, False, config, save_3D_power=True
                    )
                    del tracer_pos
                    gc.collect()
            else:
                pk_tr_fns, pk_ij_fns = None, None  # TODO: unsure

        # pass field names as a list to run_zcv
        pks = [pk_rsd_tr_fns, pk_rsd_ij_fns, pk_tr_fns, pk_ij_fns]
        for pk_fns in pks:
            if pk_fns is not None:
                for fn in pk_fns:
                    assert np.isclose(
                        asdf.open(fn)['header']['kcut'], config['zcv_params']['kcut']
                    ), f'Mismatching file: {str(fn)}'
        zcv_dict = run_zcv_field(
            pk_rsd_tr_fns, pk_rsd_ij_fns, pk_tr_fns, pk_ij_fns, config
        )

        # convert 3d power spectrum to correlation function multipoles
        r_bins = np.linspace(0.0, 200.0, 201)
        pk_rsd_tr_fns = [
            save_z_dir
            / f'power{rsd_str}_tr_tr_nmesh{config["zcv_params"]["nmesh"]:d}.asdf'
        ]  # TODO: same as other (could check that we have this if presaved)
        power_cv_tr_fn = (
            save_z_dir
            / f'power{rsd_str}_ZCV_tr_nmesh{config["zcv_params"]["nmesh"]:d}.asdf'
        )  # TODO: should be an output (could check that we have this if presaved; run_zcv too)
        r_binc, binned_poles_zcv, Npoles = pk_to_xi(
            asdf.open(power_cv_tr_fn)['data']['P_k3D_tr_tr_zcv'],
            self.lbox,
            r_bins,
            poles=config['power_params']['poles'],
        )
        r_binc, binned_poles, Npoles = pk_to_xi(
            asdf.open(pk_rsd_tr_fns[0])['data']['P_k3D_tr_tr'],
            self.lbox,
            r_bins,
            poles=config['power_params']['poles'],
        )
        zcv_dict['Xi_tr_tr_ell_zcv'] = binned_poles_zcv
        zcv_dict['Xi_tr_tr_ell'] = binned_poles
        zcv_dict['Np_tr_tr_ell'] = Npoles
        zcv_dict['r_binc'] = r_binc

        return zcv_dict

    def compute_wp(self, mock_dict, rpbins, pimax, pi_bin_size, Nthread=8):
        """
        Computes :math:`w_p`.

        Parameters
        ----------
        ``mock_dict``: dict
            dictionary of tracer positions. Output of ``run_hod``.

        ``Ntread``: int
            number of threads in the HOD run. Default 16.

        ``rpbins``: np.array
            array of transverse bins in Mpc/h.

        ``pimax``: int
            maximum bin edge along the line of sight direction, in Mpc/h.

        ``pi_bin_size``: int
            size of bin along the line of sight. Currently, we only support linear binning along the line of sight.

        Returns
        -------
        clustering: dict
            dictionary of summary statistics. Auto-correlations/spectra can be
            accessed with keys such as ``'LRG_LRG'``. Cross-correlations/spectra can be
            accessed with keys such as ``'LRG_ELG'``.
        """
        clustering = {}
        for i1, tr1 in enumerate(mock_dict.keys()):
            x1 = mock_dict[tr1]['x']
            y1 = mock_dict[tr1]['y']
            z1 = mock_dict[tr1]['z']
            for i2, tr2 in enumerate(mock_dict.keys()):
                if i1 > i2:
                    continue  # cross-correlations are symmetric
                if i1 == i2:
                    print(tr1 + '_' + tr2)
                    clustering[tr1 + '_' + tr2] = calc_wp_fast(
                        x1, y1, z1, rpbins, pimax, self.lbox, Nthread
                    )
                else:
                    print(tr1 + '_' + tr2)
                    x2 = mock_dict[tr2]['x']
                    y2 = mock_dict[tr2]['y']
                    z2 = mock_dict[tr2]['z']
                    clustering[tr1 + '_' + tr2] = calc_wp_fast(
                        x1,
                        y1,
                        z1,
                        rpbins,
                        pimax,
                        self.lbox,
                        Nthread,
                        x2=x2,
                        y2=y2,
                        z2=z2,
                    )
                    clustering[tr2 + '_' + tr1] = clustering[tr1 + '_' + tr2]
        return clustering

    def gal_reader(
        self,
        output_dir=None,
        simname=None,
        sim_dir=None,
        z_mock=None,
        want_rsd=None,
        tracers=None,
    ):
        """
        Loads galaxy data given directory and return a ``mock_dict`` dictionary.

        Parameters
        ----------
        ``sim_name``: str
            name of the simulation volume, e.g. 'AbacusSummit_base_c000_ph006'.

        ``sim_dir``: str
            the directory that the simulation lives in, e.g. '/path/to/AbacusSummit/'.

        ``output_dir``: str
            the diretory to save galaxy to, e.g. '/my/output/galalxies'.

        ``z_mock``: floa
             which redshift slice, e.g. 0.5.

        ``want_rsd``: bool
            RSD?

        ``tracers``: dict
            dictionary of tracer types to load, e.g. `{'LRG', 'ELG'}`.

        Returns
        -------
        ``mock_dict``: dict
            dictionary of tracer positions. Output of ``run_hod``.

        """

        if output_dir is None:
            output_dir = Path(self.output_dir)
        if simname is None:
            simname = Path(self.sim_name)
        if sim_dir is None:
            sim_dir = Path(self.sim_dir)
        if z_mock is None:
            z_mock = self.z_mock
        if want_rsd is None:
            want_rsd = self.want_rsd
        if tracers is None:
            tracers = self.tracers.keys()
        # mock_dir = output_dir / simname / ('z%4.3f'%self.z_mock)

        if want_rsd:
            rsd_string = '_rsd'
        else:
            rsd_string = ''

        outdir = (self.mock_dir) / ('galaxies' + rsd_string)

        mockdict = {}
        for tracer in tracers:
            mockdict[tracer] = ascii.read(outdir / (tracer + 's.dat'))
        return mockdict


@njit(parallel=True)
def _searchsorted_parallel(a, b):
    res = np.empty(len(b), dtype=np.int64)
    for i in numba.prange(len(b)):
        res[i] = np.searchsorted(a, b[i])
    return res
