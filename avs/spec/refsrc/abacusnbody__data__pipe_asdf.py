#!/usr/bin/env python3

"""
``pipe_asdf`` is a Python script to unpack Abacus ASDF files (such as
halo catalog or particle data) and write them out via a Unix pipe (stdout).
The intention is to provide a simple way for C, C++, Fortran, etc,
codes to read ASDF files while letting Python handle the details
of the file formats, compression, and other things Python does well.

Usage
=====
.. code-block:: bash

    pipe_asdf [-h] [-f FIELD] [--nthread NTHREAD] asdf-file [asdf-file ...] | ./client

positional arguments
--------------------
  asdf-file
    An ASDF file. Multiple may be specified.

optional arguments
------------------
  -h, --help            show this help message and exit
  -f FIELD, --field FIELD
                        A field/column to pipe. Multiple -f flags are allowed, in which case fields will be piped in the order they are specified. (default:
                        None)
  --nthread NTHREAD     Number of blosc decompression threads (when applicable). For AbacusSummit, use 1 to 4. (default: 4)



Binary Format of Piped Data
===========================

The binary format of the piped data is simple:

1) an 8-byte int indicating the number of data values
2) a 4-byte int indicating the width of the primitive data type that composes the data
   (e.g. 4 for float, 8 for double).  Largely provided as a sanity check.
3) the data, consisting of a number of bytes equal to the product of the preceeding ints
4) Repeat from (1) for all fields requested

So the expected pattern for the client code is to read the int64 and int32,
take the product, allocate that many bytes, then read the data into that allocation.

When passing multiple files, a single column will be read from all files
before moving to the next column.  In other words, the client sees
the concatenated data.

From a performance perspective, the pipe operation probably amounts
to a memcpy. So a small performance hit, but likely vanishingly small
compared to the actual IO and analysis.

Ultimately, this pipe scheme is not a replacement for direct access
to the files, but it may be helpful for applications with simple data
access patterns.

Entry Points
============
Technically, ``pipe_asdf`` is a "console script" alias provided by setuptools to invoke
the ``abacusnbody.data.pipe_asdf`` module as a script.  This alias is
usually installed in a user's PATH environment variable when installing
abacusutils via pip, but if not, one could equivalently invoke the
script with:

.. code-block:: bash

    $ python3 -m abacusnbody.data.pipe_asdf

The ``abacusnbody/pipe_asdf`` directory also contains a symlink to this
file, so from this directory one can also run

.. code-block:: bash

    $ ./pipe_asdf.py

To-do
======
- Add a "-k/--key" flag to read header fields. Decide on a wire protocol.
- Add CompaSOHaloCatalog hooks to pipe the unpacked data (?)
"""

import argparse
import gc
import sys
from os.path import isfile
from timeit import default_timer as timer

import asdf
import numpy as np

try:
    import asdf._compression as asdf_compression
except ImportError:
    import asdf.compression as asdf_compression

try:
    asdf_compression.validate('blsc')
except Exception as e:
    raise Exception(
        'Abacus ASDF extension not properly loaded! Try reinstalling abacusutils, or updating ASDF: `pip install asdf>=2.8`'
    ) from e

DEFAULT_DATA_KEY = 'data'
DEFAULT_HEADER_KEY = 'header'


def _write_all(pipe, buf):
    """Write every byte of `buf` (bytes or a 1-D uint8 array) to `pipe`.

    `pipe.write` of a raw (unbuffered) stream, e.g. stdout under ``python -u`` /
    ``PYTHONUNBUFFERED``, transfers at most one system call's worth of bytes
    (0x7ffff000 on Linux) and returns the count, so keep going until done.
    """
    buf = memoryview(buf)
    while len(buf):
        nwritten = pipe.write(buf)
        if nwritten is None:
            # a non-blocking raw stream that accepts nothing
            raise BlockingIOError('pipe is not ready for writing')
        buf = buf[nwritten:]


def unpack_to_pipe(
    asdf_fns,
    fields,
    data_key=DEFAULT_DATA_KEY,
    header_key=DEFAULT_HEADER_KEY,
    pipe=sys.stdout.buffer,
    nthread=4,
    verbose=True,
):
    if pipe.isatty():
        raise RuntimeError(
            'Output pipe appears to be a terminal! Did you mean to pipe or redirect stdout?'
        )

    # begin input validation and header reads
    assert pipe is not None  # can this happen?
    for fn in asdf_fns:
        if not isfile(fn):
            raise FileNotFoundError(fn)
    afs = []
    for fn in asdf_fns:
        afs += [asdf.open(fn, mode='r', memmap=False, lazy_load=True)]
    widths = {}
    for af in afs:
        for field in fields:
            if field not in af.tree[data_key]:
                raise ValueError(f'Field "{field}" not found in "{af.uri}"')
            # one item width is announced per field, so all files must agree on it
            width = af.tree[data_key][field].dtype.itemsize
            if widths.setdefault(field, width) != width:
                raise ValueError(
                    f'Field "{field}" has item width {width} in "{af.uri}" '
                    f'but {widths[field]} in the preceding files'
                )

    # begin IO loop
    nbytes_tot = 0
    start_time = timer()
    read_time = 0
    for field in fields:
        N = np.int64(0)
        for af in afs:
            _N = np.prod(af[data_key][field].shape)
            N += _N
            field_width = np.int32(af[data_key][field].dtype.itemsize)
        _write_all(pipe, N.tobytes())
        _write_all(pipe, field_width.tobytes())
        for af in afs:
            read_start_time = timer()
            arr = af[data_key][field][:]  # read + decompression happens here
            read_time += timer() - read_start_time
            # the file may store the column as a strided view (shared block,
            # Fortran order, ...): the buffer protocol refuses those, so emit
            # the elements' bytes in C order (no copy when already contiguous)
            _write_all(pipe, np.ascontiguousarray(arr).reshape(-1).view(np.uint8))
            del arr
            gc.collect()
        nbytes_tot += N * field_width
    pipe.close()  # signal EOF
    tot_time = timer() - start_time
    if verbose:
        print(
            f'[pipe_asdf.py] Read + decompressed {nbytes_tot / 1e6:.3g} MB in {read_time:.3g} s at {nbytes_tot / 1e6 / read_time:.3g} MB/s',
            file=sys.stderr,
        )
        print(
            f'[pipe_asdf.py] Processed {nbytes_tot / 1e6:.3g} MB in {tot_time:.3g} s at {nbytes_tot / 1e6 / tot_time:.3g} MB/s',
            file=sys.stderr,
        )


class _ArgParseFormatter(
    argparse.RawDescriptionHelpFormatter, argparse.ArgumentDefaultsHelpFormatter
):
    pass


def main():
    """Invoke the command-line interface"""
    parser = argparse.ArgumentParser(
        description='A script to unpack Abacus ASDF files and write the raw data to stdout. '
        'See https://abacusutils.readthedocs.io/en/latest/pipes.html',
        formatter_class=_ArgParseFormatter,
    )

    parser.add_argument(
        'asdf-file', help='An ASDF file. Multiple may be specified.', nargs='+'
    )
    parser.add_argument(
        '-f',
        '--field',
        help='A field/column to pipe. Multiple -f flags are allowed, in which case fields will be piped in the order they are specified.',
        action='append',
    )
    parser.add_argument(
        '--nthread',
        help='Number of blosc decompression threads (when applicable).  For AbacusSummit, use 1 to 4.',
        type=int,
        default=4,
    )

    args = parser.parse_args()
    args = vars(args)

    # rename a few args
    args['asdf_fns'] = args.pop('asdf-file')
    args['fields'] = args.pop('field')

    unpack_to_pipe(**args)


if __name__ == '__main__':
    main()
