import numba as nb


@nb.njit
def cumsum(arr, out, initial=False, final=True, offset=0):
    """
    Compute the cumulative sum of an array, storing the result in the output array.
    The (scalar) total is returned.

    The length of the output array depends on the values of initial and final.

    Defaults conform to numpy.cumsum().

    Parameters
    ----------
    arr : array-like
        The input array.

    out : array-like
        The output array.

    initial : bool, optional
        If True, the first element of the output array is set to 0.
        Defaults to False.

    final : bool, optional
        If True, the last element of the output array is set to the total sum.
        Defaults to True.

    offset : scalar, optional
        The initial value of the total sum.
        Defaults to 0.

    Returns
    -------
    total : scalar
        The total sum of the input array (plus the offset).
    """

    N = len(arr)
    N_out = N - 1 + int(initial) + int(final)
    if len(out) != N_out:
        raise ValueError('Output array has incorrect length')

    dtype = out.dtype.type
    total = dtype(offset)

    if initial and N_out > 0:
        out[0] = total

    for i in range(N - 1):
        total += arr[i]
        out[i + int(initial)] = total

    if N > 0:
        total += arr[-1]
        if final:
            out[-1] = total

    return total
