import numba as nb
from numba.core import types
from numba.extending import overload


def _add(total, x, like):
    """total + x for `cumsum`; `like` is a scalar of the output dtype."""
    raise NotImplementedError


@overload(_add)
def _add_overload(total, x, like):
    if (
        isinstance(total, (types.Integer, types.Boolean))
        and isinstance(x, (types.Integer, types.Boolean))
        and isinstance(like, types.Integer)
    ):
        # integers into integers: add in the output dtype. Mixed operands such
        # as uint64 + int64 would otherwise be unified to float64 by numba,
        # losing precision above 2**53
        T = like

        def impl(total, x, like):
            return T(total + T(x))

    else:
        # a float on either side: add in the promoted type (as numpy.cumsum
        # with out= does) and let the store convert the partial sum, instead of
        # truncating or rounding every term to the output dtype first
        def impl(total, x, like):
            return total + x

    return impl


def _start(offset, like):
    """initial total for `cumsum`; `like` is a scalar of the output dtype."""
    raise NotImplementedError


@overload(_start)
def _start_overload(offset, like):
    if isinstance(offset, types.Float) and isinstance(like, types.Integer):
        # a fractional offset into an integer output: keep it, so that the
        # partial sums start from the offset and are converted on the store
        # (same reasoning as for float terms in `_add`)
        def impl(offset, like):
            return offset

    else:
        T = like

        def impl(offset, like):
            return T(offset)

    return impl


@nb.njit
def cumsum(arr, out, initial=False, final=True, offset=0):
    """
    Compute the cumulative sum of an array, storing the result in the output array.
    The (scalar) total is returned.

    The length of the output array depends on the values of initial and final.

    Defaults conform to numpy.cumsum().

    Parameters
    ----------
    arr : array-like
        The input array.

    out : array-like
        The output array.

    initial : bool, optional
        If True, the first element of the output array is set to 0.
        Defaults to False.

    final : bool, optional
        If True, the last element of the output array is set to the total sum.
        Defaults to True.

    offset : scalar, optional
        The initial value of the total sum.
        Defaults to 0.

    Returns
    -------
    total : scalar
        The total sum of the input array (plus the offset).
    """

    N = len(arr)
    N_out = N - 1 + int(initial) + int(final)
    if len(out) != N_out:
        raise ValueError('Output array has incorrect length')

    dtype = out.dtype.type
    like = dtype(0)
    total = _start(offset, like)

    if initial and N_out > 0:
        out[0] = total

    for i in range(N - 1):
        total = _add(total, arr[i], like)
        out[i + int(initial)] = total

    if N > 0:
        total = _add(total, arr[-1], like)
        if final:
            out[-1] = total

    return total
