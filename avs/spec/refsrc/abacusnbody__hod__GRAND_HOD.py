import math
import os
import time
import warnings

import numba
import numba as nb
import numpy as np
from astropy.io import ascii
from astropy.table import Table
from numba import njit, types
from numba.typed import Dict

# import yaml
# config = yaml.safe_load(open('config/abacus_hod.yaml'))
# numba.set_num_threads(16)
float_array = types.float64[:]
int_array = types.int64[:]
G = 4.302e-6  # in kpc/Msol (km.s)^2


@njit(fastmath=True)
def n_sat_LRG_modified(M_h, logM_cut, M_cut, M_1, sigma, alpha, kappa):
    """
    Standard Zheng et al. (2005) satellite HOD parametrization for LRGs, modified with n_cent_LRG
    """
    if M_h - kappa * M_cut < 0:
        return 0
    return (
        ((M_h - kappa * M_cut) / M_1) ** alpha
        * 0.5
        * math.erfc((logM_cut - np.log10(M_h)) / (1.41421356 * sigma))
    )


@njit(fastmath=True)
def n_cen_LRG(M_h, logM_cut, sigma):
    """
    Standard Zheng et al. (2005) central HOD parametrization for LRGs.
    """
    return 0.5 * math.erfc((logM_cut - np.log10(M_h)) / (1.41421356 * sigma))


@njit(fastmath=True)
def N_sat_generic(M_h, M_cut, kappa, M_1, alpha, A_s=1.0):
    """
    Standard Zheng et al. (2005) satellite HOD parametrization for all tracers with an optional amplitude parameter, A_s.
    """
    if M_h - kappa * M_cut < 0:
        return 0
    return A_s * ((M_h - kappa * M_cut) / M_1) ** alpha


@njit(fastmath=True)
def N_sat_elg(M_h, M_cut, kappa, M_1, alpha, A_s=1.0, alpha1=0.0, beta=0.0):
    """
    Standard power law modulated by an exponential fall off at small M
    """
    # return (M_h/M_1)**alpha/(1+np.exp(-A_s*(np.log10(M_h)-np.log10(kappa*M_cut)))) + beta*(M_h/M_1)**(-alpha1)/100
    if M_h - kappa * M_cut < 0:
        return 0
    return (
        A_s * ((M_h - kappa * M_cut) / M_1) ** alpha
    )  # + beta*(M_h/M_1)**(-alpha1)/100


@njit(fastmath=True)
def N_cen_ELG_v1(M_h, p_max, Q, logM_cut, sigma, gamma, Anorm=1):
    """
    HOD function for ELG centrals taken from arXiv:1910.05095.
    """
    logM_h = np.log10(M_h)
    phi = phi_fun(logM_h, logM_cut, sigma)
    Phi = Phi_fun(logM_h, logM_cut, sigma, gamma)
    return (
        2.0 * (p_max - 1.0 / Q) * phi * Phi / Anorm
    )  # + 0.5/Q*(1 + math.erf((logM_h-logM_cut-0.8)*3))


@njit(fastmath=True)
def N_cen_ELG_v2(M_h, p_max, logM_cut, sigma, gamma):
    """
    HOD function for ELG centrals taken from arXiv:2007.09012.
    """
    logM_h = np.log10(M_h)
    if logM_h <= logM_cut:
        return p_max * Gaussian_fun(logM_h, logM_cut, sigma)
    else:
        return p_max * (M_h / 10**logM_cut) ** gamma / (2.5066283 * sigma)


@njit(fastmath=True)
def N_cen_QSO(M_h, logM_cut, sigma):
    """
    HOD function (Zheng et al. (2005) with p_max) for QSO centrals taken from arXiv:2007.09012.
    """
    return 0.5 * (1 + math.erf((np.log10(M_h) - logM_cut) / 1.41421356 / sigma))


@njit(fastmath=True)
def phi_fun(logM_h, logM_cut, sigma):
    """
    Aiding function for N_cen_ELG_v1().
    """
    phi = Gaussian_fun(logM_h, logM_cut, sigma)
    return phi


@njit(fastmath=True)
def Phi_fun(logM_h, logM_cut, sigma, gamma):
    """
    Aiding function for N_cen_ELG_v1().
    """
    x = gamma * (logM_h - logM_cut) / sigma
    Phi = 0.5 * (1 + math.erf(x / np.sqrt(2)))
    return Phi


@njit(fastmath=True)
def Gaussian_fun(x, mean, sigma):
    """
    Gaussian function with centered at `mean' with standard deviation `sigma'.
    """
    return 0.3989422804014327 / sigma * np.exp(-((x - mean) ** 2) / 2 / sigma**2)


@njit(fastmath=True)
def wrap(x, L):
    """Fast scalar mod implementation"""
    L2 = L / 2
    if x >= L2:
        return x - L
    elif x < -L2:
        return x + L
    return x


@njit(parallel=True, fastmath=True)
def gen_cent(
    pos,
    vel,
    mass,
    ids,
    multis,
    randoms,
    vdev,
    deltac,
    fenv,
    shear,
    LRG_hod_dict,
    ELG_hod_dict,
    QSO_hod_dict,
    rsd,
    inv_velz2kms,
    lbox,
    want_LRG,
    want_ELG,
    want_QSO,
    Nthread,
    origin,
):
    """
    Generate central galaxies in place in memory with a two pass numba parallel implementation.
    """

    if want_LRG:
        # parse out the hod parameters
        logM_cut_L, sigma_L = LRG_hod_dict['logM_cut'], LRG_hod_dict['sigma']
        ic_L, alpha_c_L, Ac_L, Bc_L = (
            LRG_hod_dict['ic'],
            LRG_hod_dict['alpha_c'],
            LRG_hod_dict['Acent'],
            LRG_hod_dict['Bcent'],
        )

    if want_ELG:
        pmax_E, Q_E, logM_cut_E, sigma_E, gamma_E = (
            ELG_hod_dict['p_max'],
            ELG_hod_dict['Q'],
            ELG_hod_dict['logM_cut'],
            ELG_hod_dict['sigma'],
            ELG_hod_dict['gamma'],
        )
        alpha_c_E, Ac_E, Bc_E, Cc_E, ic_E = (
            ELG_hod_dict['alpha_c'],
            ELG_hod_dict['Acent'],
            ELG_hod_dict['Bcent'],
            ELG_hod_dict['Ccent'],
            ELG_hod_dict['ic'],
        )

    if want_QSO:
        logM_cut_Q, sigma_Q = QSO_hod_dict['logM_cut'], QSO_hod_dict['sigma']
        alpha_c_Q, Ac_Q, Bc_Q, ic_Q = (
            QSO_hod_dict['alpha_c'],
            QSO_hod_dict['Acent'],
            QSO_hod_dict['Bcent'],
            QSO_hod_dict['ic'],
        )

    H = len(mass)

    numba.set_num_threads(Nthread)
    Nout = np.zeros((Nthread, 3, 8), dtype=np.int64)
    hstart = np.rint(np.linspace(0, H, Nthread + 1)).astype(
        np.int64
    )  # starting index of each thread

    keep = np.empty(H, dtype=np.int8)  # mask array tracking which halos to keep

    # figuring out the number of halos kept for each thread
    for tid in numba.prange(Nthread):
        for i in range(hstart[tid], hstart[tid + 1]):
            # first create the markers between 0 and 1 for different tracers
            LRG_marker = 0
            if want_LRG:
                # do assembly bias and secondary bias
                logM_cut_L_temp = logM_cut_L + Ac_L * deltac[i] + Bc_L * fenv[i]
                LRG_marker += (
                    n_cen_LRG(mass[i], logM_cut_L_temp, sigma_L) * ic_L * multis[i]
                )
            ELG_marker = LRG_marker
            if want_ELG:
                logM_cut_E_temp = (
                    logM_cut_E + Ac_E * deltac[i] + Bc_E * fenv[i] + Cc_E * shear[i]
                )
                ELG_marker += (
                    N_cen_ELG_v1(
                        mass[i], pmax_E, Q_E, logM_cut_E_temp, sigma_E, gamma_E
                    )
                    * ic_E
                    * multis[i]
                )
            QSO_marker = ELG_marker
            if want_QSO:
                logM_cut_Q_temp = logM_cut_Q + Ac_Q * deltac[i] + Bc_Q * fenv[i]
                QSO_marker += (
                    N_cen_QSO(mass[i], logM_cut_Q_temp, sigma_Q) * ic_Q * multis[i]
                )

            # a tracer with an empty slice (zero mean occupation here) hosts nothing,
            # not even for a stored random of exactly 0
            if want_LRG and LRG_marker > 0 and randoms[i] <= LRG_marker:
                Nout[tid, 0, 0] += 1  # counting
                keep[i] = 1
            elif want_ELG and ELG_marker > LRG_marker and randoms[i] <= ELG_marker:
                Nout[tid, 1, 0] += 1  # counting
                keep[i] = 2
            elif want_QSO and QSO_marker > ELG_marker and randoms[i] <= QSO_marker:
                Nout[tid, 2, 0] += 1  # counting
                keep[i] = 3
            else:
                keep[i] = 0

    # compose galaxy array, first create array of galaxy starting indices for the threads
    gstart = np.empty((Nthread + 1, 3), dtype=np.int64)
    gstart[0, :] = 0
    gstart[1:, 0] = Nout[:, 0, 0].cumsum()
    gstart[1:, 1] = Nout[:, 1, 0].cumsum()
    gstart[1:, 2] = Nout[:, 2, 0].cumsum()

    # galaxy arrays
    N_lrg = gstart[-1, 0]
    lrg_x = np.empty(N_lrg, dtype=mass.dtype)
    lrg_y = np.empty(N_lrg, dtype=mass.dtype)
    lrg_z = np.empty(N_lrg, dtype=mass.dtype)
    lrg_vx = np.empty(N_lrg, dtype=mass.dtype)
    lrg_vy = np.empty(N_lrg, dtype=mass.dtype)
    lrg_vz = np.empty(N_lrg, dtype=mass.dtype)
    lrg_mass = np.empty(N_lrg, dtype=mass.dtype)
    lrg_id = np.empty(N_lrg, dtype=ids.dtype)

    # galaxy arrays
    N_elg = gstart[-1, 1]
    elg_x = np.empty(N_elg, dtype=mass.dtype)
    elg_y = np.empty(N_elg, dtype=mass.dtype)
    elg_z = np.empty(N_elg, dtype=mass.dtype)
    elg_vx = np.empty(N_elg, dtype=mass.dtype)
    elg_vy = np.empty(N_elg, dtype=mass.dtype)
    elg_vz = np.empty(N_elg, dtype=mass.dtype)
    elg_mass = np.empty(N_elg, dtype=mass.dtype)
    elg_id = np.empty(N_elg, dtype=ids.dtype)

    # galaxy arrays
    N_qso = gstart[-1, 2]
    qso_x = np.empty(N_qso, dtype=mass.dtype)
    qso_y = np.empty(N_qso, dtype=mass.dtype)
    qso_z = np.empty(N_qso, dtype=mass.dtype)
    qso_vx = np.empty(N_qso, dtype=mass.dtype)
    qso_vy = np.empty(N_qso, dtype=mass.dtype)
    qso_vz = np.empty(N_qso, dtype=mass.dtype)
    qso_mass = np.empty(N_qso, dtype=mass.dtype)
    qso_id = np.empty(N_qso, dtype=ids.dtype)

    # fill in the galaxy arrays
    for tid in numba.prange(Nthread):
        j1, j2, j3 = gstart[tid]
        for i in range(hstart[tid], hstart[tid + 1]):
            if keep[i] == 1:
                # loop thru three directions to assign galaxy velocities and positions
                lrg_x[j1] = pos[i, 0]
                lrg_vx[j1] = vel[i, 0] + alpha_c_L * vdev[i, 0]  # velocity bias
                lrg_y[j1] = pos[i, 1]
                lrg_vy[j1] = vel[i, 1] + alpha_c_L * vdev[i, 1]  # velocity bias
                lrg_z[j1] = pos[i, 2]
                lrg_vz[j1] = vel[i, 2] + alpha_c_L * vdev[i, 2]  # velocity bias
                # rsd only applies to the z direction
                if rsd and origin is not None:
                    nx = lrg_x[j1] - origin[0]
                    ny = lrg_y[j1] - origin[1]
                    nz = lrg_z[j1] - origin[2]
                    inv_norm = 1.0 / np.sqrt(nx * nx + ny * ny + nz * nz)
                    nx *= inv_norm
                    ny *= inv_norm
                    nz *= inv_norm
                    proj = inv_velz2kms * (
                        lrg_vx[j1] * nx + lrg_vy[j1] * ny + lrg_vz[j1] * nz
                    )
                    lrg_x[j1] = lrg_x[j1] + proj * nx
                    lrg_y[j1] = lrg_y[j1] + proj * ny
                    lrg_z[j1] = lrg_z[j1] + proj * nz
                elif rsd:
                    lrg_z[j1] = wrap(pos[i, 2] + lrg_vz[j1] * inv_velz2kms, lbox)
                lrg_mass[j1] = mass[i]
                lrg_id[j1] = ids[i]
                j1 += 1
            elif keep[i] == 2:
                # loop thru three directions to assign galaxy velocities and positions
                elg_x[j2] = pos[i, 0]
                elg_vx[j2] = vel[i, 0] + alpha_c_E * vdev[i, 0]  # velocity bias
                elg_y[j2] = pos[i, 1]
                elg_vy[j2] = vel[i, 1] + alpha_c_E * vdev[i, 1]  # velocity bias
                elg_z[j2] = pos[i, 2]
                elg_vz[j2] = vel[i, 2] + alpha_c_E * vdev[i, 2]  # velocity bias
                # rsd only applies to the z direction
                if rsd and origin is not None:
                    nx = elg_x[j2] - origin[0]
                    ny = elg_y[j2] - origin[1]
                    nz = elg_z[j2] - origin[2]
                    inv_norm = 1.0 / np.sqrt(nx * nx + ny * ny + nz * nz)
                    nx *= inv_norm
                    ny *= inv_norm
                    nz *= inv_norm
                    proj = inv_velz2kms * (
                        elg_vx[j2] * nx + elg_vy[j2] * ny + elg_vz[j2] * nz
                    )
                    elg_x[j2] = elg_x[j2] + proj * nx
                    elg_y[j2] = elg_y[j2] + proj * ny
                    elg_z[j2] = elg_z[j2] + proj * nz
                elif rsd:
                    elg_z[j2] = wrap(pos[i, 2] + elg_vz[j2] * inv_velz2kms, lbox)
                elg_mass[j2] = mass[i]
                elg_id[j2] = ids[i]
                j2 += 1
            elif keep[i] == 3:
                # loop thru three directions to assign galaxy velocities and positions
                qso_x[j3] = pos[i, 0]
                qso_vx[j3] = vel[i, 0] + alpha_c_Q * vdev[i, 0]  # velocity bias
                qso_y[j3] = pos[i, 1]
                qso_vy[j3] = vel[i, 1] + alpha_c_Q * vdev[i, 1]  # velocity bias
                qso_z[j3] = pos[i, 2]
                qso_vz[j3] = vel[i, 2] + alpha_c_Q * vdev[i, 2]  # velocity bias
                # rsd only applies to the z direction
                if rsd and origin is not None:
                    nx = qso_x[j3] - origin[0]
                    ny = qso_y[j3] - origin[1]
                    nz = qso_z[j3] - origin[2]
                    inv_norm = 1.0 / np.sqrt(nx * nx + ny * ny + nz * nz)
                    nx *= inv_norm
                    ny *= inv_norm
                    nz *= inv_norm
                    proj = inv_velz2kms * (
                        qso_vx[j3] * nx + qso_vy[j3] * ny + qso_vz[j3] * nz
                    )
                    qso_x[j3] = qso_x[j3] + proj * nx
                    qso_y[j3] = qso_y[j3] + proj * ny
                    qso_z[j3] = qso_z[j3] + proj * nz
                elif rsd:
                    qso_z[j3] = wrap(pos[i, 2] + qso_vz[j3] * inv_velz2kms, lbox)
                qso_mass[j3] = mass[i]
                qso_id[j3] = ids[i]
                j3 += 1
        # assert j == gstart[tid + 1]

    LRG_dict = Dict.empty(key_type=types.unicode_type, value_type=float_array)
    ELG_dict = Dict.empty(key_type=types.unicode_type, value_type=float_array)
    QSO_dict = Dict.empty(key_type=types.unicode_type, value_type=float_array)
    ID_dict = Dict.empty(key_type=types.unicode_type, value_type=int_array)
    LRG_dict['x'] = lrg_x
    LRG_dict['y'] = lrg_y
    LRG_dict['z'] = lrg_z
    LRG_dict['vx'] = lrg_vx
    LRG_dict['vy'] = lrg_vy
    LRG_dict['vz'] = lrg_vz
    LRG_dict['mass'] = lrg_mass
    ID_dict['LRG'] = lrg_id

    ELG_dict['x'] = elg_x
    ELG_dict['y'] = elg_y
    ELG_dict['z'] = elg_z
    ELG_dict['vx'] = elg_vx
    ELG_dict['vy'] = elg_vy
    ELG_dict['vz'] = elg_vz
    ELG_dict['mass'] = elg_mass
    ID_dict['ELG'] = elg_id

    QSO_dict['x'] = qso_x
    QSO_dict['y'] = qso_y
    QSO_dict['z'] = qso_z
    QSO_dict['vx'] = qso_vx
    QSO_dict['vy'] = qso_vy
    QSO_dict['vz'] = qso_vz
    QSO_dict['mass'] = qso_mass
    ID_dict['QSO'] = qso_id
    return LRG_dict, ELG_dict, QSO_dict, ID_dict, keep


@njit(parallel=True, fastmath=True)
def getPointsOnSphere(nPoints, Nthread, seed=None):
    """
    --- Aiding function for NFW computation, generate random points in a sphere
    """
    numba.set_num_threads(Nthread)
    # starting index of each thread
    hstart = np.rint(np.linspace(0, nPoints, Nthread + 1))
    ur = np.zeros((nPoints, 3), dtype=np.float64)
    cmin = -1
    cmax = +1

    for tid in numba.prange(Nthread):
        if seed is not None:
            np.random.seed(seed[tid])
        for i in range(hstart[tid], hstart[tid + 1]):
            u1, u2 = np.random.uniform(0, 1), np.random.uniform(0, 1)
            ra = 0 + u1 * (2 * np.pi - 0)
            dec = np.pi - (np.arccos(cmin + u2 * (cmax - cmin)))

            ur[i, 0] = np.sin(dec) * np.cos(ra)
            ur[i, 1] = np.sin(dec) * np.sin(ra)
            ur[i, 2] = np.cos(dec)
    return ur


@njit(fastmath=True, parallel=True)  # parallel=True,
def compute_fast_NFW(
    NFW_draw,
    h_id,
    x_h,
    y_h,
    z_h,
    vx_h,
    vy_h,
    vz_h,
    vrms_h,
    c,
    M,
    Rvir,
    rd_pos,
    num_sat,
    f_sigv,
    vel_sat='rd_normal',
    Nthread=16,
    exp_frac=0,
    exp_scale=1,
    nfw_rescale=1,
):
    """
    --- Compute NFW positions and velocities for satelitte galaxies
    c: r98/r25
    vrms_h: 'sigmav3d_L2com'
    """
    # numba.set_num_threads(Nthread)
    # figuring out the number of halos kept for each thread
    h_id = np.repeat(h_id, num_sat)
    M = np.repeat(M, num_sat)
    c = np.repeat(c, num_sat)
    Rvir = np.repeat(Rvir, num_sat)
    x_h = np.repeat(x_h, num_sat)
    y_h = np.repeat(y_h, num_sat)
    z_h = np.repeat(z_h, num_sat)
    vx_h = np.repeat(vx_h, num_sat)
    vy_h = np.repeat(vy_h, num_sat)
    vz_h = np.repeat(vz_h, num_sat)
    vrms_h = np.repeat(vrms_h, num_sat)
    x_sat = np.empty_like(x_h)
    y_sat = np.empty_like(y_h)
    z_sat = np.empty_like(z_h)
    vx_sat = np.empty_like(vx_h)
    vy_sat = np.empty_like(vy_h)
    vz_sat = np.empty_like(vz_h)

    # starting index of each thread
    hstart = np.rint(np.linspace(0, num_sat.sum(), Nthread + 1))
    for tid in numba.prange(Nthread):
        for i in range(int(hstart[tid]), int(hstart[tid + 1])):
            ind = i
            # while (NFW_draw[ind] > c[i]):
            #    ind = np.random.randint(0, len(NFW_draw))
            # etaVir = NFW_draw[ind]/c[i]  # =r/rvir
            if np.random.uniform(0, 1) < exp_frac:
                tt = np.random.exponential(exp_scale, size=1)[0]
                etaVir = tt / c[i]
            else:
                while NFW_draw[ind] > c[i]:
                    ind = np.random.randint(0, len(NFW_draw))
                etaVir = NFW_draw[ind] / c[i] * nfw_rescale

            p = etaVir * Rvir[i]
            x_sat[i] = x_h[i] + rd_pos[i, 0] * p
            y_sat[i] = y_h[i] + rd_pos[i, 1] * p
            z_sat[i] = z_h[i] + rd_pos[i, 2] * p
            if vel_sat == 'rd_normal':
                sig = vrms_h[i] * 0.577 * f_sigv
                vx_sat[i] = np.random.normal(loc=vx_h[i], scale=sig)
                vy_sat[i] = np.random.normal(loc=vy_h[i], scale=sig)
                vz_sat[i] = np.random.normal(loc=vz_h[i], scale=sig)
            else:
                raise ValueError('Wrong vel_sat argument only "rd_normal"')
    return h_id, x_sat, y_sat, z_sat, vx_sat, vy_sat, vz_sat, M


@njit(fastmath=True, parallel=True)
def gen_sats_nfw(
    NFW_draw,
    hpos,
    hvel,
    hmass,
    hid,
    hdeltac,
    hfenv,
    hshear,
    hvrms,
    hc,
    hrvir,
    LRG_hod_dict,
    ELG_hod_dict,
    QSO_hod_dict,
    want_LRG,
    want_ELG,
    want_QSO,
    rsd,
    inv_velz2kms,
    lbox,
    keep_cent,
    vel_sat='rd_normal',
    Nthread=16,
):
    """
    Generate satellite galaxies on an NFW profile, with option for an extended profile. See Rocher et al. 2023.

    Not yet on lightcone!! Different velocity bias treatment!! Not built for performance!!

    """

    if want_LRG:
        logM_cut_L, logM1_L, sigma_L, alpha_L, kappa_L = (
            LRG_hod_dict['logM_cut'],
            LRG_hod_dict['logM1'],
            LRG_hod_dict['sigma'],
            LRG_hod_dict['alpha'],
            LRG_hod_dict['kappa'],
        )
        Ac_L, As_L, Bc_L, Bs_L, ic_L = (
            LRG_hod_dict['Acent'],
            LRG_hod_dict['Asat'],
            LRG_hod_dict['Bcent'],
            LRG_hod_dict['Bsat'],
            LRG_hod_dict['ic'],
        )
        f_sigv_L = LRG_hod_dict['f_sigv']

    if want_ELG:
        logM_cut_E, kappa_E, logM1_E, alpha_E, A_E = (
            ELG_hod_dict['logM_cut'],
            ELG_hod_dict['kappa'],
            ELG_hod_dict['logM1'],
            ELG_hod_dict['alpha'],
            ELG_hod_dict['A_s'],
        )
        (
            Ac_E,
            As_E,
            Bc_E,
            Bs_E,
            Cc_E,
            Cs_E,
            ic_E,
        ) = (
            ELG_hod_dict['Acent'],
            ELG_hod_dict['Asat'],
            ELG_hod_dict['Bcent'],
            ELG_hod_dict['Bsat'],
            ELG_hod_dict['Ccent'],
            ELG_hod_dict['Csat'],
            ELG_hod_dict['ic'],
        )
        logM1_EE, alpha_EE, logM1_EL, alpha_EL = (
            ELG_hod_dict['logM1_EE'],
            ELG_hod_dict['alpha_EE'],
            ELG_hod_dict['logM1_EL'],
            ELG_hod_dict['alpha_EL'],
        )
        f_sigv_E = ELG_hod_dict['f_sigv']
        exp_frac = ELG_hod_dict['exp_frac']
        exp_scale = ELG_hod_dict['exp_scale']
        nfw_rescale = ELG_hod_dict['nfw_rescale']

    if want_QSO:
        logM_cut_Q, kappa_Q, logM1_Q, alpha_Q = (
            QSO_hod_dict['logM_cut'],
            QSO_hod_dict['kappa'],
            QSO_hod_dict['logM1'],
            QSO_hod_dict['alpha'],
        )
        Ac_Q, As_Q, Bc_Q, Bs_Q, ic_Q = (
            QSO_hod_dict['Acent'],
            QSO_hod_dict['Asat'],
            QSO_hod_dict['Bcent'],
            QSO_hod_dict['Bsat'],
            QSO_hod_dict['ic'],
        )
        f_sigv_Q = QSO_hod_dict['f_sigv']

    numba.set_num_threads(Nthread)

    # compute nsate for each halo
    # figuring out the number of particles kept for each thread
    num_sats_L = np.zeros(len(hid), dtype=np.int64)
    num_sats_E = np.zeros(len(hid), dtype=np.int64)
    num_sats_Q = np.zeros(len(hid), dtype=np.int64)
    hstart = np.rint(np.linspace(0, len(hid), Nthread + 1)).astype(
        np.int64
    )  # starting index of each thread
    for tid in range(Nthread):
        for i in range(hstart[tid], hstart[tid + 1]):
            if want_LRG:
                M1_L_temp = 10 ** (logM1_L + As_L * hdeltac[i] + Bs_L * hfenv[i])
                logM_cut_L_temp = logM_cut_L + Ac_L * hdeltac[i] + Bc_L * hfenv[i]
                base_p_L = (
                    n_sat_LRG_modified(
                        hmass[i],
                        logM_cut_L_temp,
                        10**logM_cut_L_temp,
                        M1_L_temp,
                        sigma_L,
                        alpha_L,
                        kappa_L,
                    )
                    * ic_L
                )
                num_sats_L[i] = np.random.poisson(base_p_L)
            if want_ELG:
                M1_E_temp = 10 ** (
                    logM1_E + As_E * hdeltac[i] + Bs_E * hfenv[i] + Cs_E * hshear[i]
                )
                logM_cut_E_temp = (
                    logM_cut_E + Ac_E * hdeltac[i] + Bc_E * hfenv[i] + Cc_E * hshear[i]
                )
                base_p_E = (
                    N_sat_elg(
                        hmass[i], 10**logM_cut_E_temp, kappa_E, M1_E_temp, alpha_E, A_E
                    )
                    * ic_E
                )
                # elg conformity
                if keep_cent[i] == 1:
                    M1_E_temp = 10 ** (
                        logM1_EL
                        + As_E * hdeltac[i]
                        + Bs_E * hfenv[i]
                        + Cs_E * hshear[i]
                    )
                    base_p_E = (
                        N_sat_elg(
                            hmass[i],
                            10**logM_cut_E_temp,
                            kappa_E,
                            M1_E_temp,
                            alpha_EL,
                            A_E,
                        )
                        * ic_E
                    )
                elif keep_cent[i] == 2:
                    M1_E_temp = 10 ** (
                        logM1_EE
                        + As_E * hdeltac[i]
                        + Bs_E * hfenv[i]
                        + Cs_E * hshear[i]
                    )  # M1_E_temp*10**delta_M1
                    base_p_E = (
                        N_sat_elg(
                            hmass[i],
                            10**logM_cut_E_temp,
                            kappa_E,
                            M1_E_temp,
                            alpha_EE,
                            A_E,
                        )
                        * ic_E
                    )
                num_sats_E[i] = np.random.poisson(base_p_E)

            if want_QSO:
                M1_Q_temp = 10 ** (logM1_Q + As_Q * hdeltac[i] + Bs_Q * hfenv[i])
                logM_cut_Q_temp = logM_cut_Q + Ac_Q * hdeltac[i] + Bc_Q * hfenv[i]
                base_p_Q = (
                    N_sat_generic(
                        hmass[i], 10**logM_cut_Q_temp, kappa_Q, M1_Q_temp, alpha_Q
                    )
                    * ic_Q
                )
                num_sats_Q[i] = np.random.poisson(base_p_Q)

    # generate rdpos
    rd_pos_L = getPointsOnSphere(np.sum(num_sats_L), Nthread)
    rd_pos_E = getPointsOnSphere(np.sum(num_sats_E), Nthread)
    rd_pos_Q = getPointsOnSphere(np.sum(num_sats_Q), Nthread)

    # put satellites on NFW
    h_id_L, x_sat_L, y_sat_L, z_sat_L, vx_sat_L, vy_sat_L, vz_sat_L, M_L = (
        compute_fast_NFW(
            NFW_draw,
            hid,
            hpos[:, 0],
            hpos[:, 1],
            hpos[:, 2],
            hvel[:, 0],
            hvel[:, 1],
            hvel[:, 2],
            hvrms,
            hc,
            hmass,
            hrvir,
            rd_pos_L,
            num_sats_L,
            f_sigv_L,
            vel_sat,
            Nthread,
            exp_frac,
            exp_scale,
            nfw_rescale,
        )
    )
    h_id_E, x_sat_E, y_sat_E, z_sat_E, vx_sat_E, vy_sat_E, vz_sat_E, M_E = (
        compute_fast_NFW(
            NFW_draw,
            hid,
            hpos[:, 0],
            hpos[:, 1],
            hpos[:, 2],
            hvel[:, 0],
            hvel[:, 1],
            hvel[:, 2],
            hvrms,
            hc,
            hmass,
            hrvir,
            rd_pos_E,
            num_sats_E,
            f_sigv_E,
            vel_sat,
            Nthread,
            exp_frac,
            exp_scale,
            nfw_rescale,
        )
    )
    h_id_Q, x_sat_Q, y_sat_Q, z_sat_Q, vx_sat_Q, vy_sat_Q, vz_sat_Q, M_Q = (
        compute_fast_NFW(
            NFW_draw,
            hid,
            hpos[:, 0],
            hpos[:, 1],
            hpos[:, 2],
            hvel[:, 0],
            hvel[:, 1],
            hvel[:, 2],
            hvrms,
            hc,
            hmass,
            hrvir,
            rd_pos_Q,
            num_sats_Q,
            f_sigv_Q,
            vel_sat,
            Nthread,
            exp_frac,
            exp_scale,
            nfw_rescale,
        )
    )
    # do rsd
    if rsd:
        z_sat_L = (z_sat_L + vz_sat_L * inv_velz2kms) % lbox
        z_sat_E = (z_sat_E + vz_sat_E * inv_velz2kms) % lbox
        z_sat_Q = (z_sat_Q + vz_sat_Q * inv_velz2kms) % lbox

    LRG_dict = Dict.empty(key_type=types.unicode_type, value_type=float_array)
    ELG_dict = Dict.empty(key_type=types.unicode_type, value_type=float_array)
    QSO_dict = Dict.empty(key_type=types.unicode_type, value_type=float_array)
    ID_dict = Dict.empty(key_type=types.unicode_type, value_type=int_array)
    LRG_dict['x'] = x_sat_L
    LRG_dict['y'] = y_sat_L
    LRG_dict['z'] = z_sat_L
    LRG_dict['vx'] = vx_sat_L
    LRG_dict['vy'] = vy_sat_L
    LRG_dict['vz'] = vz_sat_L
    LRG_dict['mass'] = M_L
    ID_dict['LRG'] = h_id_L

    ELG_dict['x'] = x_sat_E
    ELG_dict['y'] = y_sat_E
    ELG_dict['z'] = z_sat_E
    ELG_dict['vx'] = vx_sat_E
    ELG_dict['vy'] = vy_sat_E
    ELG_dict['vz'] = vz_sat_E
    ELG_dict['mass'] = M_E
    ID_dict['ELG'] = h_id_E

    QSO_dict['x'] = x_sat_Q
    QSO_dict['y'] = y_sat_Q
    QSO_dict['z'] = z_sat_Q
    QSO_dict['vx'] = vx_sat_Q
    QSO_dict['vy'] = vy_sat_Q
    QSO_dict['vz'] = vz_sat_Q
    QSO_dict['mass'] = M_Q
    ID_dict['QSO'] = h_id_Q

    return LRG_dict, ELG_dict, QSO_dict, ID_dict


@njit(parallel=True, fastmath=True)
def gen_sats(
    ppos,
    pvel,
    hvel,
    hmass,
    hid,
    weights,
    randoms,
    hdeltac,
    hfenv,
    hshear,
    enable_ranks,
    ranks,
    ranksv,
    ranksp,
    ranksr,
    ranksc,
    LRG_hod_dict,
    ELG_hod_dict,
    QSO_hod_dict,
    rsd,
    inv_velz2kms,
    lbox,
    Mpart,
    want_LRG,
    want_ELG,
    want_QSO,
    Nthread,
    origin,
    keep_cent,
):
    """
    Generate satellite galaxies in place in memory with a two pass numba parallel implementation.
    """

    if want_LRG:
        logM_cut_L, logM1_L, sigma_L, alpha_L, kappa_L = (
            LRG_hod_dict['logM_cut'],
            LRG_hod_dict['logM1'],
            LRG_hod_dict['sigma'],
            LRG_hod_dict['alpha'],
            LRG_hod_dict['kappa'],
        )
        alpha_s_L, s_L, s_v_L, s_p_L, s_r_L, Ac_L, As_L, Bc_L, Bs_L, ic_L = (
            LRG_hod_dict['alpha_s'],
            LRG_hod_dict['s'],
            LRG_hod_dict['s_v'],
            LRG_hod_dict['s_p'],
            LRG_hod_dict['s_r'],
            LRG_hod_dict['Acent'],
            LRG_hod_dict['Asat'],
            LRG_hod_dict['Bcent'],
            LRG_hod_dict['Bsat'],
            LRG_hod_dict['ic'],
        )

    if want_ELG:
        logM_cut_E, kappa_E, logM1_E, alpha_E, A_E = (
            ELG_hod_dict['logM_cut'],
            ELG_hod_dict['kappa'],
            ELG_hod_dict['logM1'],
            ELG_hod_dict['alpha'],
            ELG_hod_dict['A_s'],
        )
        (
            alpha_s_E,
            s_E,
            s_v_E,
            s_p_E,
            s_r_E,
            Ac_E,
            As_E,
            Bc_E,
            Bs_E,
            Cc_E,
            Cs_E,
            ic_E,
            logM1_EE,
            alpha_EE,
            logM1_EL,
            alpha_EL,
        ) = (
            ELG_hod_dict['alpha_s'],
            ELG_hod_dict['s'],
            ELG_hod_dict['s_v'],
            ELG_hod_dict['s_p'],
            ELG_hod_dict['s_r'],
            ELG_hod_dict['Acent'],
            ELG_hod_dict['Asat'],
            ELG_hod_dict['Bcent'],
            ELG_hod_dict['Bsat'],
            ELG_hod_dict['Ccent'],
            ELG_hod_dict['Csat'],
            ELG_hod_dict['ic'],
            ELG_hod_dict['logM1_EE'],
            ELG_hod_dict['alpha_EE'],
            ELG_hod_dict['logM1_EL'],
            ELG_hod_dict['alpha_EL'],
        )

    if want_QSO:
        logM_cut_Q, kappa_Q, logM1_Q, alpha_Q = (
            QSO_hod_dict['logM_cut'],
            QSO_hod_dict['kappa'],
            QSO_hod_dict['logM1'],
            QSO_hod_dict['alpha'],
        )
        alpha_s_Q, s_Q, s_v_Q, s_p_Q, s_r_Q, Ac_Q, As_Q, Bc_Q, Bs_Q, ic_Q = (
            QSO_hod_dict['alpha_s'],
            QSO_hod_dict['s'],
            QSO_hod_dict['s_v'],
            QSO_hod_dict['s_p'],
            QSO_hod_dict['s_r'],
            QSO_hod_dict['Acent'],
            QSO_hod_dict['Asat'],
            QSO_hod_dict['Bcent'],
            QSO_hod_dict['Bsat'],
            QSO_hod_dict['ic'],
        )

    H = len(hmass)  # num of particles

    numba.set_num_threads(Nthread)
    Nout = np.zeros((Nthread, 3, 8), dtype=np.int64)
    hstart = np.rint(np.linspace(0, H, Nthread + 1)).astype(
        np.int64
    )  # starting index of each thread

    keep = np.empty(H, dtype=np.int8)  # mask array tracking which halos to keep

    # figuring out the number of particles kept for each thread
    for tid in numba.prange(Nthread):  # numba.prange(Nthread):
        for i in range(hstart[tid], hstart[tid + 1]):
            # print(logM1, As, hdeltac[i], Bs, hfenv[i])
            LRG_marker = 0
            if want_LRG:
                M1_L_temp = 10 ** (logM1_L + As_L * hdeltac[i] + Bs_L * hfenv[i])
                logM_cut_L_temp = logM_cut_L + Ac_L * hdeltac[i] + Bc_L * hfenv[i]
                base_p_L = (
                    n_sat_LRG_modified(
                        hmass[i],
                        logM_cut_L_temp,
                        10**logM_cut_L_temp,
                        M1_L_temp,
                        sigma_L,
                        alpha_L,
                        kappa_L,
                    )
                    * weights[i]
                    * ic_L
                )
                if enable_ranks:
                    decorator_L = (
                        1
                        + s_L * ranks[i]
                        + s_v_L * ranksv[i]
                        + s_p_L * ranksp[i]
                        + s_r_L * ranksr[i]
                    )
                    exp_sat = base_p_L * decorator_L
                else:
                    exp_sat = base_p_L
                LRG_marker += exp_sat

            ELG_marker = LRG_marker
            if want_ELG:
                M1_E_temp = 10 ** (
                    logM1_E + As_E * hdeltac[i] + Bs_E * hfenv[i] + Cs_E * hshear[i]
                )
                logM_cut_E_temp = (
                    logM_cut_E + Ac_E * hdeltac[i] + Bc_E * hfenv[i] + Cc_E * hshear[i]
                )
                base_p_E = (
                    N_sat_elg(
                        hmass[i], 10**logM_cut_E_temp, kappa_E, M1_E_temp, alpha_E, A_E
                    )
                    * weights[i]
                    * ic_E
                )
                # elg conformity
                if keep_cent[i] == 1:
                    M1_E_temp = 10 ** (
                        logM1_EL
                        + As_E * hdeltac[i]
                        + Bs_E * hfenv[i]
                        + Cs_E * hshear[i]
                    )
                    base_p_E = (
                        N_sat_elg(
                            hmass[i],
                            10**logM_cut_E_temp,
                            kappa_E,
                            M1_E_temp,
                            alpha_EL,
                            A_E,
                        )
                        * weights[i]
                        * ic_E
                    )
                elif keep_cent[i] == 2:
                    M1_E_temp = 10 ** (
                        logM1_EE
                        + As_E * hdeltac[i]
                        + Bs_E * hfenv[i]
                        + Cs_E * hshear[i]
                    )  # M1_E_temp*10**delta_M1
                    base_p_E = (
                        N_sat_elg(
                            hmass[i],
                            10**logM_cut_E_temp,
                            kappa_E,
                            M1_E_temp,
                            alpha_EE,
                            A_E,
                        )
                        * weights[i]
                        * ic_E
                    )

                    # if base_p_E > 1:
                    #     print("ExE new p", base_p_E, np.log10(hmass[i]), N_sat_elg(
                    #     hmass[i], 10**logM_cut_E_temp, kappa_E, M1_E_temp, alpha_E_temp, A_E, alpha1, beta), weights[i], ic_E)

                # rank mods
                if enable_ranks:
                    decorator_E = (
                        1
                        + s_E * ranks[i]
                        + s_v_E * ranksv[i]
                        + s_p_E * ranksp[i]
                        + s_r_E * ranksr[i]
                    )
                    base_p_E = base_p_E * decorator_E

                ELG_marker += base_p_E

            QSO_marker = ELG_marker
            if want_QSO:
                M1_Q_temp = 10 ** (logM1_Q + As_Q * hdeltac[i] + Bs_Q * hfenv[i])
                logM_cut_Q_temp = logM_cut_Q + Ac_Q * hdeltac[i] + Bc_Q * hfenv[i]
                base_p_Q = (
                    N_sat_generic(
                        hmass[i], 10**logM_cut_Q_temp, kappa_Q, M1_Q_temp, alpha_Q
                    )
                    * weights[i]
                    * ic_Q
                )
                if enable_ranks:
                    decorator_Q = (
                        1
                        + s_Q * ranks[i]
                        + s_v_Q * ranksv[i]
                        + s_p_Q * ranksp[i]
                        + s_r_Q * ranksr[i]
                    )
                    exp_sat = base_p_Q * decorator_Q
                else:
                    exp_sat = base_p_Q
                QSO_marker += exp_sat

            # a tracer with an empty slice (zero mean occupation here) hosts nothing,
            # not even for a stored random of exactly 0
            if want_LRG and LRG_marker > 0 and randoms[i] <= LRG_marker:
                Nout[tid, 0, 0] += 1  # counting
                keep[i] = 1
            elif want_ELG and ELG_marker > LRG_marker and randoms[i] <= ELG_marker:
                Nout[tid, 1, 0] += 1  # counting
                keep[i] = 2
            elif want_QSO and QSO_marker > ELG_marker and randoms[i] <= QSO_marker:
                Nout[tid, 2, 0] += 1  # counting
                keep[i] = 3
            else:
                keep[i] = 0

    # compose galaxy array, first create array of galaxy starting indices for the threads
    gstart = np.empty((Nthread + 1, 3), dtype=np.int64)
    gstart[0, :] = 0
    gstart[1:, 0] = Nout[:, 0, 0].cumsum()
    gstart[1:, 1] = Nout[:, 1, 0].cumsum()
    gstart[1:, 2] = Nout[:, 2, 0].cumsum()

    # galaxy arrays
    N_lrg = gstart[-1, 0]
    lrg_x = np.empty(N_lrg, dtype=hmass.dtype)
    lrg_y = np.empty(N_lrg, dtype=hmass.dtype)
    lrg_z = np.empty(N_lrg, dtype=hmass.dtype)
    lrg_vx = np.empty(N_lrg, dtype=hmass.dtype)
    lrg_vy = np.empty(N_lrg, dtype=hmass.dtype)
    lrg_vz = np.empty(N_lrg, dtype=hmass.dtype)
    lrg_mass = np.empty(N_lrg, dtype=hmass.dtype)
    lrg_id = np.empty(N_lrg, dtype=hid.dtype)

    # galaxy arrays
    N_elg = gstart[-1, 1]
    elg_x = np.empty(N_elg, dtype=hmass.dtype)
    elg_y = np.empty(N_elg, dtype=hmass.dtype)
    elg_z = np.empty(N_elg, dtype=hmass.dtype)
    elg_vx = np.empty(N_elg, dtype=hmass.dtype)
    elg_vy = np.empty(N_elg, dtype=hmass.dtype)
    elg_vz = np.empty(N_elg, dtype=hmass.dtype)
    elg_mass = np.empty(N_elg, dtype=hmass.dtype)
    elg_id = np.empty(N_elg, dtype=hid.dtype)

    # galaxy arrays
    N_qso = gstart[-1, 2]
    qso_x = np.empty(N_qso, dtype=hmass.dtype)
    qso_y = np.empty(N_qso, dtype=hmass.dtype)
    qso_z = np.empty(N_qso, dtype=hmass.dtype)
    qso_vx = np.empty(N_qso, dtype=hmass.dtype)
    qso_vy = np.empty(N_qso, dtype=hmass.dtype)
    qso_vz = np.empty(N_qso, dtype=hmass.dtype)
    qso_mass = np.empty(N_qso, dtype=hmass.dtype)
    qso_id = np.empty(N_qso, dtype=hid.dtype)

    # fill in the galaxy arrays
    for tid in numba.prange(Nthread):
        j1, j2, j3 = gstart[tid]
        for i in range(hstart[tid], hstart[tid + 1]):
            if keep[i] == 1:
                lrg_x[j1] = ppos[i, 0]
                lrg_vx[j1] = hvel[i, 0] + alpha_s_L * (
                    pvel[i, 0] - hvel[i, 0]
                )  # velocity bias
                lrg_y[j1] = ppos[i, 1]
                lrg_vy[j1] = hvel[i, 1] + alpha_s_L * (
                    pvel[i, 1] - hvel[i, 1]
                )  # velocity bias
                lrg_z[j1] = ppos[i, 2]
                lrg_vz[j1] = hvel[i, 2] + alpha_s_L * (
                    pvel[i, 2] - hvel[i, 2]
                )  # velocity bias
                if rsd and origin is not None:
                    nx = lrg_x[j1] - origin[0]
                    ny = lrg_y[j1] - origin[1]
                    nz = lrg_z[j1] - origin[2]
                    inv_norm = 1.0 / np.sqrt(nx * nx + ny * ny + nz * nz)
                    nx *= inv_norm
                    ny *= inv_norm
                    nz *= inv_norm
                    proj = inv_velz2kms * (
                        lrg_vx[j1] * nx + lrg_vy[j1] * ny + lrg_vz[j1] * nz
                    )
                    lrg_x[j1] = lrg_x[j1] + proj * nx
                    lrg_y[j1] = lrg_y[j1] + proj * ny
                    lrg_z[j1] = lrg_z[j1] + proj * nz
                elif rsd:
                    lrg_z[j1] = wrap(lrg_z[j1] + lrg_vz[j1] * inv_velz2kms, lbox)
                lrg_mass[j1] = hmass[i]
                lrg_id[j1] = hid[i]
                j1 += 1
            elif keep[i] == 2:
                elg_x[j2] = ppos[i, 0]
                elg_vx[j2] = hvel[i, 0] + alpha_s_E * (
                    pvel[i, 0] - hvel[i, 0]
                )  # velocity bias
                elg_y[j2] = ppos[i, 1]
                elg_vy[j2] = hvel[i, 1] + alpha_s_E * (
                    pvel[i, 1] - hvel[i, 1]
                )  # velocity bias
                elg_z[j2] = ppos[i, 2]
                elg_vz[j2] = hvel[i, 2] + alpha_s_E * (
                    pvel[i, 2] - hvel[i, 2]
                )  # velocity bias
                if rsd and origin is not None:
                    nx = elg_x[j2] - origin[0]
                    ny = elg_y[j2] - origin[1]
                    nz = elg_z[j2] - origin[2]
                    inv_norm = 1.0 / np.sqrt(nx * nx + ny * ny + nz * nz)
                    nx *= inv_norm
                    ny *= inv_norm
                    nz *= inv_norm
                    proj = inv_velz2kms * (
                        elg_vx[j2] * nx + elg_vy[j2] * ny + elg_vz[j2] * nz
                    )
                    elg_x[j2] = elg_x[j2] + proj * nx
                    elg_y[j2] = elg_y[j2] + proj * ny
                    elg_z[j2] = elg_z[j2] + proj * nz
                elif rsd:
                    elg_z[j2] = wrap(elg_z[j2] + elg_vz[j2] * inv_velz2kms, lbox)
                elg_mass[j2] = hmass[i]
                elg_id[j2] = hid[i]
                j2 += 1
            elif keep[i] == 3:
                qso_x[j3] = ppos[i, 0]
                qso_vx[j3] = hvel[i, 0] + alpha_s_Q * (
                    pvel[i, 0] - hvel[i, 0]
                )  # velocity bias
                qso_y[j3] = ppos[i, 1]
                qso_vy[j3] = hvel[i, 1] + alpha_s_Q * (
                    pvel[i, 1] - hvel[i, 1]
                )  # velocity bias
                qso_z[j3] = ppos[i, 2]
                qso_vz[j3] = hvel[i, 2] + alpha_s_Q * (
                    pvel[i, 2] - hvel[i, 2]
                )  # velocity bias
                if rsd and origin is not None:
                    nx = qso_x[j3] - origin[0]
                    ny = qso_y[j3] - origin[1]
                    nz = qso_z[j3] - origin[2]
                    inv_norm = 1.0 / np.sqrt(nx * nx + ny * ny + nz * nz)
                    nx *= inv_norm
                    ny *= inv_norm
                    nz *= inv_norm
                    proj = inv_velz2kms * (
                        qso_vx[j3] * nx + qso_vy[j3] * ny + qso_vz[j3] * nz
                    )
                    qso_x[j3] = qso_x[j3] + proj * nx
                    qso_y[j3] = qso_y[j3] + proj * ny
                    qso_z[j3] = qso_z[j3] + proj * nz
                elif rsd:
                    qso_z[j3] = wrap(qso_z[j3] + qso_vz[j3] * inv_velz2kms, lbox)
                qso_mass[j3] = hmass[i]
                qso_id[j3] = hid[i]
                j3 += 1
        # assert j == gstart[tid + 1]

    LRG_dict = Dict.empty(key_type=types.unicode_type, value_type=float_array)
    ELG_dict = Dict.empty(key_type=types.unicode_type, value_type=float_array)
    QSO_dict = Dict.empty(key_type=types.unicode_type, value_type=float_array)
    ID_dict = Dict.empty(key_type=types.unicode_type, value_type=int_array)
    LRG_dict['x'] = lrg_x
    LRG_dict['y'] = lrg_y
    LRG_dict['z'] = lrg_z
    LRG_dict['vx'] = lrg_vx
    LRG_dict['vy'] = lrg_vy
    LRG_dict['vz'] = lrg_vz
    LRG_dict['mass'] = lrg_mass
    ID_dict['LRG'] = lrg_id

    ELG_dict['x'] = elg_x
    ELG_dict['y'] = elg_y
    ELG_dict['z'] = elg_z
    ELG_dict['vx'] = elg_vx
    ELG_dict['vy'] = elg_vy
    ELG_dict['vz'] = elg_vz
    ELG_dict['mass'] = elg_mass
    ID_dict['ELG'] = elg_id

    QSO_dict['x'] = qso_x
    QSO_dict['y'] = qso_y
    QSO_dict['z'] = qso_z
    QSO_dict['vx'] = qso_vx
    QSO_dict['vy'] = qso_vy
    QSO_dict['vz'] = qso_vz
    QSO_dict['mass'] = qso_mass
    ID_dict['QSO'] = qso_id
    return LRG_dict, ELG_dict, QSO_dict, ID_dict


@njit(parallel=True, fastmath=True)
def fast_concatenate(array1, array2, Nthread):
    """Fast concatenate with numba parallel"""

    N1 = len(array1)
    N2 = len(array2)
    if N1 == 0:
        return array2
    elif N2 == 0:
        return array1

    final_array = np.empty(N1 + N2, dtype=array1.dtype)
    # if one thread, then no need to parallel
    if Nthread == 1:
        for i in range(N1):
            final_array[i] = array1[i]
        for j in range(N2):
            final_array[j + N1] = array2[j]
        return final_array

    numba.set_num_threads(Nthread)
    Nthread1 = max(1, int(np.floor(Nthread * N1 / (N1 + N2))))
    Nthread2 = Nthread - Nthread1
    hstart1 = np.rint(np.linspace(0, N1, Nthread1 + 1)).astype(np.int64)
    hstart2 = np.rint(np.linspace(0, N2, Nthread2 + 1)).astype(np.int64) + N1

    for tid in numba.prange(Nthread):  # numba.prange(Nthread):
        if tid < Nthread1:
            for i in range(hstart1[tid], hstart1[tid + 1]):
                final_array[i] = array1[i]
        else:
            for i in range(hstart2[tid - Nthread1], hstart2[tid + 1 - Nthread1]):
                final_array[i] = array2[i - N1]
    # final_array = np.concatenate((array1, array2))
    return final_array


def gen_gals(
    halos_array,
    subsample,
    tracers,
    params,
    Nthread,
    enable_ranks,
    rsd,
    verbose,
    nfw,
    NFW_draw=None,
):
    """
    parse hod parameters, pass them on to central and satellite generators
    and then format the results

    Parameters
    ----------

    halos_array : dictionary of arrays
        a dictionary of halo properties (pos, vel, mass, id, randoms, ...)

    subsample : dictionary of arrays
        a dictionary of particle propoerties (pos, vel, hmass, hid, Np, subsampling, randoms, ...)

    tracers : dictionary of dictionaries
        Dictionary of multi-tracer HODs

    enable_ranks : boolean
        Flag of whether to implement particle ranks.

    rsd : boolean
        Flag of whether to implement RSD.

    params : dict
        Dictionary of various simulation parameters.

    """

    # B.H. TODO: pass as dictionary; make what's below more succinct
    for tracer in tracers.keys():
        if tracer == 'LRG':
            LRG_HOD = tracers[tracer]
        if tracer == 'ELG':
            ELG_HOD = tracers[tracer]
        if tracer == 'QSO':
            QSO_HOD = tracers[tracer]

    if 'LRG' in tracers.keys():
        want_LRG = True

        LRG_hod_dict = nb.typed.Dict.empty(
            key_type=nb.types.unicode_type, value_type=nb.types.float64
        )
        for key, value in LRG_HOD.items():
            LRG_hod_dict[key] = value

        # LRG design and decorations
        logM_cut_L, logM1_L = map(LRG_HOD.get, ('logM_cut', 'logM1'))
        # z-evolving HOD
        Delta_a = 1.0 / (1 + params['z']) - 1.0 / (
            1 + LRG_HOD.get('z_pivot', params['z'])
        )
        logM_cut_pr = LRG_HOD.get('logM_cut_pr', 0.0)
        logM1_pr = LRG_HOD.get('logM1_pr', 0.0)
        logM_cut_L = logM_cut_L + logM_cut_pr * Delta_a
        logM1_L = logM1_L + logM1_pr * Delta_a

        LRG_hod_dict['logM_cut'] = logM_cut_L
        LRG_hod_dict['logM1'] = logM1_L

        LRG_hod_dict['Acent'] = LRG_HOD.get('Acent', 0.0)
        LRG_hod_dict['Asat'] = LRG_HOD.get('Asat', 0.0)
        LRG_hod_dict['Bcent'] = LRG_HOD.get('Bcent', 0.0)
        LRG_hod_dict['Bsat'] = LRG_HOD.get('Bsat', 0.0)
        LRG_hod_dict['ic'] = LRG_HOD.get('ic', 1.0)

        LRG_hod_dict['f_sigv'] = LRG_HOD.get('f_sigv', 0)

    else:
        want_LRG = False
        LRG_hod_dict = nb.typed.Dict.empty(
            key_type=nb.types.unicode_type, value_type=nb.types.float64
        )

    if 'ELG' in tracers.keys():
        # ELG design
        want_ELG = True

        ELG_hod_dict = nb.typed.Dict.empty(
            key_type=nb.types.unicode_type, value_type=nb.types.float64
        )
        for key, value in ELG_HOD.items():
            ELG_hod_dict[key] = value

        logM_cut_E, logM1_E = map(ELG_HOD.get, ('logM_cut', 'logM1'))

        # z-evolving HOD
        Delta_a = 1.0 / (1 + params['z']) - 1.0 / (
            1 + ELG_HOD.get('z_pivot', params['z'])
        )
        logM_cut_pr = ELG_HOD.get('logM_cut_pr', 0.0)
        logM1_pr = ELG_HOD.get('logM1_pr', 0.0)
        logM_cut_E = logM_cut_E + logM_cut_pr * Delta_a
        logM1_E = logM1_E + logM1_pr * Delta_a

        ELG_hod_dict['logM_cut'] = logM_cut_E
        ELG_hod_dict['logM1'] = logM1_E

        ELG_hod_dict['Acent'] = ELG_HOD.get('Acent', 0.0)
        ELG_hod_dict['Asat'] = ELG_HOD.get('Asat', 0.0)
        ELG_hod_dict['Bcent'] = ELG_HOD.get('Bcent', 0.0)
        ELG_hod_dict['Bsat'] = ELG_HOD.get('Bsat', 0.0)
        ELG_hod_dict['Ccent'] = ELG_HOD.get('Ccent', 0.0)
        ELG_hod_dict['Csat'] = ELG_HOD.get('Csat', 0.0)
        ELG_hod_dict['ic'] = ELG_HOD.get('ic', 1.0)
        ELG_hod_dict['logM1_EE'] = ELG_HOD.get('logM1_EE', ELG_hod_dict['logM1'])
        ELG_hod_dict['alpha_EE'] = ELG_HOD.get('alpha_EE', ELG_hod_dict['alpha'])
        ELG_hod_dict['logM1_EL'] = ELG_HOD.get('logM1_EL', ELG_hod_dict['logM1'])
        ELG_hod_dict['alpha_EL'] = ELG_HOD.get('alpha_EL', ELG_hod_dict['alpha'])

        ELG_hod_dict['f_sigv'] = ELG_HOD.get('f_sigv', 0)
        ELG_hod_dict['exp_frac'] = ELG_HOD.get('exp_frac', 0)
        ELG_hod_dict['exp_scale'] = ELG_HOD.get('exp_scale', 1)
        ELG_hod_dict['nfw_rescale'] = ELG_HOD.get('nfw_rescale', 1)

    else:
        want_ELG = False
        ELG_hod_dict = nb.typed.Dict.empty(
            key_type=nb.types.unicode_type, value_type=nb.types.float64
        )

    if 'QSO' in tracers.keys():
        # QSO design
        want_QSO = True
        QSO_hod_dict = nb.typed.Dict.empty(
            key_type=nb.types.unicode_type, value_type=nb.types.float64
        )
        for key, value in QSO_HOD.items():
            QSO_hod_dict[key] = value

        logM_cut_Q, logM1_Q = map(QSO_HOD.get, ('logM_cut', 'logM1'))
        # z-evolving HOD
        Delta_a = 1.0 / (1 + params['z']) - 1.0 / (
            1 + QSO_HOD.get('z_pivot', params['z'])
        )
        logM_cut_pr = QSO_HOD.get('logM_cut_pr', 0.0)
        logM1_pr = QSO_HOD.get('logM1_pr', 0.0)
        logM_cut_Q = logM_cut_Q + logM_cut_pr * Delta_a
        logM1_Q = logM1_Q + logM1_pr * Delta_a

        QSO_hod_dict['logM_cut'] = logM_cut_Q
        QSO_hod_dict['logM1'] = logM1_Q

        QSO_hod_dict['Acent'] = QSO_HOD.get('Acent', 0.0)
        QSO_hod_dict['Asat'] = QSO_HOD.get('Asat', 0.0)
        QSO_hod_dict['Bcent'] = QSO_HOD.get('Bcent', 0.0)
        QSO_hod_dict['Bsat'] = QSO_HOD.get('Bsat', 0.0)
        QSO_hod_dict['ic'] = QSO_HOD.get('ic', 1.0)

        QSO_hod_dict['f_sigv'] = QSO_HOD.get('f_sigv', 0)

    else:
        want_QSO = False
        QSO_hod_dict = nb.typed.Dict.empty(
            key_type=nb.types.unicode_type, value_type=nb.types.float64
        )

    start = time.time()

    velz2kms = params['velz2kms']
    inv_velz2kms = 1 / velz2kms
    lbox = params['Lbox']
    origin = params['origin']

    LRG_dict_cent, ELG_dict_cent, QSO_dict_cent, ID_dict_cent, keep_cent = gen_cent(
        halos_array['hpos'],
        halos_array['hvel'],
        halos_array['hmass'],
        halos_array['hid'],
        halos_array['hmultis'],
        halos_array['hrandoms'],
        halos_array['hveldev'],
        halos_array.get('hdeltac', np.zeros(len(halos_array['hmass']))),
        halos_array.get('hfenv', np.zeros(len(halos_array['hmass']))),
        halos_array.get('hshear', np.zeros(len(halos_array['hmass']))),
        LRG_hod_dict,
        ELG_hod_dict,
        QSO_hod_dict,
        rsd,
        inv_velz2kms,
        lbox,
        want_LRG,
        want_ELG,
        want_QSO,
        Nthread,
        origin,
    )
    if verbose:
        print('generating centrals took ', time.time() - start)

    start = time.time()
    if nfw:
        warnings.warn(
            'NFW profile is unoptimized. It has different velocity bias. It does not support lightcone.'
        )
        LRG_dict_sat, ELG_dict_sat, QSO_dict_sat, ID_dict_sat = gen_sats_nfw(
            NFW_draw,
            halos_array['hpos'],
            halos_array['hvel'],
            halos_array['hmass'],
            halos_array['hid'],
            halos_array.get('hdeltac', np.zeros(len(halos_array['hmass']))),
            halos_array.get('hfenv', np.zeros(len(halos_array['hmass']))),
            halos_array.get('hshear', np.zeros(len(halos_array['hmass']))),
            halos_array['hsigma3d'],
            halos_array['hc'],
            halos_array['hrvir'],
            LRG_hod_dict,
            ELG_hod_dict,
            QSO_hod_dict,
            want_LRG,
            want_ELG,
            want_QSO,
            rsd,
            inv_velz2kms,
            lbox,
            keep_cent,
            Nthread=Nthread,
        )
    else:
        LRG_dict_sat, ELG_dict_sat, QSO_dict_sat, ID_dict_sat = gen_sats(
            subsample['ppos'],
            subsample['pvel'],
            subsample['phvel'],
            subsample['phmass'],
            subsample['phid'],
            subsample['pweights'],
            subsample['prandoms'],
            subsample.get('pdeltac', np.zeros(len(subsample['phid']))),
            subsample.get('pfenv', np.zeros(len(subsample['phid']))),
            subsample.get('pshear', np.zeros(len(subsample['phid']))),
            enable_ranks,
            subsample['pranks'],
            subsample['pranksv'],
            subsample['pranksp'],
            subsample['pranksr'],
            subsample['pranksc'],
            LRG_hod_dict,
            ELG_hod_dict,
            QSO_hod_dict,
            rsd,
            inv_velz2kms,
            lbox,
            params['Mpart'],
            want_LRG,
            want_ELG,
            want_QSO,
            Nthread,
            origin,
            keep_cent[subsample['pinds']],
        )
    if verbose:
        print('generating satellites took ', time.time() - start)

    # B.H. TODO: need a for loop above so we don't need to do this by hand
    HOD_dict_sat = {'LRG': LRG_dict_sat, 'ELG': ELG_dict_sat, 'QSO': QSO_dict_sat}
    HOD_dict_cent = {'LRG': LRG_dict_cent, 'ELG': ELG_dict_cent, 'QSO': QSO_dict_cent}

    # do a concatenate in numba parallel
    start = time.time()
    HOD_dict = {}
    for tracer in tracers:
        tracer_dict = {'Ncent': len(HOD_dict_cent[tracer]['x'])}
        for k in HOD_dict_cent[tracer]:
            tracer_dict[k] = fast_concatenate(
                HOD_dict_cent[tracer][k], HOD_dict_sat[tracer][k], Nthread
            )
        tracer_dict['id'] = fast_concatenate(
            ID_dict_cent[tracer], ID_dict_sat[tracer], Nthread
        )
        if verbose:
            print(tracer, 'number of galaxies ', len(tracer_dict['x']))
            print(
                'satellite fraction ',
                len(HOD_dict_sat[tracer]['x']) / len(tracer_dict['x']),
            )
        HOD_dict[tracer] = tracer_dict
    if verbose:
        print('organizing outputs took ', time.time() - start)
    return HOD_dict


def gen_gal_cat(
    halo_data,
    particle_data,
    tracers,
    params,
    Nthread=16,
    enable_ranks=False,
    rsd=True,
    nfw=False,
    NFW_draw=None,
    write_to_disk=False,
    savedir='./',
    verbose=False,
    fn_ext=None,
):
    """
    pass on inputs to the gen_gals function and takes care of I/O

    Parameters
    ----------

    halos_data : dictionary of arrays
        a dictionary of halo properties (pos, vel, mass, id, randoms, ...)

    particle_data : dictionary of arrays
        a dictionary of particle propoerties (pos, vel, hmass, hid, Np, subsampling, randoms, ...)

    tracers : dictionary of dictionaries
        Dictionary of multi-tracer HODs

    enable_ranks : boolean
        Flag of whether to implement particle ranks.

    rsd : boolean
        Flag of whether to implement RSD.

    nfw : boolean
        Flag of whether to generate satellites from an NFW profile.

    write_to_disk : boolean
        Flag of whether to output to disk.

    verbose : boolean
        Whether to output detailed outputs.

    savedir : str
        where to save the output if write_to_disk == True.

    params : dict
        Dictionary of various simulation parameters.

    fn_ext: str
        filename extension for saved files. Only relevant when ``write_to_disk = True``.

    Output
    ------

    HOD_dict : dictionary of dictionaries
        Dictionary of the format: {tracer1_dict, tracer2_dict, ...},
        where tracer1_dict = {x, y, z, vx, vy, vz, mass, id}

    """

    if not isinstance(rsd, bool):
        raise ValueError('Error: rsd has to be a boolean')

    # find the halos, populate them with galaxies and write them to files
    HOD_dict = gen_gals(
        halo_data,
        particle_data,
        tracers,
        params,
        Nthread,
        enable_ranks,
        rsd,
        verbose,
        nfw,
        NFW_draw,
    )

    # how many galaxies were generated and write them to disk
    for tracer in tracers.keys():
        Ncent = HOD_dict[tracer]['Ncent']
        if verbose:
            print(
                'generated %ss:' % tracer,
                len(HOD_dict[tracer]['x']),
                'satellite fraction ',
                1 - Ncent / len(HOD_dict[tracer]['x']),
            )

        if write_to_disk:
            if verbose:
                print('outputting galaxies to disk')

            if rsd:
                rsd_string = '_rsd'
            else:
                rsd_string = ''

            if fn_ext is None:
                outdir = (savedir) / ('galaxies' + rsd_string)
            else:
                outdir = (savedir) / ('galaxies' + rsd_string + fn_ext)

            # create directories if not existing
            os.makedirs(outdir, exist_ok=True)

            # save to file
            # outdict =
            HOD_dict[tracer].pop('Ncent', None)
            table = Table(
                HOD_dict[tracer],
                meta={'Ncent': Ncent, 'Gal_type': tracer, **tracers[tracer]},
            )
            if params['chunk'] == -1:
                ascii.write(
                    table, outdir / (f'{tracer}s.dat'), overwrite=True, format='ecsv'
                )
            else:
                ascii.write(
                    table,
                    outdir / (f'{tracer}s_chunk{params["chunk"]:d}.dat'),
                    overwrite=True,
                    format='ecsv',
                )

    return HOD_dict
