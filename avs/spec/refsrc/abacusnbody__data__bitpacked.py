"""
A collection of routines related to various Abacus bitpacked
formats, like RVint and encoding of information in the PIDs.

Most users will not use this module directly, but will instead use
:mod:`abacusnbody.data.compaso_halo_catalog` or
:func:`abacusnbody.data.read_abacus.read_asdf`.
"""

import numba as nb
import numpy as np

__all__ = ['unpack_rvint', 'unpack_pids']

# Constants
AUXDENS = np.uint64(0x07FE000000000000)
ZERODEN = np.uint64(49)  # The density bits are 49-58.

AUXXPID = np.uint64(0x7FFF)  # bits 0-14
AUXYPID = np.uint64(0x7FFF0000)  # bits 16-30
AUXZPID = np.uint64(0x7FFF00000000)  # bits 32-46
AUXPID = AUXXPID | AUXYPID | AUXZPID  # all of the above bits
AUXTAGGED = np.uint64(48)  # tagged bit is 48

# The names of the bit-packed PID fields that the user can request
PID_FIELDS = ['pid', 'lagr_pos', 'tagged', 'density', 'lagr_idx', 'packedpid']


def unpack_rvint(intdata, boxsize, float_dtype=np.float32, posout=None, velout=None):
    """
    Unpack rvint data into pos and vel.

    Parameters
    ----------
    intdata: ndarray of dtype np.int32
        The rvint data
    boxsize: float
        The box size, used to scale the positions
    float_dtype: np.dtype, optional
        The precision in which to store the unpacked values.
        Default: np.float32
    posout: ndarray, None, or False; optional
        The array in which to store the unpacked positions.
        `None` can be given (the default), in which case an
        array is constructed and retured as the first return value.
        `False` can be given, in which case the positions are not unpacked.
    velout: optional
        Same as posout, but for the velocities

    Returns
    -------
    pos,vel: tuple
        A tuple of the unpacked position and velocity arrays,
        or the number of unpacked particles if an output array
        was given.

    """
    intdata = intdata.reshape(-1, 3)
    assert intdata.dtype == np.int32
    N = len(intdata)

    if posout is None:
        _posout = np.empty((N, 3), dtype=float_dtype)
    elif posout is False:
        _posout = None
    else:
        # In NumPy >= 2.1, we can use arr.reshape(..., copy=False).
        # This is a workaround for earlier NumPy.
        _posout = posout.view()
        _posout.shape = (-1, 3)

    if velout is None:
        _velout = np.empty((N, 3), dtype=float_dtype)
    elif velout is False:
        _velout = None
    else:
        _velout = velout.view()
        _velout.shape = (-1, 3)

    _unpack_rvint(intdata, boxsize, _posout, _velout)

    ret = []
    if posout is None:
        ret += [_posout]
    elif posout is False:
        ret += [0]
    else:
        ret += [N]

    if velout is None:
        ret += [_velout]
    elif velout is False:
        ret += [0]
    else:
        ret += [N]

    return tuple(ret)


@nb.njit
def _unpack_rvint(intdata, boxsize, posout, velout):
    """Helper for unpack_rvint"""

    N = len(intdata)
    posscale = boxsize / 1e6
    velscale = 6000.0 / 2048
    vmask = np.uint32(0xFFF)

    for i in range(N):
        if posout is not None:
            posout[i, 0] = (intdata[i, 0] >> np.uint32(12)) * posscale
            posout[i, 1] = (intdata[i, 1] >> np.uint32(12)) * posscale
            posout[i, 2] = (intdata[i, 2] >> np.uint32(12)) * posscale
        if velout is not None:
            velout[i, 0] = ((intdata[i, 0] & vmask) - 2048) * velscale
            velout[i, 1] = ((intdata[i, 1] & vmask) - 2048) * velscale
            velout[i, 2] = ((intdata[i, 2] & vmask) - 2048) * velscale


def unpack_pids(
    packed,
    box=None,
    ppd=None,
    pid=False,
    lagr_pos=False,
    tagged=False,
    density=False,
    lagr_idx=False,
    float_dtype=np.float32,
):
    """
    Extract fields from bit-packed PIDs.  The PID (really, the 64-bit aux field)
    enocdes the particle ID, the Lagrangian index (and therefore position), the
    density, and the L2 tagged field.

    Parameters
    ----------
    packed: array-like of np.uint64, shape (N,)
        The bit-packed PID (i.e. the aux field)

    box: float, optional
        The box size, needed only for ``lagr_pos``

    ppd: int, optional
        The particles-per-dimension, needed only for ``lagr_pos``

    pid: bool, optional
        Whether to unpack and return the unique particle ID.

        Loaded as a ``np.int64`` array of shape `(N,)`.

    lagr_idx: bool, optional
        Whether to unpack and return the Lagrangian index, which is the `(i,j,k)`
        integer coordinates of the particle in the cubic lattice used in Abacus
        pre-initial conditions. The ``lagr_pos`` field will automatically convert
        this index to a position.

        Loaded as a ``np.int16`` array of shape `(N,3)`.

    lagr_pos: bool, optional
        Whether to unpack and return the Lagrangian position of the particles,
        based on the Lagrangian index (``lagr_idx``).

        Loaded as array of type ``dtype`` and shape `(N,3)`.

    tagged: bool, optional
        Whether to unpack and return the CompaSO L2 tagged bit of the particles---
        whether the particle was ever part of an L2 group (i.e. halo core).

        Loaded as a ``np.bool8`` array of shape `(N,)`.

    density: bool, optional
        Whether to unpack and return the local density estimate, in units of mean
        density.

        Loaded as a array of type ``dtype`` and shape `(N,)`.

    float_dtype: np.dtype, optional
        The dtype in which to store float arrays. Default: ``np.float32``

    Returns
    -------
    unpacked_arrays: dict of ndarray
        A dictionary of all fields that were unpacked
    """
    packed = np.asanyarray(packed, dtype=np.uint64)

    if lagr_pos is not False:
        if box is None:
            raise ValueError('Must supply `box` if requesting `lagr_pos`')
        if ppd is None:
            raise ValueError('Must supply `ppd` if requesting `lagr_pos`')

    N = len(packed)

    if ppd is not None:
        if not np.isclose(ppd, int(round(ppd))):
            raise ValueError(f'ppd "{ppd}" not valid int?')
        ppd = int(round(ppd))
    else:
        ppd = 1

    if box is None:
        box = float_dtype(1.0)

    arr = {}
    if pid is True:
        arr['pid'] = np.empty(N, dtype=np.int64)
    if lagr_pos is True:
        arr['lagr_pos'] = np.empty((N, 3), dtype=float_dtype)
    if lagr_idx is True:
        arr['lagr_idx'] = np.empty((N, 3), dtype=np.int16)
    if tagged is True:
        arr['tagged'] = np.empty(N, dtype=np.uint8)
    if density is True:
        arr['density'] = np.empty(N, dtype=float_dtype)

    _unpack_pids(packed, box, ppd, float_dtype=float_dtype, **arr)

    return arr


def empty_bitpacked_arrays(N, unpack_bits, float_dtype=np.float32):
    """
    Create empty arrays for bit-packed fields.

    Parameters
    ----------
    N: int
        The number of particles

    unpack_bits: list or bool
        The fields to unpack. If True, all fields are unpacked. If False,
        just the pid field is unpacked.

    float_dtype: np.dtype, optional
        The dtype in which to store float arrays. Default: ``np.float32``

    Returns
    -------
    empty_arrays: dict of ndarray
        A dictionary of empty arrays for all fields that can be unpacked
    """

    if type(unpack_bits) is str:
        unpack_bits = [unpack_bits]

    if unpack_bits is True:
        unpack_bits = PID_FIELDS
    elif unpack_bits is False:
        unpack_bits = ['pid']

    arr = {}
    if 'pid' in unpack_bits:
        arr['pid'] = np.empty(N, dtype=np.int64)
    if 'lagr_pos' in unpack_bits:
        arr['lagr_pos'] = np.empty((N, 3), dtype=float_dtype)
    if 'lagr_idx' in unpack_bits:
        arr['lagr_idx'] = np.empty((N, 3), dtype=np.int16)
    if 'tagged' in unpack_bits:
        arr['tagged'] = np.empty(N, dtype=np.uint8)
    if 'density' in unpack_bits:
        arr['density'] = np.empty(N, dtype=float_dtype)
    if 'packedpid' in unpack_bits:
        arr['packedpid'] = np.empty(N, dtype=np.uint64)

    return arr


@nb.njit
def _unpack_pids(
    packed,
    box,
    ppd,
    pid=None,
    lagr_pos=None,
    tagged=None,
    density=None,
    lagr_idx=None,
    float_dtype=np.float32,
):
    """Helper to extract the Lagrangian position, tagged info, and
    density from the ids of the particles
    """

    N = len(packed)
    box = np.float64(box)
    inv_ppd = float_dtype(box / ppd)
    half = float_dtype(box / 2)

    for i in range(N):
        if lagr_idx is not None:
            lagr_idx[i, 0] = packed[i] & AUXXPID
            lagr_idx[i, 1] = (packed[i] & AUXYPID) >> np.uint64(16)
            lagr_idx[i, 2] = (packed[i] & AUXZPID) >> np.uint64(32)

        if lagr_pos is not None:
            lagr_pos[i, 0] = (packed[i] & AUXXPID) * inv_ppd - half
            lagr_pos[i, 1] = ((packed[i] & AUXYPID) >> np.uint64(16)) * inv_ppd - half
            lagr_pos[i, 2] = ((packed[i] & AUXZPID) >> np.uint64(32)) * inv_ppd - half

        if tagged is not None:
            tagged[i] = (packed[i] >> AUXTAGGED) & np.uint64(1)

        if density is not None:
            density[i] = (
                (packed[i] & AUXDENS) >> ZERODEN
            ) ** 2  # max is 2**10, squaring gets to 2**20

        if pid is not None:
            pid[i] = packed[i] & AUXPID
