"""Small value-level recognisers shared by several rule modules (one meaning, several spellings)."""
import ast

from .srcmodel import dotted, unparse, walk_no_nested

INT64 = ('np.uint64', 'np.int64', 'int', "'u8'", "'i8'")


def offsets_table(fn, name, counts):
    """Is `name` bound, in function `fn`, to the table of exclusive prefix sums of `counts` with the total appended
    (T[0] = 0, T[i+1] = T[i] + counts[i], len(counts) + 1 entries, 64-bit)?   Spellings:

        T = np.empty(len(C) + 1, dtype=np.uint64);  util.cumsum(C, T, initial=True, final=True)
        T = np.zeros(len(C) + 1, dtype=np.uint64);  T[1:] = np.cumsum(C)            (also C.cumsum())
        T = np.concatenate(([0], np.cumsum(C)))     (only with an explicit 64-bit dtype / astype)

    and nothing else stores into T inside fn."""
    allocs = [n for n in walk_no_nested(fn) if isinstance(n, ast.Assign) and len(n.targets) == 1 and unparse(n.targets[0]) == name]
    stores = [n for n in walk_no_nested(fn) if isinstance(n, (ast.Assign, ast.AugAssign)) and any(
        isinstance(t, ast.Subscript) and unparse(t.value) == name for t in (n.targets if isinstance(n, ast.Assign) else [n.target]))]
    if len(allocs) != 1 or not isinstance(allocs[0].value, ast.Call):
        return False
    a = allocs[0].value
    cn = dotted(a.func)
    dt = [unparse(k.value) for k in a.keywords if k.arg == 'dtype']
    size_ok = bool(a.args) and unparse(a.args[0]).replace(' ', '') in (f'len({counts})+1', f'1+len({counts})', f'{counts}.size+1', f'{counts}.shape[0]+1')
    wide = len(dt) == 1 and dt[0] in INT64
    calls = [n for n in walk_no_nested(fn) if isinstance(n, ast.Call) and dotted(n.func).split('.')[-1] == 'cumsum' and len(n.args) >= 2
             and unparse(n.args[1]) == name]
    if cn == 'np.empty' and size_ok and wide and not stores and len(calls) == 1:
        c = calls[0]
        kw = {k.arg: unparse(k.value) for k in c.keywords}
        return dotted(c.func) in ('util.cumsum', 'cumsum') and unparse(c.args[0]) == counts and kw.get('initial') == 'True' \
            and kw.get('final', 'True') == 'True' and kw.get('offset', '0') in ('0', 'np.uint64(0)') and len(c.args) == 2
    if cn == 'np.zeros' and size_ok and wide and not calls and len(stores) == 1 and isinstance(stores[0], ast.Assign):
        s = stores[0]
        return unparse(s.targets[0]) == f'{name}[1:]' and unparse(s.value) in (f'np.cumsum({counts})', f'{counts}.cumsum()') \
            and s.lineno > allocs[0].lineno
    return False


def compaction(stmts, table, mask, n):
    """Do the statements move the rows of `table` selected by the boolean `mask` to its first `n` rows, in order?
        table[:n] = table[mask]        |        for c in table.colnames: table[c][:n] = table[c][mask]"""
    def writes_table(s):
        return any(isinstance(x, ast.Subscript) and isinstance(x.ctx, ast.Store) and unparse(x).startswith(table + '[') for x in ast.walk(s))
    hits = [s for s in stmts if isinstance(s, (ast.Assign, ast.AugAssign, ast.For)) and writes_table(s)]
    if len(hits) != 1:
        return False
    s = hits[0]
    if isinstance(s, ast.Assign):
        return unparse(s.targets[0]) == f'{table}[:{n}]' and unparse(s.value) == f'{table}[{mask}]'
    if isinstance(s.target, ast.Name) and unparse(s.iter) in (f'{table}.colnames', f'{table}.columns', f'{table}.keys()', f'list({table}.colnames)') \
            and len(s.body) == 1 and isinstance(s.body[0], ast.Assign) and not s.orelse:
        c = s.target.id
        b = s.body[0]
        return unparse(b.targets[0]) == f'{table}[{c}][:{n}]' and unparse(b.value) == f'{table}[{c}][{mask}]'
    return False
