"""Small value-level recognisers shared by several rule modules (one meaning, several spellings)."""
import ast

from .srcmodel import dotted, unparse, walk_no_nested

INT64 = ('np.uint64', 'np.int64', 'int', "'u8'", "'i8'")


def offsets_table(fn, name, counts):
    """Is `name` bound, in function `fn`, to the table of exclusive prefix sums of `counts` with the total appended
    (T[0] = 0, T[i+1] = T[i] + counts[i], len(counts) + 1 entries, 64-bit)?   Spellings:

        T = np.empty(len(C) + 1, dtype=np.uint64);  util.cumsum(C, T, initial=True, final=True)
        T = np.zeros(len(C) + 1, dtype=np.uint64);  T[1:] = np.cumsum(C)            (also C.cumsum())
        T = np.concatenate(([0], np.cumsum(C)))     (only with an explicit 64-bit dtype / astype)

    and nothing else stores into T inside fn."""
    allocs = [n for n in walk_no_nested(fn) if isinstance(n, ast.Assign) and len(n.targets) == 1 and unparse(n.targets[0]) == name]
    stores = [n for n in walk_no_nested(fn) if isinstance(n, (ast.Assign, ast.AugAssign)) and any(
        isinstance(t, ast.Subscript) and unparse(t.value) == name for t in (n.targets if isinstance(n, ast.Assign) else [n.target]))]
    if len(allocs) != 1 or not isinstance(allocs[0].value, ast.Call):
        return False
    a = allocs[0].value
    cn = dotted(a.func)
    dt = [unparse(k.value) for k in a.keywords if k.arg == 'dtype']
    size_ok = bool(a.args) and unparse(a.args[0]).replace(' ', '') in (f'len({counts})+1', f'1+len({counts})', f'{counts}.size+1', f'{counts}.shape[0]+1')
    wide = len(dt) == 1 and dt[0] in INT64
    calls = [n for n in walk_no_nested(fn) if isinstance(n, ast.Call) and dotted(n.func).split('.')[-1] == 'cumsum' and len(n.args) >= 2
             and unparse(n.args[1]) == name]
    if cn == 'np.empty' and size_ok and wide and not stores and len(calls) == 1:
        c = calls[0]
        kw = {k.arg: unparse(k.value) for k in c.keywords}
        return dotted(c.func) in ('util.cumsum', 'cumsum') and unparse(c.args[0]) == counts and kw.get('initial') == 'True' \
            and kw.get('final', 'True') == 'True' and kw.get('offset', '0') in ('0', 'np.uint64(0)') and len(c.args) == 2
    if cn == 'np.zeros' and size_ok and wide and not calls and len(stores) == 1 and isinstance(stores[0], ast.Assign):
        s = stores[0]
        return unparse(s.targets[0]) == f'{name}[1:]' and unparse(s.value) in (f'np.cumsum({counts})', f'{counts}.cumsum()') \
            and s.lineno > allocs[0].lineno
    return False


def compaction(stmts, table, mask, n):
    """Do the statements move the rows of `table` selected by the boolean `mask` to its first `n` rows, in order?
        table[:n] = table[mask]        |        for c in table.colnames: table[c][:n] = table[c][mask]"""
    def writes_table(s):
        return any(isinstance(x, ast.Subscript) and isinstance(x.ctx, ast.Store) and unparse(x).startswith(table + '[') for x in ast.walk(s))
    hits = [s for s in stmts if isinstance(s, (ast.Assign, ast.AugAssign, ast.For)) and writes_table(s)]
    if len(hits) != 1:
        return False
    s = hits[0]
    if isinstance(s, ast.Assign):
        return unparse(s.targets[0]) == f'{table}[:{n}]' and unparse(s.value) == f'{table}[{mask}]'
    if isinstance(s.target, ast.Name) and unparse(s.iter) in (f'{table}.colnames', f'{table}.columns', f'{table}.keys()', f'list({table}.colnames)') \
            and len(s.body) == 1 and isinstance(s.body[0], ast.Assign) and not s.orelse:
        c = s.target.id
        b = s.body[0]
        return unparse(b.targets[0]) == f'{table}[{c}][:{n}]' and unparse(b.value) == f'{table}[{c}][{mask}]'
    return False


_SEEN = set()


def _alias_of(e, P, defs, depth=0):
    """'alias' when the value of `e` is certainly a view of the caller's array `P` (same memory, so stores through it land in
    the caller's array), 'copy' when it can be a fresh array (stores are lost), None when `e` does not derive from P."""
    import ast
    from .srcmodel import unparse, dotted
    if depth > 40:
        return 'copy'
    if not any(isinstance(x, ast.Name) and (x.id == P or x.id in defs) for x in ast.walk(e)):
        return None
    if isinstance(e, ast.Name):
        if e.id == P:
            return 'alias'
        if e.id in _SEEN:
            return None
        _SEEN.add(e.id)
        try:
            rs = [_alias_of(v, P, defs, depth + 1) for v in defs.get(e.id, [])]
        finally:
            _SEEN.discard(e.id)
        rs = [r for r in rs if r is not None]
        if not rs:
            return None
        return 'alias' if all(r == 'alias' for r in rs) else 'copy'
    if isinstance(e, ast.Attribute) and e.attr in ('T', 'real', 'base', 'data'):
        return _alias_of(e.value, P, defs, depth + 1)
    if isinstance(e, ast.Subscript):
        def basic(s):
            if isinstance(s, ast.Slice) or (isinstance(s, ast.Constant) and (isinstance(s.value, int) or s.value is Ellipsis or s.value is None)):
                return True
            if isinstance(s, ast.Tuple):
                return all(basic(x) for x in s.elts)
            if isinstance(s, ast.UnaryOp) and isinstance(s.operand, ast.Constant):
                return True
            return False
        r = _alias_of(e.value, P, defs, depth + 1)
        return r if r != 'alias' else ('alias' if basic(e.slice) else 'copy')
    if isinstance(e, ast.IfExp):
        rs = [r for r in (_alias_of(e.body, P, defs, depth + 1), _alias_of(e.orelse, P, defs, depth + 1)) if r is not None]
        return None if not rs else ('alias' if all(r == 'alias' for r in rs) else 'copy')
    if isinstance(e, ast.Call):
        d = dotted(e.func)
        kws = {k.arg: unparse(k.value) for k in e.keywords}
        if isinstance(e.func, ast.Attribute) and not d.startswith(('np.', 'numpy.')):
            inner = _alias_of(e.func.value, P, defs, depth + 1)
            if inner is None:
                return None if not any(_alias_of(a, P, defs, depth + 1) for a in e.args) else 'copy'
            if inner == 'copy':
                return 'copy'
            a = e.func.attr
            if a == 'view':
                return 'alias'
            if a == 'reshape':
                return 'alias' if kws.get('copy') == 'False' else 'copy'
            if a in ('squeeze', 'transpose', 'swapaxes'):
                return 'alias'
            return 'copy'
        if d in ('np.asarray', 'np.asanyarray', 'numpy.asarray', 'numpy.asanyarray') and len(e.args) == 1 and (not kws or kws == {'copy': 'False'}):
            return _alias_of(e.args[0], P, defs, depth + 1)
        if d in ('np.reshape', 'numpy.reshape') and e.args:
            r = _alias_of(e.args[0], P, defs, depth + 1)
            return r if r != 'alias' else ('alias' if kws.get('copy') == 'False' else 'copy')
        if d in ('np.squeeze', 'np.atleast_1d', 'np.atleast_2d', 'np.transpose') and len(e.args) == 1:
            return _alias_of(e.args[0], P, defs, depth + 1)
        rs = [_alias_of(a, P, defs, depth + 1) for a in list(e.args) + [k.value for k in e.keywords]]
        return 'copy' if any(rs) else None
    rs = [_alias_of(c, P, defs, depth + 1) for c in ast.iter_child_nodes(e) if isinstance(c, ast.expr)]
    return 'copy' if any(rs) else None


def supplied_output_reaches(fn, P, arg):
    """The wrapper hands the kernel `arg` in an output position; P is the caller's optional preallocated array.  Returns
    (ok, why): ok when every value of `arg` that derives from P is certainly a view of P (never a possible copy)."""
    import ast
    from .srcmodel import walk_no_nested, unparse
    defs = {}
    for n in walk_no_nested(fn):
        if isinstance(n, ast.Assign) and len(n.targets) == 1 and isinstance(n.targets[0], ast.Name) and n.targets[0].id != P:
            defs.setdefault(n.targets[0].id, []).append(n.value)
    # the parameter itself re-bound (posout = np.ascontiguousarray(posout)) is a definition of a different value
    rebinds = [n for n in walk_no_nested(fn) if isinstance(n, ast.Assign) and any(isinstance(t, ast.Name) and t.id == P for t in n.targets)]
    for n in rebinds:
        r = _alias_of(n.value, P, {})
        if r == 'copy':
            return False, f'line {n.lineno}: {unparse(n)[:70]} can re-bind the caller\'s array to a copy'
    r = _alias_of(arg, P, defs)
    if r == 'copy':
        bad = None
        if isinstance(arg, ast.Name):
            for v in defs.get(arg.id, []):
                if _alias_of(v, P, defs) == 'copy':
                    bad = v
        return False, f'{unparse(arg)} = {unparse(bad)[:60] if bad is not None else "?"} can be a COPY of the caller\'s {P}'
    return True, f'{unparse(arg)} is a view of {P} (or an array allocated here)'
