"""Copy-map analysis of element-wise copy loops:  which interval of a destination array receives which source
array with which index shift.  Loop forms understood:
    for v in range(N)                      -> v in [0, N)
    for v in range(T[e], T[e + 1])         -> with T = rint(linspace(lo, hi, K + 1)).astype(int) [+ c] and e running over
                                              all K blocks (e = w - d for the parallel index w in [d, d + K)): v in [lo + c, hi + c)
and stores  dest[v + a] = src[v + b]  (a, b linear in loop-invariant integers).  Bounds are kept as linear forms
(Lin) over the names of the function, so  N1 + N2  and  N1  compare exactly."""
import ast

from .lin import Lin
from .srcmodel import dotted, unparse, walk_no_nested


def lin_of(e, defs, depth=0):
    """Linear form of an integer expression; names with a single simple definition in defs are resolved."""
    if isinstance(e, ast.Constant) and type(e.value) is int:
        return Lin.const(e.value)
    if isinstance(e, ast.Name):
        d = defs.get(e.id)
        if d is not None and depth < 6:
            r = lin_of(d, defs, depth + 1)
            if r is not None:
                return r
        return Lin.sym(e.id)
    if isinstance(e, ast.Call) and dotted(e.func) == 'len' and len(e.args) == 1 and isinstance(e.args[0], ast.Name):
        return Lin.sym(f'len({e.args[0].id})')
    if isinstance(e, ast.BinOp) and isinstance(e.op, (ast.Add, ast.Sub)):
        a, b = lin_of(e.left, defs, depth), lin_of(e.right, defs, depth)
        if a is None or b is None:
            return None
        return a + b if isinstance(e.op, ast.Add) else a - b
    if isinstance(e, ast.BinOp) and isinstance(e.op, ast.Mult):
        a, b = lin_of(e.left, defs, depth), lin_of(e.right, defs, depth)
        if a is not None and b is not None:
            if a.is_const():
                return b.scale(a.c)
            if b.is_const():
                return a.scale(b.c)
        return None
    if isinstance(e, ast.UnaryOp) and isinstance(e.op, ast.USub):
        a = lin_of(e.operand, defs, depth)
        return a.scale(-1) if a is not None else None
    return None


def table_of(value, defs):
    """np.rint(np.linspace(lo, hi, K + 1)).astype(np.int64) [+ c]  ->  (lo, hi, K, c) as Lin, else None."""
    c = Lin.const(0)
    v = value
    if isinstance(v, ast.BinOp) and isinstance(v.op, (ast.Add, ast.Sub)):
        cc = lin_of(v.right, defs)
        if cc is None:
            return None
        c = cc if isinstance(v.op, ast.Add) else cc.scale(-1)
        v = v.left
    if isinstance(v, ast.Call) and isinstance(v.func, ast.Attribute) and v.func.attr == 'astype':
        v = v.func.value
    if isinstance(v, ast.Call) and dotted(v.func) in ('np.rint', 'np.round', 'np.floor'):
        v = v.args[0] if v.args else None
    if not (isinstance(v, ast.Call) and dotted(v.func) == 'np.linspace' and len(v.args) >= 3):
        return None
    lo, hi, n = (lin_of(a, defs) for a in v.args[:3])
    if lo is None or hi is None or n is None:
        return None
    return lo, hi, n - Lin.const(1), c


class Piece:
    def __init__(self, dest, lo, hi, src, shift, node):
        self.dest, self.lo, self.hi, self.src, self.shift, self.node = dest, lo, hi, src, shift, node

    def key(self):
        return (self.dest, repr(self.lo), repr(self.hi), self.src, repr(self.shift))

    def __repr__(self):
        return f'{self.dest}[{self.lo!r} : {self.hi!r}] <- {self.src}[k + {self.shift!r}]'


def pieces(stmts, defs, par=None, problems=None):
    """par = (name, lo, hi): the enclosing parallel / outer index and the interval it runs over."""
    out = []
    problems = problems if problems is not None else []
    for s in stmts:
        if isinstance(s, ast.For) and isinstance(s.target, ast.Name) and isinstance(s.iter, ast.Call):
            fnm = dotted(s.iter.func)
            args = s.iter.args
            if fnm.endswith('prange') and len(args) == 1:
                n = lin_of(args[0], defs)
                if n is None:
                    problems.append((s, f'parallel range {unparse(s.iter)} not linear'))
                    continue
                out += pieces(s.body, defs, (s.target.id, Lin.const(0), n), problems)
                continue
            if fnm == 'range' and len(args) == 1:
                n = lin_of(args[0], defs)
                if n is None:
                    problems.append((s, f'range {unparse(s.iter)} not linear'))
                    continue
                out += _stores(s, s.target.id, Lin.const(0), n, defs, problems)
                continue
            if fnm == 'range' and len(args) == 2 and all(isinstance(a, ast.Subscript) and isinstance(a.value, ast.Name) for a in args) \
                    and args[0].value.id == args[1].value.id:
                T = args[0].value.id
                tab = table_of(defs[T], defs) if T in defs else None
                e0, e1 = lin_of(args[0].slice, defs), lin_of(args[1].slice, defs)
                if tab is None or e0 is None or e1 is None or not (e1 - e0 == Lin.const(1)) or par is None:
                    problems.append((s, f'block loop {unparse(s.iter)} over an unrecognised table'))
                    continue
                lo, hi, K, c = tab
                w, wlo, whi = par
                # e0 = w - d must run over exactly the K blocks: wlo - d == 0 and whi - d == K
                d = Lin.sym(w) - e0
                if w in d.syms():
                    problems.append((s, f'block index {unparse(args[0].slice)} is not {w} minus an invariant'))
                    continue
                if not (wlo - d == Lin.const(0)) or not (whi - d == K):
                    problems.append((s, f'blocks {unparse(args[0].slice)} for {w} in [{wlo!r}, {whi!r}) do not run over exactly the {K!r} blocks of {T}: '
                                        'elements are skipped or blocks outside the table are read'))
                    continue
                out += _stores(s, s.target.id, lo + c, hi + c, defs, problems)
                continue
            problems.append((s, f'loop {unparse(s.iter)} not understood'))
            continue
        if isinstance(s, ast.If) and par is not None:
            # dispatch on the parallel index:  if w < K: ... else: ...
            w, wlo, whi = par
            t = s.test
            if isinstance(t, ast.Compare) and len(t.ops) == 1 and isinstance(t.left, ast.Name) and t.left.id == w and isinstance(t.ops[0], (ast.Lt, ast.GtE)):
                k = lin_of(t.comparators[0], defs)
                if k is not None and w not in k.syms():
                    first, second = (s.body, s.orelse) if isinstance(t.ops[0], ast.Lt) else (s.orelse, s.body)
                    out += pieces(first, defs, (w, wlo, k), problems)
                    out += pieces(second, defs, (w, k, whi), problems)
                    continue
            problems.append((s, f'dispatch {unparse(t)} not understood'))
            continue
        if isinstance(s, ast.Assign) and len(s.targets) == 1 and isinstance(s.targets[0], ast.Name):
            defs = dict(defs)
            defs[s.targets[0].id] = s.value
            continue
        if isinstance(s, (ast.Return, ast.Expr, ast.Pass)):
            continue
        problems.append((s, f'statement {unparse(s)[:60]} not understood'))
    return out


def _stores(loop, v, lo, hi, defs, problems):
    out = []
    for st in loop.body:
        if isinstance(st, ast.Assign) and len(st.targets) == 1 and isinstance(st.targets[0], ast.Subscript) and isinstance(st.value, ast.Subscript) \
                and isinstance(st.targets[0].value, ast.Name) and isinstance(st.value.value, ast.Name):
            a = lin_of(st.targets[0].slice, defs)
            b = lin_of(st.value.slice, defs)
            if a is None or b is None:
                problems.append((st, f'indices of {unparse(st)} not linear'))
                continue
            a0, b0 = a - Lin.sym(v), b - Lin.sym(v)
            if v in a0.syms() or v in b0.syms():
                problems.append((st, f'{unparse(st)}: index is not the loop variable plus an invariant'))
                continue
            out.append(Piece(st.targets[0].value.id, lo + a0, hi + a0, st.value.value.id, b0 - a0, st))
        else:
            problems.append((st, f'statement {unparse(st)[:60]} in a copy loop not understood'))
    return out
