"""Exact Laurent polynomials over named symbols with Fraction coefficients."""
from fractions import Fraction


class Poly:
    __slots__ = ('t',)

    def __init__(self, t=None):
        self.t = {m: (c if type(c) is Fraction else Fraction(c)) for m, c in (t or {}).items() if c != 0}

    @staticmethod
    def _mk(t):
        """Internal: t already maps monomials to Fractions; zero terms may be present."""
        p = Poly.__new__(Poly)
        p.t = {m: c for m, c in t.items() if c}
        return p

    @staticmethod
    def const(c):
        return Poly({(): Fraction(c)})

    @staticmethod
    def sym(name):
        return Poly({((name, 1),): 1})

    @staticmethod
    def from_float_literal(v):
        """A float literal of the source as an exact rational (via its shortest repr)."""
        return Poly.const(Fraction(repr(v)))

    def is_const(self):
        return all(m == () for m in self.t)

    def const_value(self):
        return self.t.get((), Fraction(0))

    def __add__(self, o):
        o = _p(o)
        t = dict(self.t)
        for m, c in o.t.items():
            t[m] = t.get(m, 0) + c
        return Poly._mk(t)

    __radd__ = __add__

    def __neg__(self):
        return Poly._mk({m: -c for m, c in self.t.items()})

    def __sub__(self, o):
        return self + (-_p(o))

    def __rsub__(self, o):
        return _p(o) - self

    def __mul__(self, o):
        o = _p(o)
        t = {}
        for m1, c1 in self.t.items():
            for m2, c2 in o.t.items():
                m = _mulmono(m1, m2)
                t[m] = t.get(m, 0) + c1 * c2
        return Poly._mk(t)

    __rmul__ = __mul__

    def __truediv__(self, o):
        o = _p(o)
        if len(o.t) == 0:
            raise ValueError('division by zero')
        if len(o.t) != 1:
            return self * Poly.sym(f'inv({o!r})')
        (m, c), = o.t.items()
        inv = Poly({tuple((s, -e) for s, e in m): 1 / c})
        return self * inv

    def __pow__(self, n):
        if isinstance(n, Poly):
            if not n.is_const():
                raise ValueError('symbolic exponent')
            n = n.const_value()
        n = Fraction(n)
        if n.denominator != 1:
            raise ValueError('fractional exponent')
        n = int(n)
        if n < 0:
            return Poly.const(1) / (self ** (-n))
        r = Poly.const(1)
        for _ in range(n):
            r = r * self
        return r

    def __eq__(self, o):
        if not isinstance(o, (Poly, int, Fraction)):
            return False
        return self.t == _p(o).t

    def __hash__(self):
        return hash(frozenset(self.t.items()))

    def syms(self):
        return {s for m in self.t for s, _ in m}

    def subst(self, name, repl):
        out = Poly()
        for m, c in self.t.items():
            term = Poly.const(c)
            for s, e in m:
                term = term * ((repl if s == name else Poly.sym(s)) ** e)
            out = out + term
        return out

    def __repr__(self):
        if not self.t:
            return '0'
        parts = []
        for m in sorted(self.t, key=lambda m: (len(m), m)):
            c = self.t[m]
            ms = '*'.join(s if e == 1 else f'{s}^{e}' for s, e in m)
            if not ms:
                parts.append(f'{c}')
            elif c == 1:
                parts.append(ms)
            elif c == -1:
                parts.append('-' + ms)
            else:
                parts.append(f'{c}*{ms}')
        return ' + '.join(parts).replace('+ -', '- ')


def _mulmono(a, b):
    if not a:
        return b
    if not b:
        return a
    d = dict(a)
    for s, e in b:
        d[s] = d.get(s, 0) + e
    return tuple(sorted((s, e) for s, e in d.items() if e != 0))


def _p(x):
    return x if isinstance(x, Poly) else Poly.const(x)
