"""Ownership classes of array stores under numba.prange (race freedom by construction).

A store A[idx...] inside `for v in prange(...)` is
  thread-row        some index is the prange variable v itself when v ranges over threads, or get_thread_id()
  iteration-private some index is exactly v (each iteration owns its row / element)
  block-private     some index is the variable of an inner `for i in range(T[v], T[v+1])` loop (T a block table)
  cursor-private    some index is a scalar read from a thread-row/iteration-private table cell
                    (s = P[v, k] ... P[v, k] += 1), i.e. a private cursor into a shared array
  slice-private     the stored array is a local slice X = A[S[v]:S[v+1]] of the iteration's own range
  local             the array was allocated inside the prange body
  shared            anything else  -> a data race unless the statement is a recognised reduction
Scalars assigned in the body are private (numba semantics).
"""
import ast

from .srcmodel import dotted, unparse, walk_no_nested, stores_in, names_in

PRANGE = {'numba.prange', 'nb.prange', 'prange'}
ALLOC = {'np.empty', 'np.zeros', 'np.ones', 'np.empty_like', 'np.zeros_like', 'np.full'}


class StoreInfo:
    def __init__(self, array, cls, node, loop, detail=''):
        self.array, self.cls, self.node, self.loop, self.detail = array, cls, node, loop, detail

    def key(self):
        return f'{self.array}[{unparse(self.node.slice) if isinstance(self.node, ast.Subscript) else "?"}]'


def prange_loops(fn):
    return [n for n in walk_no_nested(fn) if isinstance(n, ast.For) and isinstance(n.iter, ast.Call)
            and dotted(n.iter.func) in PRANGE]


def classify_loop(fn, loop):
    """Classify every array store inside one prange loop. Returns list of StoreInfo."""
    v = loop.target.id if isinstance(loop.target, ast.Name) else None
    out = []
    body = ast.Module(body=loop.body, type_ignores=[])
    # names holding get_thread_id()
    tids = set()
    local_arrays = set()
    local_slices = {}      # name -> base array expr text (slice over v-indexed bounds)
    cursors = {}           # scalar name -> table text it was read from (indexed by v / tid)
    inner_block = {}       # inner loop var -> True if its range is T[w] .. T[w+1] with w private index
    derived = {v} if v else set()     # scalars that are injective functions of v alone: not tracked beyond v itself

    def private_index(e):
        """Is expression e a private row selector: v, a tid name, or get_thread_id()?"""
        if isinstance(e, ast.Name) and (e.id == v or e.id in tids):
            return True
        if isinstance(e, ast.Call) and dotted(e.func).endswith('get_thread_id'):
            return True
        return False

    for n in walk_no_nested(body):
        if isinstance(n, ast.Assign) and len(n.targets) == 1 and isinstance(n.targets[0], ast.Name):
            name, val = n.targets[0].id, n.value
            if isinstance(val, ast.Call) and dotted(val.func).endswith('get_thread_id'):
                tids.add(name)
            elif isinstance(val, ast.Call) and dotted(val.func) in ALLOC:
                local_arrays.add(name)
            elif isinstance(val, ast.Subscript):
                sl = val.slice
                items = sl.elts if isinstance(sl, ast.Tuple) else [sl]
                if any(isinstance(it, ast.Slice) for it in items):
                    # X = A[S[e]:S[e+1]] with e built from v  -> the iteration's own range
                    it = [x for x in items if isinstance(x, ast.Slice)][0]
                    if it.lower is not None and it.upper is not None and _block_bounds(it.lower, it.upper, v, tids, stores_in(body)):
                        local_slices[name] = unparse(val.value)
                    elif isinstance(val.value, ast.Name) and val.value.id in local_slices:
                        local_slices[name] = local_slices[val.value.id]
                    elif isinstance(val.value, ast.Name) and val.value.id in local_arrays:
                        local_arrays.add(name)
                elif any(private_index(x) for x in items) and all(not isinstance(x, ast.Slice) for x in items):
                    cursors[name] = unparse(val.value)
        if isinstance(n, ast.Assign) and len(n.targets) == 1 and isinstance(n.targets[0], ast.Tuple) and isinstance(n.value, ast.Subscript):
            # j1, j2, j3 = T[v]: every unpacked scalar is a private cursor read from the iteration's own row
            items = n.value.slice.elts if isinstance(n.value.slice, ast.Tuple) else [n.value.slice]
            if any(private_index(x) for x in items) and all(not isinstance(x, ast.Slice) for x in items):
                for e in n.targets[0].elts:
                    if isinstance(e, ast.Name):
                        cursors[e.id] = unparse(n.value.value)
        if isinstance(n, ast.For) and isinstance(n.target, ast.Name) and isinstance(n.iter, ast.Call) \
                and dotted(n.iter.func) == 'range' and len(n.iter.args) == 2:
            lo, hi = n.iter.args
            if _block_bounds(lo, hi, v, tids, stores_in(body)):
                inner_block[id(n)] = unparse(lo.value) if isinstance(lo, ast.Subscript) else '?'
            elif v and affine_block(lo, hi, v, stores_in(body)) is not None:
                inner_block[id(n)] = f'affine blocks {unparse(lo)} .. {unparse(hi)}'
    parent = {}
    for n in walk_no_nested(body):
        for ch in ast.iter_child_nodes(n):
            parent[id(ch)] = n

    def binding_loop(node, name):
        """The nearest enclosing for-loop (inside the prange body) whose target is `name`."""
        p_ = parent.get(id(node))
        while p_ is not None:
            if isinstance(p_, ast.For) and isinstance(p_.target, ast.Name) and p_.target.id == name:
                return p_
            p_ = parent.get(id(p_))
        return None
    # cursor variables advanced by += 1 stay cursors (j1 += 1)
    for n in walk_no_nested(body):
        tgts = []
        if isinstance(n, ast.Assign):
            tgts = n.targets
        elif isinstance(n, ast.AugAssign):
            tgts = [n.target]
        for t in tgts:
            if not isinstance(t, ast.Subscript):
                continue
            base = t.value
            while isinstance(base, ast.Subscript):
                base = base.value
            arr = unparse(base)
            items = t.slice.elts if isinstance(t.slice, ast.Tuple) else [t.slice]
            if isinstance(base, ast.Name) and base.id in local_arrays:
                out.append(StoreInfo(arr, 'local', t, loop))
                continue
            if isinstance(base, ast.Name) and base.id in local_slices:
                out.append(StoreInfo(arr, 'slice-private', t, loop, f'slice of {local_slices[base.id]}'))
                continue
            cls = None
            for x in items:
                if isinstance(x, ast.Slice):
                    continue
                if private_index(x):
                    cls = 'thread-row' if (isinstance(x, ast.Name) and x.id in tids) or isinstance(x, ast.Call) else 'iteration-private'
                    break
                if isinstance(x, ast.Name) and id(binding_loop(t, x.id)) in inner_block:
                    cls = 'block-private'
                    break
                # block variable plus / minus a loop-invariant offset: a translate of the block, still disjoint
                if isinstance(x, ast.BinOp) and isinstance(x.op, (ast.Add, ast.Sub)):
                    bv, off = (x.left, x.right) if isinstance(x.left, ast.Name) and id(binding_loop(t, x.left.id)) in inner_block else \
                        ((x.right, x.left) if isinstance(x.op, ast.Add) and isinstance(x.right, ast.Name) and id(binding_loop(t, x.right.id)) in inner_block else (None, None))
                    if bv is not None and not (names_in(off) & (stores_in(body) | {v})):
                        # every block of this store must use the same offset: checked by requiring a single such store per array below
                        cls = 'block-private'
                        break
                if isinstance(x, ast.Name) and x.id in cursors:
                    cls = 'cursor-private'
                    break
            if cls is None:
                # whole-slice stores with explicit private bounds: A[T[v]:T[v+1]] = ...
                for x in items:
                    if isinstance(x, ast.Slice) and x.lower is not None and x.upper is not None and _block_bounds(x.lower, x.upper, v, tids, stores_in(body)):
                        cls = 'slice-private'
            out.append(StoreInfo(arr, cls or 'shared', t, loop))
    return out


def _block_bounds(lo, hi, v, tids, varying=()):
    """lo, hi == T[e], T[e+1] for the same table T, e = c*v + d with c a non-zero integer and d loop-invariant
    (v the private index or a tid name); also accepts offsets  T[e] + c .. T[e+1] + c."""
    if isinstance(lo, ast.BinOp) and isinstance(hi, ast.BinOp) and type(lo.op) is type(hi.op) and isinstance(lo.op, (ast.Add, ast.Sub)) \
            and unparse(lo.right) == unparse(hi.right) and not (names_in(lo.right) & (set(varying) | {v} | set(tids))):
        lo, hi = lo.left, hi.left
    if not (isinstance(lo, ast.Subscript) and isinstance(hi, ast.Subscript)):
        return False
    if unparse(lo.value) != unparse(hi.value):
        return False
    from .poly import Poly
    el, eh = lo.slice, hi.slice
    priv = [x for x in ({v} | set(tids)) if x and x in names_in(el)]
    if len(priv) != 1:
        return False
    w = priv[0]
    a, b = _topoly(el, set(varying) - {w}), _topoly(eh, set(varying) - {w})
    if a is None or b is None or not (b - a == Poly.const(1)):
        return False
    # a = c*w + d with c a non-zero integer constant
    coef = [c for m, c in a.t.items() if m == ((w, 1),)]
    others = [m for m in a.t if any(s_ == w for s_, _ in m) and m != ((w, 1),)]
    return len(coef) == 1 and coef[0].denominator == 1 and coef[0] != 0 and not others


ATOMS = {}


def _topoly(e, frozen_out):
    """Integer expression as an exact polynomial over names; a loop-invariant sub-expression that is not + - * (a call,
    a floor division, a subscript) becomes one opaque symbol keyed by its structure (registered in ATOMS).
    None when a name that varies in the loop occurs inside such a sub-expression."""
    from .poly import Poly
    if isinstance(e, ast.Constant) and type(e.value) is int:
        return Poly.const(e.value)
    if isinstance(e, ast.Name):
        if e.id in frozen_out:
            return None
        return Poly.sym(e.id)
    if isinstance(e, ast.BinOp) and isinstance(e.op, (ast.Add, ast.Sub, ast.Mult)):
        a, b = _topoly(e.left, frozen_out), _topoly(e.right, frozen_out)
        if a is None or b is None:
            return None
        return a + b if isinstance(e.op, ast.Add) else (a - b if isinstance(e.op, ast.Sub) else a * b)
    if isinstance(e, ast.Call) and dotted(e.func) == 'len' and len(e.args) == 1 and isinstance(e.args[0], ast.Name) and e.args[0].id not in frozen_out:
        return Poly.sym(f'len({e.args[0].id})')
    if isinstance(e, (ast.Call, ast.BinOp, ast.Attribute, ast.Subscript)) and not (names_in(e) & set(frozen_out)):
        k = '<' + unparse(e) + '>'
        ATOMS[k] = e
        return Poly.sym(k)
    return None


def affine_block(lo, hi, v, stored):
    """Inner range(lo, hi) of a prange over v with lo = a*v + b (a, b loop-invariant) and hi = lo[v+1] or
    min(lo[v+1], X): the blocks of different iterations are disjoint.  Returns dict(lo, step, cap) or None."""
    from .poly import Poly
    varying = set(stored) - {v}
    pl = _topoly(lo, varying)
    if pl is None or v not in pl.syms():
        return None
    # degree in v must be exactly one
    for m in pl.t:
        for sname, e in m:
            if sname == v and e != 1:
                return None
    nxt = pl.subst(v, Poly.sym(v) + 1)
    cap = None
    cands = [hi]
    if isinstance(hi, ast.Call) and dotted(hi.func) in ('min', 'np.minimum') and len(hi.args) == 2:
        cands = list(hi.args)
    hit = [c for c in cands if _topoly(c, varying) == nxt]
    if not hit:
        return None
    if len(cands) == 2:
        cap = [c for c in cands if c is not hit[0]][0]
    return dict(lo=pl, step=nxt - pl, cap=cap)


def _affine(e, names):
    """e as (coef, const) in the single variable of `names` (integers only)."""
    if isinstance(e, ast.Constant) and isinstance(e.value, int):
        return (0, e.value)
    if isinstance(e, ast.Name) and e.id in names:
        return (1, 0)
    if isinstance(e, ast.BinOp):
        l, r = _affine(e.left, names), _affine(e.right, names)
        if l is None or r is None:
            return None
        if isinstance(e.op, ast.Add):
            return (l[0] + r[0], l[1] + r[1])
        if isinstance(e.op, ast.Sub):
            return (l[0] - r[0], l[1] - r[1])
        if isinstance(e.op, ast.Mult):
            if l[0] == 0:
                return (l[1] * r[0], l[1] * r[1])
            if r[0] == 0:
                return (r[1] * l[0], r[1] * l[1])
    return None


def classify_function(fn):
    res = []
    for lp in prange_loops(fn):
        res.extend(classify_loop(fn, lp))
    return res


def thread_row_arrays(fn):
    """Arrays allocated with leading dimension equal to a thread count (nthread / get_num_threads())."""
    out = {}
    for n in walk_no_nested(fn):
        if isinstance(n, ast.Assign) and isinstance(n.targets[0], ast.Name) and isinstance(n.value, ast.Call) \
                and dotted(n.value.func) in ALLOC and n.value.args and isinstance(n.value.args[0], ast.Tuple):
            out[n.targets[0].id] = unparse(n.value.args[0].elts[0])
    return out


# ------------------------------------------------------------------------------------------------
def flat_coverage(fn, loop):
    """Does a prange loop that updates a 1-D array X element by element visit every element of X?
    Returns (verdict, detail, array) with verdict in PROVEN / REFUTED / UNKNOWN.  Forms decided:
      direct     for i in prange(len(X)): X[i] = ...
      table      T = rint(linspace(0, len(X), n + 1)); for t in prange(n): for i in range(T[t], T[t+1]): X[i] = ...
      affine     for t in prange(n): for i in range(t*c, (t+1)*c) / range(t*c, min((t+1)*c, len(X)))  with c resolved"""
    from .poly import Poly
    v = loop.target.id if isinstance(loop.target, ast.Name) else None
    args = loop.iter.args
    if v is None or not args or len(args) > 2 or (len(args) == 2 and unparse(args[0]) != '0'):
        return 'UNKNOWN', f'loop header {unparse(loop.iter)}', None
    count = args[-1]
    body_stores = stores_in(ast.Module(body=loop.body, type_ignores=[]))

    def lens(x):
        return {f'len({x})', f'{x}.size', f'{x}.shape[0]'}

    def elem_store(stmts, idx):
        for s in stmts:
            t = s.targets[0] if isinstance(s, ast.Assign) and len(s.targets) == 1 else (s.target if isinstance(s, ast.AugAssign) else None)
            if isinstance(t, ast.Subscript) and isinstance(t.value, ast.Name) and isinstance(t.slice, ast.Name) and t.slice.id == idx:
                return t.value.id
        return None

    def single_def(name):
        d = [s for s in walk_no_nested(fn) if isinstance(s, ast.Assign) and len(s.targets) == 1 and isinstance(s.targets[0], ast.Name) and s.targets[0].id == name]
        aug = [s for s in walk_no_nested(fn) if isinstance(s, ast.AugAssign) and isinstance(s.target, ast.Name) and s.target.id == name]
        return d[0].value if len(d) == 1 and not aug else None

    X = elem_store(loop.body, v)
    if X is not None:
        ctxt = unparse(count)
        if isinstance(count, ast.Name) and single_def(count.id) is not None:
            ctxt = unparse(single_def(count.id))
        ok_lens = set(lens(X))
        xd = single_def(X)
        if isinstance(xd, ast.Call) and isinstance(xd.func, ast.Attribute) and isinstance(xd.func.value, ast.Name) and \
                ((xd.func.attr == 'reshape' and [unparse(a_) for a_ in xd.args] in (['-1'], ['(-1,)'])) or (xd.func.attr in ('ravel', 'flatten') and not xd.args)):
            ok_lens.add(f'{xd.func.value.id}.size')         # X is the flattened F: len(X) == F.size
        if unparse(count) in lens(X) or ctxt in ok_lens:
            return 'PROVEN', f'direct: {unparse(loop.iter)} indexes {X}[{v}]', X
        return 'REFUTED', f'{X}[{v}] is updated for {v} in {unparse(loop.iter)}, which is not the length of {X}: elements are skipped', X
    for inner in loop.body:
        if not (isinstance(inner, ast.For) and isinstance(inner.target, ast.Name) and isinstance(inner.iter, ast.Call)
                and dotted(inner.iter.func) == 'range' and len(inner.iter.args) == 2):
            continue
        X = elem_store(inner.body, inner.target.id)
        if X is None:
            continue
        lo, hi = inner.iter.args
        if _block_bounds(lo, hi, v, (), body_stores):
            T = unparse(lo.value)
            tdef = single_def(T)
            txt = unparse(tdef) if tdef is not None else ''
            n = unparse(count)
            ok = tdef is not None and 'linspace(0,' in txt and any(f'linspace(0, {L}, {n} + 1)' in txt for L in lens(X)) and unparse(lo.slice) == v
            if ok:
                return 'PROVEN', f'table: {T} = {txt} tiles [0, len({X})) in {n} blocks', X
            return 'UNKNOWN', f'block table {T} = {txt or "?"} not recognised as a tiling of {X}', X
        ab = affine_block(lo, hi, v, body_stores)
        if ab is None:
            return 'UNKNOWN', f'inner range({unparse(lo)}, {unparse(hi)}) not recognised', X
        step = ab['step']
        if ab['lo'].subst(v, Poly.const(0)) != Poly.const(0) or len(step.syms()) != 1 or step != Poly.sym(next(iter(step.syms()))):
            return 'UNKNOWN', f'blocks start at {ab["lo"]!r}', X
        c = next(iter(step.syms()))
        cdef = ATOMS[c] if c in ATOMS else single_def(c)
        n = _topoly(count, set())
        if cdef is None or n is None:
            return 'UNKNOWN', f'block size {c} has no single definition', X
        L = [t for t in lens(X)]

        def is_len(e):
            return unparse(e) in L

        def floordiv_by_n(e):
            return isinstance(e, ast.BinOp) and isinstance(e.op, ast.FloorDiv) and _topoly(e.right, set()) == n
        capped = ab['cap'] is not None and is_len(ab['cap'])
        # ceil forms: (len + n - 1) // n ; len // n + 1 ; -(-len // n)
        ceil = False
        if floordiv_by_n(cdef):
            num = cdef.left
            pn = _topoly(num, set())
            if pn is not None and any(pn == Poly.sym(f'len({X})') + n - 1 for _ in (0,)) and f'len({X})' in L:
                ceil = True
        if isinstance(cdef, ast.BinOp) and isinstance(cdef.op, ast.Add) and floordiv_by_n(cdef.left) and is_len(cdef.left.left) and unparse(cdef.right) == '1':
            ceil = True
        if isinstance(cdef, ast.UnaryOp) and isinstance(cdef.op, ast.USub) and floordiv_by_n(cdef.operand) and isinstance(cdef.operand.left, ast.UnaryOp) \
                and isinstance(cdef.operand.left.op, ast.USub) and is_len(cdef.operand.left.operand):
            ceil = True
        if ceil and capped:
            return 'PROVEN', f'affine: {unparse(count)} blocks of {c} = {unparse(cdef)} >= len/n, capped at len({X})', X
        if floordiv_by_n(cdef) and is_len(cdef.left):
            # floor: the remainder len % n must be handled by a tail loop range(n*c, len)
            after = False
            for s in walk_no_nested(fn):
                if isinstance(s, ast.For) and s is not inner and isinstance(s.iter, ast.Call) and dotted(s.iter.func) == 'range' and len(s.iter.args) == 2 \
                        and s.lineno > loop.lineno and is_len(s.iter.args[1]) and _topoly(s.iter.args[0], set()) == n * Poly.sym(c) \
                        and elem_store(s.body, s.target.id if isinstance(s.target, ast.Name) else '') == X:
                    after = True
            if after:
                return 'PROVEN', f'affine: {unparse(count)} blocks of {c} = {unparse(cdef)} plus a tail loop for the remainder', X
            return 'REFUTED', (f'{unparse(count)} blocks of {c} = {unparse(cdef)} elements cover only the first {unparse(count)}*{c} elements of {X}: '
                               f'the last len({X}) % {unparse(count)} elements are never updated (e.g. len({X}) = 1 with 2 threads updates nothing)'), X
        return 'UNKNOWN', f'block size {c} = {unparse(cdef)} not recognised', X
    return 'UNKNOWN', 'no element-wise store found', None
