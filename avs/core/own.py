"""Ownership classes of array stores under numba.prange (race freedom by construction).

A store A[idx...] inside `for v in prange(...)` is
  thread-row        some index is the prange variable v itself when v ranges over threads, or get_thread_id()
  iteration-private some index is exactly v (each iteration owns its row / element)
  block-private     some index is the variable of an inner `for i in range(T[v], T[v+1])` loop (T a block table)
  cursor-private    some index is a scalar read from a thread-row/iteration-private table cell
                    (s = P[v, k] ... P[v, k] += 1), i.e. a private cursor into a shared array
  slice-private     the stored array is a local slice X = A[S[v]:S[v+1]] of the iteration's own range
  local             the array was allocated inside the prange body
  shared            anything else  -> a data race unless the statement is a recognised reduction
Scalars assigned in the body are private (numba semantics).
"""
import ast

from .srcmodel import dotted, unparse, walk_no_nested, stores_in, names_in

PRANGE = {'numba.prange', 'nb.prange', 'prange'}
ALLOC = {'np.empty', 'np.zeros', 'np.ones', 'np.empty_like', 'np.zeros_like', 'np.full'}


class StoreInfo:
    def __init__(self, array, cls, node, loop, detail=''):
        self.array, self.cls, self.node, self.loop, self.detail = array, cls, node, loop, detail

    def key(self):
        return f'{self.array}[{unparse(self.node.slice) if isinstance(self.node, ast.Subscript) else "?"}]'


def prange_loops(fn):
    return [n for n in walk_no_nested(fn) if isinstance(n, ast.For) and isinstance(n.iter, ast.Call)
            and dotted(n.iter.func) in PRANGE]


def classify_loop(fn, loop):
    """Classify every array store inside one prange loop. Returns list of StoreInfo."""
    v = loop.target.id if isinstance(loop.target, ast.Name) else None
    out = []
    body = ast.Module(body=loop.body, type_ignores=[])
    # names holding get_thread_id()
    tids = set()
    local_arrays = set()
    local_slices = {}      # name -> base array expr text (slice over v-indexed bounds)
    cursors = {}           # scalar name -> table text it was read from (indexed by v / tid)
    inner_block = {}       # inner loop var -> True if its range is T[w] .. T[w+1] with w private index
    derived = {v} if v else set()     # scalars that are injective functions of v alone: not tracked beyond v itself

    def private_index(e):
        """Is expression e a private row selector: v, a tid name, or get_thread_id()?"""
        if isinstance(e, ast.Name) and (e.id == v or e.id in tids):
            return True
        if isinstance(e, ast.Call) and dotted(e.func).endswith('get_thread_id'):
            return True
        return False

    for n in walk_no_nested(body):
        if isinstance(n, ast.Assign) and len(n.targets) == 1 and isinstance(n.targets[0], ast.Name):
            name, val = n.targets[0].id, n.value
            if isinstance(val, ast.Call) and dotted(val.func).endswith('get_thread_id'):
                tids.add(name)
            elif isinstance(val, ast.Call) and dotted(val.func) in ALLOC:
                local_arrays.add(name)
            elif isinstance(val, ast.Subscript):
                sl = val.slice
                items = sl.elts if isinstance(sl, ast.Tuple) else [sl]
                if any(isinstance(it, ast.Slice) for it in items):
                    # X = A[S[e]:S[e+1]] with e built from v  -> the iteration's own range
                    it = [x for x in items if isinstance(x, ast.Slice)][0]
                    if it.lower is not None and it.upper is not None and _block_bounds(it.lower, it.upper, v, tids):
                        local_slices[name] = unparse(val.value)
                    elif isinstance(val.value, ast.Name) and val.value.id in local_slices:
                        local_slices[name] = local_slices[val.value.id]
                    elif isinstance(val.value, ast.Name) and val.value.id in local_arrays:
                        local_arrays.add(name)
                elif any(private_index(x) for x in items) and all(not isinstance(x, ast.Slice) for x in items):
                    cursors[name] = unparse(val.value)
        if isinstance(n, ast.Assign) and len(n.targets) == 1 and isinstance(n.targets[0], ast.Tuple) and isinstance(n.value, ast.Subscript):
            # j1, j2, j3 = T[v]: every unpacked scalar is a private cursor read from the iteration's own row
            items = n.value.slice.elts if isinstance(n.value.slice, ast.Tuple) else [n.value.slice]
            if any(private_index(x) for x in items) and all(not isinstance(x, ast.Slice) for x in items):
                for e in n.targets[0].elts:
                    if isinstance(e, ast.Name):
                        cursors[e.id] = unparse(n.value.value)
        if isinstance(n, ast.For) and isinstance(n.target, ast.Name) and isinstance(n.iter, ast.Call) \
                and dotted(n.iter.func) == 'range' and len(n.iter.args) == 2:
            lo, hi = n.iter.args
            if _block_bounds(lo, hi, v, tids):
                inner_block[n.target.id] = unparse(lo.value) if isinstance(lo, ast.Subscript) else '?'
    # cursor variables advanced by += 1 stay cursors (j1 += 1)
    for n in walk_no_nested(body):
        tgts = []
        if isinstance(n, ast.Assign):
            tgts = n.targets
        elif isinstance(n, ast.AugAssign):
            tgts = [n.target]
        for t in tgts:
            if not isinstance(t, ast.Subscript):
                continue
            base = t.value
            while isinstance(base, ast.Subscript):
                base = base.value
            arr = unparse(base)
            items = t.slice.elts if isinstance(t.slice, ast.Tuple) else [t.slice]
            if isinstance(base, ast.Name) and base.id in local_arrays:
                out.append(StoreInfo(arr, 'local', t, loop))
                continue
            if isinstance(base, ast.Name) and base.id in local_slices:
                out.append(StoreInfo(arr, 'slice-private', t, loop, f'slice of {local_slices[base.id]}'))
                continue
            cls = None
            for x in items:
                if isinstance(x, ast.Slice):
                    continue
                if private_index(x):
                    cls = 'thread-row' if (isinstance(x, ast.Name) and x.id in tids) or isinstance(x, ast.Call) else 'iteration-private'
                    break
                if isinstance(x, ast.Name) and x.id in inner_block:
                    cls = 'block-private'
                    break
                if isinstance(x, ast.Name) and x.id in cursors:
                    cls = 'cursor-private'
                    break
            if cls is None:
                # whole-slice stores with explicit private bounds: A[T[v]:T[v+1]] = ...
                for x in items:
                    if isinstance(x, ast.Slice) and x.lower is not None and x.upper is not None and _block_bounds(x.lower, x.upper, v, tids):
                        cls = 'slice-private'
            out.append(StoreInfo(arr, cls or 'shared', t, loop))
    return out


def _block_bounds(lo, hi, v, tids):
    """lo, hi == T[e], T[e+1] for the same table T, e an expression in the private index v only
    (or a tid name); also accepts offsets  T[e] + c .. T[e+1] + c."""
    if not (isinstance(lo, ast.Subscript) and isinstance(hi, ast.Subscript)):
        return False
    if unparse(lo.value) != unparse(hi.value):
        return False
    el, eh = lo.slice, hi.slice
    names = {n.id for n in ast.walk(el) if isinstance(n, ast.Name)}
    if not names or not names <= ({v} | set(tids)):
        return False
    # eh must be el + 1
    a, b = _affine(el, names), _affine(eh, names)
    if a is None or b is None:
        return False
    return a[0] == b[0] and b[1] - a[1] == 1 and a[0] != 0


def _affine(e, names):
    """e as (coef, const) in the single variable of `names` (integers only)."""
    if isinstance(e, ast.Constant) and isinstance(e.value, int):
        return (0, e.value)
    if isinstance(e, ast.Name) and e.id in names:
        return (1, 0)
    if isinstance(e, ast.BinOp):
        l, r = _affine(e.left, names), _affine(e.right, names)
        if l is None or r is None:
            return None
        if isinstance(e.op, ast.Add):
            return (l[0] + r[0], l[1] + r[1])
        if isinstance(e.op, ast.Sub):
            return (l[0] - r[0], l[1] - r[1])
        if isinstance(e.op, ast.Mult):
            if l[0] == 0:
                return (l[1] * r[0], l[1] * r[1])
            if r[0] == 0:
                return (r[1] * l[0], r[1] * l[1])
    return None


def classify_function(fn):
    res = []
    for lp in prange_loops(fn):
        res.extend(classify_loop(fn, lp))
    return res


def thread_row_arrays(fn):
    """Arrays allocated with leading dimension equal to a thread count (nthread / get_num_threads())."""
    out = {}
    for n in walk_no_nested(fn):
        if isinstance(n, ast.Assign) and isinstance(n.targets[0], ast.Name) and isinstance(n.value, ast.Call) \
                and dotted(n.value.func) in ALLOC and n.value.args and isinstance(n.value.args[0], ast.Tuple):
            out[n.targets[0].id] = unparse(n.value.args[0].elts[0])
    return out
