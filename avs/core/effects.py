"""History independence (effect analysis).  Every property quantifies over all histories of calls in one process, so
a function on a property's path may not let one call influence a later one through state that outlives the call:
module-level names, class-level attributes (reached as C.x, type(self).x, self.__class__.x, cls.x, or self.x when x is
only ever bound in the class body), function attributes, mutable default arguments, memoising decorators.

The rule is exact about the one legitimate use of such state, a cache: a store  S[key] = value  into shared state is
accepted when every input the value is computed from is determined by the key (dependence closure of the value,
including the free variables of closures stored in it and everything stored later through an alias of it, is
contained in the dependence closure of the key).  Any other write to shared state is reported.

Expected count on the reviewed tree: zero writes in the files of the 20 properties; the canary below is analysed on
every run so that the rule cannot pass by having gone blind."""
import ast
import builtins

from .srcmodel import unparse, AnalysisError

MUTATORS = {'append', 'extend', 'insert', 'update', 'setdefault', 'pop', 'popitem', 'clear', 'add', 'remove', 'discard',
            'sort', 'reverse', '__setitem__', '__delitem__', 'appendleft', 'extendleft'}
CACHE_DECOS = ('lru_cache', 'cache', 'cached_property', 'memoize', 'memoise')
BUILTINS = set(dir(builtins))


def _mutable_literal(v):
    return isinstance(v, (ast.Dict, ast.List, ast.Set, ast.DictComp, ast.ListComp, ast.SetComp)) or \
        (isinstance(v, ast.Call) and unparse(v.func).split('.')[-1] in ('dict', 'list', 'set', 'defaultdict', 'OrderedDict', 'deque', 'Counter'))


def _root(e):
    """Strip subscripts / attributes / calls of the receiver: the expression whose object is (partly) written."""
    chain = []
    while isinstance(e, (ast.Subscript, ast.Attribute)):
        chain.append(e)
        e = e.value
    return e, chain[::-1]


class ModuleInfo:
    def __init__(self, tree):
        self.tree = tree
        self.mod_names, self.mod_assign_count, self.imports, self.classes, self.funcs = set(), {}, set(), {}, set()
        for s in tree.body:
            for t in self._targets(s):
                self.mod_names.add(t)
                self.mod_assign_count[t] = self.mod_assign_count.get(t, 0) + 1
            if isinstance(s, (ast.Import, ast.ImportFrom)):
                for a in s.names:
                    self.imports.add((a.asname or a.name).split('.')[0])
            if isinstance(s, ast.ClassDef):
                self.classes[s.name] = s
            if isinstance(s, (ast.FunctionDef, ast.AsyncFunctionDef)):
                self.funcs.add(s.name)
        # names bound conditionally at module level (try/except imports, if blocks)
        for s in tree.body:
            if isinstance(s, (ast.Try, ast.If, ast.With)):
                for x in ast.walk(s):
                    if isinstance(x, (ast.Import, ast.ImportFrom)):
                        for a in x.names:
                            self.imports.add((a.asname or a.name).split('.')[0])
                    for t in self._targets(x):
                        self.mod_names.add(t)
                        self.mod_assign_count[t] = self.mod_assign_count.get(t, 0) + 2

    @staticmethod
    def _targets(s):
        out = []
        if isinstance(s, ast.Assign):
            tg = s.targets
        elif isinstance(s, (ast.AnnAssign, ast.AugAssign)):
            tg = [s.target]
        else:
            return out
        for t in tg:
            for x in ast.walk(t):
                if isinstance(x, ast.Name) and isinstance(x.ctx, ast.Store):
                    out.append(x.id)
        return out

    def class_level(self, cls):
        names = set()
        for s in cls.body:
            names.update(self._targets(s))
        return names

    def class_mutable(self, cls, name):
        for s in cls.body:
            if isinstance(s, (ast.Assign, ast.AnnAssign)) and name in self._targets(s) and s.value is not None and \
                    (_mutable_literal(s.value) or (isinstance(s.value, ast.Call) and unparse(s.value.func).split('.')[-1] in ('bytearray', 'array', 'zeros', 'empty'))):
                return True
        return False

    def self_bound_in_init(self, cls):
        out = set()
        for c in cls.body:
            if isinstance(c, ast.FunctionDef) and c.name == '__init__':
                out |= self.self_bound(c)
        return out

    def self_bound(self, cls):
        """attributes bound through self.<x> = ... somewhere in the class (instance attributes)."""
        out = set()
        for n in ast.walk(cls):
            if isinstance(n, (ast.Assign, ast.AnnAssign, ast.AugAssign)):
                tg = n.targets if isinstance(n, ast.Assign) else [n.target]
                for t in tg:
                    for x in ([t] if not isinstance(t, ast.Tuple) else t.elts):
                        if isinstance(x, ast.Attribute) and isinstance(x.value, ast.Name) and x.value.id == 'self':
                            out.add(x.attr)
        return out


class FnInfo:
    def __init__(self, fn, cls, mi):
        self.fn, self.cls, self.mi = fn, cls, mi
        a = fn.args
        self.params = [x.arg for x in a.posonlyargs + a.args + a.kwonlyargs] + ([a.vararg.arg] if a.vararg else []) + ([a.kwarg.arg] if a.kwarg else [])
        self.globals_decl = set()
        self.locals = set(self.params)
        self.defs = {}       # local name -> list of value expressions (None for opaque bindings)
        self.stores_through = {}   # local name / text -> list of stored value expressions
        for n in self._walk(fn):
            if isinstance(n, (ast.Global, ast.Nonlocal)):
                self.globals_decl.update(n.names)
        for n in self._walk(fn):
            if isinstance(n, ast.Assign):
                for t in n.targets:
                    self._bind(t, n.value)
            elif isinstance(n, ast.AnnAssign) and n.value is not None:
                self._bind(n.target, n.value)
            elif isinstance(n, ast.AugAssign):
                self._bind(n.target, n.value, aug=True)
            elif isinstance(n, (ast.For, ast.comprehension)):
                self._bind(n.target, n.iter)
            elif isinstance(n, ast.With):
                for it in n.items:
                    if it.optional_vars is not None:
                        self._bind(it.optional_vars, it.context_expr)
            elif isinstance(n, (ast.FunctionDef, ast.ClassDef)) and n is not fn:
                self.locals.add(n.name)
                self.defs.setdefault(n.name, []).append(n)
            elif isinstance(n, ast.NamedExpr):
                self._bind(n.target, n.value)
            elif isinstance(n, ast.ExceptHandler) and n.name:
                self.locals.add(n.name)
            elif isinstance(n, ast.Call) and isinstance(n.func, ast.Attribute) and n.func.attr in MUTATORS:
                self.stores_through.setdefault(unparse(n.func.value), []).extend(list(n.args) + [k.value for k in n.keywords])
        self.locals -= self.globals_decl

    def _walk(self, fn):
        """All nodes of the function, descending into nested functions and lambdas too (their stores to captured
        objects happen on behalf of this function)."""
        return ast.walk(fn)

    def _bind(self, t, value, aug=False):
        if isinstance(t, ast.Name):
            self.locals.add(t.id)
            self.defs.setdefault(t.id, []).append(value)
        elif isinstance(t, (ast.Tuple, ast.List)):
            for e in t.elts:
                self._bind(e, value)
        elif isinstance(t, ast.Starred):
            self._bind(t.value, value)
        elif isinstance(t, (ast.Subscript, ast.Attribute)):
            self.stores_through.setdefault(unparse(t.value), []).append(value)
            if isinstance(t, ast.Subscript):
                self.stores_through[unparse(t.value)].append(t.slice)


class Analysis:
    def __init__(self, tree):
        self.mi = ModuleInfo(tree)
        self.findings = []   # (verdict, func qualname, node, text)
        self.nfuncs = 0
        self.nsites = 0

    # ------------------------------------------------------------------ shared bases
    def shared_base(self, e, fi):
        """Describe e if it denotes state that outlives the call, else None."""
        mi = self.mi
        if isinstance(e, ast.Name):
            if e.id in fi.globals_decl:
                return f'module-level name {e.id}'
            if e.id in fi.locals:
                # a parameter with a mutable default is shared between calls
                d = self._default_of(fi.fn, e.id)
                if d is not None and _mutable_literal(d) and e.id in fi.params:
                    return f'mutable default of parameter {e.id}'
                return None
            if e.id in mi.mod_names and e.id not in mi.imports:
                return f'module-level name {e.id}'
            if e.id in mi.classes:
                return f'class {e.id}'
            if e.id in mi.funcs:
                return f'function object {e.id}'
            return None
        if isinstance(e, ast.Attribute):
            b = e.value
            bt = unparse(b)
            if bt in ('type(self)', 'self.__class__') or (isinstance(b, ast.Name) and (b.id in mi.classes or (b.id == 'cls' and fi.params[:1] == ['cls']))):
                return f'class attribute {bt}.{e.attr}'
            if isinstance(b, ast.Name) and b.id == 'self' and fi.cls is not None:
                if e.attr in mi.class_level(fi.cls) and e.attr not in mi.self_bound(fi.cls):
                    return f'class attribute self.{e.attr} (bound only in the class body)'
                if e.attr in mi.class_level(fi.cls) and e.attr not in mi.self_bound_in_init(fi.cls) and mi.class_mutable(fi.cls, e.attr):
                    return f'class attribute self.{e.attr} (a mutable object created once in the class body; instances share it until they rebind it)'
            if isinstance(b, ast.Name) and b.id in mi.funcs and b.id not in fi.locals:
                return f'function attribute {bt}.{e.attr}'
            return None
        if isinstance(e, ast.Call):
            # vars(type(self)) / type(self).__dict__ / globals()
            t = unparse(e)
            if t.startswith(('globals()', 'vars(type(self))', 'vars(self.__class__)')):
                return t
        return None

    @staticmethod
    def _default_of(fn, name):
        a = fn.args
        pos = a.posonlyargs + a.args
        for p, d in zip(pos[len(pos) - len(a.defaults):], a.defaults):
            if p.arg == name:
                return d
        for p, d in zip(a.kwonlyargs, a.kw_defaults):
            if p.arg == name and d is not None:
                return d
        return None

    def resolve_alias(self, e, fi, depth=0):
        """Follow local names bound once to an expression that denotes shared state."""
        root, chain = _root(e)
        for k in range(len(chain), -1, -1):
            # longest prefix first:  type(self)._cache[mode]  -> base type(self)._cache
            cand = chain[k - 1] if k > 0 else root
            d = self.shared_base(cand, fi)
            if d:
                return d
        if isinstance(root, ast.Name) and root.id in fi.locals and depth < 4:
            vals = [v for v in fi.defs.get(root.id, []) if isinstance(v, ast.expr)]
            for v in vals:
                if isinstance(v, (ast.Name, ast.Attribute, ast.Subscript)):
                    d = self.resolve_alias(v, fi, depth + 1)
                    if d:
                        return d + f' (through local {root.id})'
                if isinstance(v, ast.Call) and isinstance(v.func, ast.Attribute) and v.func.attr in ('setdefault', 'get'):
                    d = self.resolve_alias(v.func.value, fi, depth + 1)
                    if d:
                        return d + f' (through local {root.id})'
        return None

    # ------------------------------------------------------------------ dependence closure
    def deps(self, e, fi, seen=None, bound=frozenset()):
        seen = seen if seen is not None else set()
        out = set()
        if e is None:
            return out
        if isinstance(e, (ast.FunctionDef, ast.Lambda)):
            a = e.args
            inner = set(x.arg for x in a.posonlyargs + a.args + a.kwonlyargs) | ({a.vararg.arg} if a.vararg else set()) | ({a.kwarg.arg} if a.kwarg else set())
            body = e.body if isinstance(e.body, list) else [e.body]
            assigned = set()
            for b in body:
                for x in ast.walk(b):
                    if isinstance(x, ast.Name) and isinstance(x.ctx, ast.Store):
                        assigned.add(x.id)
            for b in body:
                out |= self.deps(b, fi, seen, bound | inner | assigned)
            for d in a.defaults + [k for k in a.kw_defaults if k is not None]:
                out |= self.deps(d, fi, seen, bound)
            return out
        for n in self._names_and_attrs(e):
            if isinstance(n, ast.Attribute):
                # self.a.b -> 'self.a'
                out.add('self.' + n.attr)
                continue
            if isinstance(n, (ast.Lambda, ast.FunctionDef)):
                out |= self.deps(n, fi, seen, bound)
                continue
            nm = n.id
            if nm in bound or nm in BUILTINS:
                continue
            if nm in fi.locals and nm not in fi.params:
                if nm in seen:
                    continue
                seen.add(nm)
                for v in fi.defs.get(nm, []):
                    out |= self.deps(v, fi, seen, bound)
                for v in fi.stores_through.get(nm, []):
                    out |= self.deps(v, fi, seen, bound)
            elif nm in fi.params:
                out.add('self' if nm == 'self' else 'param:' + nm)
            elif nm in self.mi.imports or nm in self.mi.funcs or nm in self.mi.classes:
                continue
            elif nm in self.mi.mod_names:
                if self.mi.mod_assign_count.get(nm, 0) > 1 or nm in self.written_globals:
                    out.add('global:' + nm)
            # unknown free names (star imports) are treated as constants
        return out

    def _names_and_attrs(self, e):
        """Name nodes read in e; `self.x...` chains are returned as the first Attribute (and not descended)."""
        out = []
        stack = [e]
        while stack:
            n = stack.pop()
            if isinstance(n, ast.Attribute) and isinstance(n.value, ast.Name) and n.value.id == 'self':
                out.append(n)
                continue
            if isinstance(n, (ast.Lambda, ast.FunctionDef)) and n is not e:
                out.append(n)
                continue
            if isinstance(n, ast.Name) and isinstance(n.ctx, ast.Load):
                out.append(n)
            stack.extend(ast.iter_child_nodes(n))
        return out

    # ------------------------------------------------------------------ driver
    def run(self):
        mi = self.mi
        self.written_globals = set()
        fns = []
        for s in mi.tree.body:
            if isinstance(s, (ast.FunctionDef, ast.AsyncFunctionDef)):
                fns.append((s, None, s.name))
            elif isinstance(s, ast.ClassDef):
                for c in s.body:
                    if isinstance(c, (ast.FunctionDef, ast.AsyncFunctionDef)):
                        fns.append((c, s, f'{s.name}.{c.name}'))
        infos = [(FnInfo(fn, cls, mi), q) for fn, cls, q in fns]
        for fi, q in infos:
            for n in ast.walk(fi.fn):
                if isinstance(n, ast.Name) and isinstance(n.ctx, ast.Store) and n.id in fi.globals_decl:
                    self.written_globals.add(n.id)
        for fi, q in infos:
            self.nfuncs += 1
            self._function(fi, q)
        return self

    def _function(self, fi, q):
        fn = fi.fn
        # memoising decorators
        for d in fn.decorator_list:
            t = unparse(d)
            if any(c in t.split('(')[0].split('.')[-1] for c in CACHE_DECOS):
                self.nsites += 1
                free = {x for x in self.deps(ast.Module(body=fn.body, type_ignores=[]), fi) if x.startswith('global:') or x.startswith('self.')}
                if free:
                    self.findings.append(('REFUTED', q, fn, f'@{t}: results are memoised per argument tuple but also depend on {sorted(free)}, '
                                          'which can change between calls'))
                else:
                    self.findings.append(('PROVEN', q, fn, f'@{t}: the result depends only on the arguments'))
        for n in ast.walk(fn):
            targets, value = [], None
            if isinstance(n, ast.Assign):
                targets, value = n.targets, n.value
            elif isinstance(n, ast.AugAssign):
                targets, value = [n.target], n.value
            elif isinstance(n, ast.AnnAssign) and n.value is not None:
                targets, value = [n.target], n.value
            elif isinstance(n, ast.Delete):
                targets = n.targets
            elif isinstance(n, ast.Call) and isinstance(n.func, ast.Attribute) and n.func.attr in MUTATORS:
                d = self.resolve_alias(n.func.value, fi)
                if d:
                    self.nsites += 1
                    if n.func.attr == 'setdefault' and len(n.args) == 2:
                        self._cache_store(fi, q, n, n.func.value, n.args[0], n.args[1], [], d)
                    else:
                        self.findings.append(('REFUTED', q, n, f'{unparse(n)[:70]}: mutates {d}; a later call (or another instance) sees the change'))
                continue
            elif isinstance(n, ast.Call) and unparse(n.func) == 'setattr' and len(n.args) == 3:
                d = self.shared_base(n.args[0], fi) or (unparse(n.args[0]) in ('type(self)', 'self.__class__') and unparse(n.args[0]))
                if d:
                    self.nsites += 1
                    self.findings.append(('REFUTED', q, n, f'{unparse(n)[:70]}: sets an attribute of {d}'))
                continue
            for t in targets:
                for x in ([t] if not isinstance(t, (ast.Tuple, ast.List)) else t.elts):
                    if isinstance(x, ast.Name):
                        if x.id in fi.globals_decl:
                            self.nsites += 1
                            self.findings.append(('REFUTED', q, n, f'{unparse(n)[:70]}: rebinds the module-level name {x.id}; a later call sees the new value'))
                        continue
                    if not isinstance(x, (ast.Subscript, ast.Attribute)):
                        continue
                    # the object written to is x.value (for S[k] = v and S.a = v)
                    d = self.resolve_alias(x.value, fi)
                    if not d and isinstance(x, ast.Attribute):
                        d0 = self.shared_base(x, fi)
                        d = d0 if d0 and d0.startswith(('class attribute', 'function attribute')) else None
                        if d:
                            self.nsites += 1
                            self.findings.append(('REFUTED', q, n, f'{unparse(n)[:70]}: binds the {d}, shared by every instance and every later call'))
                            continue
                    if d:
                        self.nsites += 1
                        if isinstance(x, ast.Subscript) and isinstance(n, (ast.Assign, ast.AnnAssign)):
                            others = [o for o in targets if o is not t]
                            self._cache_store(fi, q, n, x.value, x.slice, value, others, d)
                        else:
                            self.findings.append(('REFUTED', q, n, f'{unparse(n)[:70]}: writes {d}; a later call (or another instance) sees the change'))

    def _cache_store(self, fi, q, node, container, key, value, other_targets, desc):
        kd = self.deps(key, fi)
        vd = self.deps(value, fi)
        # what is stored later through an alias of the cached object (the other targets of a chained assignment,
        # the value when it is a name)
        aliases = [unparse(o) for o in other_targets] + ([unparse(value)] if isinstance(value, (ast.Name, ast.Attribute)) else [])
        for a in aliases:
            for v in fi.stores_through.get(a, []):
                vd |= self.deps(v, fi)
        if 'self' in kd:
            vd = {x for x in vd if not x.startswith('self')}
        missing = sorted(x for x in vd - kd)
        if missing:
            self.findings.append(('REFUTED', q, node, f'{unparse(node)[:70]}: stores into {desc} under the key {unparse(key)[:40]}, but the stored value also depends on '
                                  f'{missing}: a later call with the same key and a different {missing[0]} gets the stale value'))
        else:
            self.findings.append(('PROVEN', q, node, f'{unparse(node)[:60]}: cache in {desc}; everything the value depends on ({sorted(vd)}) is determined by the key'))


CANARY = '''
_TABLES = {}
class K:
    _cache = {}
    def setup(self, mode):
        if mode in self._cache:
            self.t = self._cache[mode]
            return
        box = self.header['BoxSize']
        self.t = self._cache[mode] = {}
        self.t['x'] = lambda raw: raw * box
def good(n):
    if n not in _TABLES:
        _TABLES[n] = [i * i for i in range(n)]
    return _TABLES[n]
def bad(acc=[]):
    acc.append(1)
    return acc
'''


def canary():
    a = Analysis(ast.parse(CANARY)).run()
    got = sorted((v, q) for v, q, _, _ in a.findings)
    want = [('PROVEN', 'good'), ('REFUTED', 'K.setup'), ('REFUTED', 'bad')]
    if got != want:
        raise AnalysisError(f'history-independence canary: expected {want}, got {got}')


def _reachable(tree, start):
    """Qualified names of the functions of this module reachable from `start` through calls by plain name or self.<m>."""
    table = {}
    for s in tree.body:
        if isinstance(s, (ast.FunctionDef, ast.AsyncFunctionDef)):
            table[s.name] = (s, None)
        elif isinstance(s, ast.ClassDef):
            for c in s.body:
                if isinstance(c, (ast.FunctionDef, ast.AsyncFunctionDef)):
                    table[f'{s.name}.{c.name}'] = (c, s.name)
    seen, work = set(), [q for q in start if q in table]
    while work:
        q = work.pop()
        if q in seen:
            continue
        seen.add(q)
        fn, cls = table[q]
        if fn.name == '__init__':
            continue      # the constructor calls every stage of the class: its own body is in scope, not all it reaches
        for n in ast.walk(fn):
            if isinstance(n, ast.Call):
                t = None
                if isinstance(n.func, ast.Name) and n.func.id in table:
                    t = n.func.id
                elif isinstance(n.func, ast.Attribute) and isinstance(n.func.value, ast.Name) and n.func.value.id in ('self', 'cls') and cls:
                    t = f'{cls}.{n.func.attr}'
                if t in table and t not in seen:
                    work.append(t)
    return seen


def path_scope(chk, rel):
    """Functions of `rel` that the property's own obligations are about, and everything they reach inside the module."""
    tree = chk.src.tree(rel)
    start = {f.split(':', 1)[1] for f in chk.functions if f.startswith(rel + ':')}
    return _reachable(tree, start)


def history_rule(chk, files, rule):
    """Adds the obligations of the history-independence rule to chk under the id `rule`: for every file of `files`,
    the functions the property's own obligations are about, and everything they reach by calls inside the module."""
    canary()
    for rel in files:
        if not chk.src.exists(rel):
            continue
        tree = chk.src.tree(rel)
        start = {f.split(':', 1)[1] for f in chk.functions if f.startswith(rel + ':')}
        scope = _reachable(tree, start)
        if not scope:
            continue
        a = Analysis(tree).run()
        a.findings = [f for f in a.findings if f[1] in scope]
        a.nfuncs = len(scope)
        bad = [f for f in a.findings if f[0] == 'REFUTED']
        for v, q, node, text in a.findings:
            if v == 'REFUTED':
                chk.refuted(rule, rel, q, f'no call leaves state behind for a later call: {unparse(node)[:50]}', text, node=node)
            else:
                chk.proven(rule, rel, q, f'cache keyed by everything its value depends on: {unparse(node)[:50]}', text, node=node)
        if not bad:
            chk.proven(rule, rel, '<module>', 'no function writes module-, class- or default-argument state (or only complete caches)',
                       f'{a.nfuncs} functions on the property\'s path: {sorted(scope)[:12]}', nontrivial=False)


# ------------------------------------------------------------------------------------------------------------------
# Caller-owned containers.  A function may not change a dict / list it was handed (pop, clear, update, append, del x[k] ...)
# unless the object is its own: a **kwargs dictionary, or a name re-bound to a fresh copy on every path before the mutation.
# Subscript stores are not counted (output arrays are written by design).  A private helper is judged at its call sites: it is
# a finding only if some caller inside the module passes on an object that the caller itself only borrowed.
ARG_MUTATORS = {'pop', 'popitem', 'clear', 'update', 'setdefault', 'append', 'extend', 'insert', 'remove', 'sort', 'reverse', 'discard', 'add'}
FRESH_CALLS = {'dict', 'list', 'set', 'sorted', 'tuple', 'copy.copy', 'copy.deepcopy', 'np.array', 'np.copy', 'OrderedDict'}


def _fresh_value(v, borrowed):
    if isinstance(v, (ast.Dict, ast.List, ast.Set, ast.DictComp, ast.ListComp, ast.SetComp, ast.Constant, ast.Tuple)):
        return True
    if isinstance(v, ast.Call):
        cn = unparse(v.func)
        if cn in FRESH_CALLS:
            return True
        if isinstance(v.func, ast.Attribute) and v.func.attr in ('copy', 'tolist', 'keys', 'values', 'items'):
            return True
    if isinstance(v, ast.Name):
        return v.id not in borrowed
    return False


def argument_mutations(fn):
    """[(param, node)] -- mutations of a container parameter reachable while the name still denotes the caller's object."""
    a = fn.args
    params = [x.arg for x in a.posonlyargs + a.args + a.kwonlyargs if x.arg not in ('self', 'cls')]
    out = []

    def walk(stmts, borrowed):
        borrowed = set(borrowed)
        for s in stmts:
            if isinstance(s, (ast.FunctionDef, ast.AsyncFunctionDef, ast.ClassDef)):
                continue
            if isinstance(s, (ast.If, ast.While, ast.For)):
                hd = s.test if isinstance(s, (ast.If, ast.While)) else s.iter
                for n in ast.walk(hd):
                    if isinstance(n, ast.Call) and isinstance(n.func, ast.Attribute) and n.func.attr in ARG_MUTATORS and isinstance(n.func.value, ast.Name) \
                            and n.func.value.id in borrowed:
                        out.append((n.func.value.id, n))
            if isinstance(s, ast.If):
                b1 = walk(s.body, borrowed)
                b2 = walk(s.orelse, borrowed)
                borrowed = b1 | b2
                continue
            if isinstance(s, (ast.For, ast.While)):
                b1 = walk(s.body, borrowed)
                borrowed = borrowed | b1
                walk(s.orelse, borrowed)
                continue
            if isinstance(s, ast.With):
                borrowed = walk(s.body, borrowed)
                continue
            if isinstance(s, ast.Try):
                b = walk(s.body, borrowed)
                for h in s.handlers:
                    b |= walk(h.body, borrowed)
                borrowed = walk(s.finalbody, walk(s.orelse, b))
                continue
            # mutations in this simple statement (evaluated before any rebinding it performs)
            for n in ast.walk(s):
                if isinstance(n, ast.Call) and isinstance(n.func, ast.Attribute) and n.func.attr in ARG_MUTATORS and isinstance(n.func.value, ast.Name) \
                        and n.func.value.id in borrowed:
                    out.append((n.func.value.id, n))
                if isinstance(n, ast.Delete):
                    for t in n.targets:
                        if isinstance(t, ast.Subscript) and isinstance(t.value, ast.Name) and t.value.id in borrowed:
                            out.append((t.value.id, n))
            if isinstance(s, (ast.Assign, ast.AnnAssign)) and getattr(s, 'value', None) is not None:
                tg = s.targets if isinstance(s, ast.Assign) else [s.target]
                for t in tg:
                    if isinstance(t, ast.Name) and t.id in params:
                        if _fresh_value(s.value, borrowed):
                            borrowed.discard(t.id)
                        else:
                            borrowed.add(t.id)
        return borrowed
    walk(fn.body, set(params))
    return out


def borrowed_argument_rule(chk, rel, scope, rule):
    """Obligations: inside `scope` (qualified names of `rel`) no function changes a dict / list that belongs to its caller."""
    tree = chk.src.tree(rel)
    table = {}
    for s in tree.body:
        if isinstance(s, (ast.FunctionDef, ast.AsyncFunctionDef)):
            table[s.name] = (s, None)
        elif isinstance(s, ast.ClassDef):
            for c in s.body:
                if isinstance(c, (ast.FunctionDef, ast.AsyncFunctionDef)):
                    table[f'{s.name}.{c.name}'] = (c, s.name)
    muts = {q: argument_mutations(fn) for q, (fn, _) in table.items()}
    n = 0
    for q in sorted(scope):
        if q not in table or not muts[q]:
            continue
        fn, cls = table[q]
        pos = [x.arg for x in fn.args.posonlyargs + fn.args.args if x.arg not in ('self', 'cls')]
        private = fn.name.startswith('_') and not fn.name.startswith('__')
        for p, node in muts[q]:
            n += 1
            owners = []
            if private:
                # every call site inside the module: is the object handed over the caller's own?
                for cq, (cf, ccls) in table.items():
                    ca = cf.args
                    cparams = {x.arg for x in ca.posonlyargs + ca.args + ca.kwonlyargs if x.arg not in ('self', 'cls')}
                    varkw = ca.kwarg.arg if ca.kwarg else None
                    for c in ast.walk(cf):
                        if not isinstance(c, ast.Call):
                            continue
                        callee = None
                        if isinstance(c.func, ast.Name) and c.func.id == fn.name and cls is None:
                            callee = True
                        elif isinstance(c.func, ast.Attribute) and c.func.attr == fn.name and isinstance(c.func.value, ast.Name) and c.func.value.id in ('self', 'cls') and cls == ccls:
                            callee = True
                        if not callee:
                            continue
                        arg = None
                        if p in pos and pos.index(p) < len(c.args):
                            arg = c.args[pos.index(p)]
                        for k in c.keywords:
                            if k.arg == p:
                                arg = k.value
                        if arg is None:
                            continue
                        # names of the caller that denote an object it only borrowed: its parameters (not **kwargs) and locals bound to one
                        cb = set(cparams) - {varkw}
                        for _ in range(3):
                            for s_ in ast.walk(cf):
                                if isinstance(s_, ast.Assign) and len(s_.targets) == 1 and isinstance(s_.targets[0], ast.Name) and isinstance(s_.value, ast.Name) \
                                        and s_.value.id in cb:
                                    cb.add(s_.targets[0].id)
                        if isinstance(arg, ast.Name) and arg.id in cb:
                            # borrowed unless the caller re-bound that name to a fresh object, unconditionally, before the call
                            uncond = [s_ for s_ in cf.body if isinstance(s_, ast.Assign) and any(isinstance(t, ast.Name) and t.id == arg.id for t in s_.targets)
                                      and s_.lineno < c.lineno and _fresh_value(s_.value, cb)]
                            if not uncond:
                                owners.append(f'{cq} passes on {arg.id}, which it was given itself')
                        elif isinstance(arg, ast.Attribute):
                            owners.append(f'{cq} passes {unparse(arg)}')
            else:
                owners.append('public function: the argument is the user\'s object')
            chk.check(not owners, rule, rel, q, f'{unparse(node)[:50]}: the container {p} changed here is the function\'s own', 'every call site passes a fresh object',
                      f'{unparse(node)[:60]} changes the caller\'s {p} ({"; ".join(owners[:2])}): a second call with the same object sees a different request '
                      '(e.g. a reused `subsamples` dict selects nothing the second time)', node=node, nontrivial=False)
    return n


# --------------------------------------------------------------------------- H3: calls that can only raise
BUILTIN_KEYWORDS = {
    'print': {'sep', 'end', 'file', 'flush'}, 'len': set(), 'range': set(), 'isinstance': set(), 'abs': set(), 'id': set(),
    'enumerate': {'start', 'iterable'}, 'zip': {'strict'}, 'sorted': {'key', 'reverse'}, 'min': {'key', 'default'}, 'max': {'key', 'default'},
    'sum': {'start'}, 'round': {'ndigits', 'number'}, 'any': set(), 'all': set(), 'iter': set(), 'next': set(), 'repr': set(), 'type': set(),
}
BUILTIN_MAXPOS = {'len': 1, 'abs': 1, 'isinstance': 2, 'range': 3, 'round': 2, 'any': 1, 'all': 1, 'repr': 1, 'id': 1, 'sum': 2, 'next': 2, 'iter': 2}


def builtin_signature_rule(chk, rel, scope, rule):
    """A call of a builtin with a keyword it does not accept (print(..., stacklevel=2)) or with too many positional arguments raises
    TypeError on every execution that reaches it: the function cannot deliver its result on that path, whatever the property says
    about the result.  Decided from the call syntax for the builtins of the table above that are not re-bound in the module."""
    # the file as written on disk: the normal forms drop diagnostic print statements, which are exactly the calls this rule is about
    tree = ast.parse(chk.src.text_raw(rel))
    rebound = {n.id for n in ast.walk(tree) if isinstance(n, ast.Name) and isinstance(n.ctx, ast.Store)} | \
              {a.arg for f in ast.walk(tree) if isinstance(f, (ast.FunctionDef, ast.Lambda)) for a in f.args.args + f.args.kwonlyargs} | \
              {f.name for f in ast.walk(tree) if isinstance(f, (ast.FunctionDef, ast.ClassDef))} | \
              {(al.asname or al.name).split('.')[0] for im in ast.walk(tree) if isinstance(im, (ast.Import, ast.ImportFrom)) for al in im.names}
    table = {}
    for s_ in tree.body:
        if isinstance(s_, (ast.FunctionDef, ast.AsyncFunctionDef)):
            table[s_.name] = s_
        elif isinstance(s_, ast.ClassDef):
            for c in s_.body:
                if isinstance(c, (ast.FunctionDef, ast.AsyncFunctionDef)):
                    table[f'{s_.name}.{c.name}'] = c
    n_calls = 0
    for q in sorted(scope):
        fn = table.get(q)
        if fn is None:
            continue
        for c in ast.walk(fn):
            if not (isinstance(c, ast.Call) and isinstance(c.func, ast.Name) and c.func.id in BUILTIN_KEYWORDS and c.func.id not in rebound):
                continue
            n_calls += 1
            name = c.func.id
            badkw = [k.arg for k in c.keywords if k.arg is not None and k.arg not in BUILTIN_KEYWORDS[name]]
            npos = len([a for a in c.args if not isinstance(a, ast.Starred)])
            toomany = name in BUILTIN_MAXPOS and npos > BUILTIN_MAXPOS[name] and not any(isinstance(a, ast.Starred) for a in c.args)
            if badkw or toomany:
                why = f"{name}() does not accept the keyword{'s' if len(badkw) > 1 else ''} {', '.join(badkw)}" if badkw else f'{name}() takes at most {BUILTIN_MAXPOS[name]} positional arguments'
                chk.refuted(rule, rel, q, 'every call of a builtin matches its signature',
                            f'{unparse(c)[:70]}: {why}: TypeError on every execution that reaches this statement, so the call fails instead of returning its result', line=c.lineno)
    chk.proven(rule, rel, '<module>', 'every call of a builtin matches its signature', f'{n_calls} calls of builtins in {len(scope)} functions', nontrivial=False)
    return n_calls

