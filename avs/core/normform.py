"""Normal forms of function bodies under behaviour-preserving rewrites, used for ONE purpose: deciding that a
function of the current tree is equivalent to its reviewed snapshot (avs/spec/refsrc), in which case the
rules analyse the reviewed text of that function.  A function whose normal form differs from the reviewed
one is analysed exactly as it stands, so a behaviour-changing edit is never hidden by this module unless one
of the rewrites below is unsound.  Rewrites (each applied to BOTH sides):

  R1  docstrings / pass / bare constants dropped
  R2  `for j in range(<int literal(s)>)` or `for a, (b, c) in (<literal tuples>)` with at most 8 iterations, no
      break/continue and no store to the loop variables: unrolled
  R3  integer constant folding of + - * // % on literals (after unrolling)
  R4  `a, b = x, y` split into `a = x; b = y` when no target is read by the values
  R5  `x = <literal>; ...; if c: x = B` (c does not read x)  ->  `if c: x = B else: x = <literal>`
  R6  `def g(params): return E` (after its own normalisation)  ->  `g = lambda params: E`
  R7  forward substitution of a local bound exactly once to a side-effect-free expression, when on every path
      from the binding to each use none of the names in the expression is rebound and none of the arrays /
      objects it reads is written (stores through any alias created in the function, in-place operators,
      arguments of calls that are not known to be read-only); uses inside closures additionally require that
      this holds for the whole rest of the function
  R8  `(lambda p...: E)(args...)` with side-effect-free args  ->  E[p := args]   (after R6/R7: inlines small helpers)
  R9  assignments to locals that are never read, with side-effect-free right-hand sides, dropped
  R10 maximal runs of simple statements are put in the least topological order of their dependence DAG
      (two statements are ordered iff one writes a name / object the other reads or writes, or both may have
      effects outside the function)
  R11 call keywords sorted by name; comparison `b > a` written as `a < b` (and >= likewise)
  R12 locals renamed by order of first occurrence
  R13 a statement `x = g(args)` / `g(args)` / `return g(args)` whose callee g is a plain function of the same module
      (or a local def) with side-effect-free arguments, no decorators, no loops around its returns and every
      return in tail position of an if-chain: replaced by g's body with parameters substituted, locals renamed
      apart and `return E` turned into `x = E`
  R15 `t = E; ...; T = t` in one block, t a local bound once and not used after the copy, T a name or `D[k]` that
      is not mentioned in between: the temporary is T itself (`T = E; ...` with t replaced by T)
  R16 `if P: if Q: S` (no else branches)  ->  `if P and Q: S`;  `if P: S1; ...; Sn` with every Si an else-less `if`
      and P side-effect free and not written by the Si  ->  `if P and Q1: ...; ...; if P and Qn: ...`;
      conjuncts of side-effect-free `and` chains sorted (side-effect-free expressions are treated as total:
      which of several possible exceptions is raised first is not behaviour for this purpose)
  R17 integer index arithmetic (inside subscripts and range(...) arguments only, where values are integers):
      + - * over names, literals and opaque atoms rewritten as a sorted sum of products
  R18 a local whose every read inside an outermost loop body is preceded, in that same iteration, by a write
      (no loop-carried or loop-escaping value) is renamed apart per loop
  R19 `T op= v` with T a subscript whose index is side-effect free  ->  `T = T op v` (same location is stored)
  R20 x + 0, x - 0, x * 1 on integer literals dropped; (a + c1) + c2 -> a + (c1 + c2) inside subscripts
  R21 a local all of whose bindings are plain assignments at the top level of ONE block, that is not used outside
      that block and (in a loop body) is bound before its first use: each binding gets its own name
  R23 in a loop body, `if c: A; continue` followed by the rest R of the body  ->  `if c: A else: R`
  R24 `x = [E for v in it]`  ->  `x = []; for v in it: x += [E]`;  `x.append(E)`  ->  `x += [E]` for x bound to a list display
  R25 keyword arguments that repeat a documented default are dropped (np.searchsorted side='left', ...)
  R26 `A[slice(a, b)]`  ->  `A[a:b]`
  R27 `if a: X elif b: Y` with X ending in continue / break / return / raise  ->  `if a: X` followed by `if b: Y`
  R28 `t = E` directly followed by the only statement that reads t, a simple statement without any other call:
      E is substituted even when it has effects (the evaluation order is unchanged)
  R29 an if-chain that binds a local to a literal in every arm (else included), followed by statements that are the
      only readers of that local: the following statements are copied into each arm with the literal substituted
      (tail duplication), then literal comparisons are folded and `if True/False` pruned
  R30 negations pushed inward (not (a < b) -> a >= b, De Morgan on side-effect-free operands, `not x is None` forms);
      `if c: A else: B` is oriented so that the smaller of (c, not c) in a fixed structural order is the test
  R31 `if c: B(ends in return/raise/continue/break) [else: E]` followed by the rest R of its block -> `if c: B else: E; R`;
      a trailing `continue` in tail position of a loop body and a trailing bare `return` of a function are dropped
  R32 adjacent ifs with the same side-effect-free test, the first of which does not write what the test reads, are merged
  R33 a simple statement with one conditional expression `X if c else Y` (c and every other operand side-effect free)
      -> `if c: stmt[X] else: stmt[Y]`
  R34 a module-level name that the reviewed module does not have, bound once to a literal or to struct.Struct(<literal>),
      is replaced by its value (S.pack(a) -> struct.pack(fmt, a), S.unpack likewise, S.size -> calcsize(fmt))
  R35 `for k, v in X.items(): B` with X side-effect free, not written and k, v not rebound in B  ->  `for k in X: B[v := X[k]]`
  R36 `x = sum(<E for v in it>, <numeric start>)`  ->  `x = <start>; for v in it: x += E`  (left fold, same additions in the same order)
  R37 diagnostic statements with side-effect-free arguments -- print(...) not directed to a file other than sys.stderr,
      <x>.logger.<level>(...), logging.<level>(...), warnings.warn(...) -- are not behaviour: dropped (in directional mode only
      those the reviewed function does not have).  NOT applied to modules whose standard output is a data channel (pipe_asdf.py)
  R14 `if a: X` directly followed by `if b: X` where X ends in continue / break / return / raise, and
      `if a: X elif b: X`:  ->  `if a or b: X`

Assumption (stated in DESIGN.md): distinct array parameters of one function do not overlap in memory unless
the function itself creates the alias."""
import ast
import copy

PURE_CALLS = {
    'len', 'int', 'float', 'abs', 'min', 'max', 'str', 'repr', 'tuple', 'bool', 'range', 'isinstance', 'slice', 'divmod', 'round',
    'np.sqrt', 'np.floor', 'np.ceil', 'np.rint', 'np.abs', 'np.log', 'np.log10', 'np.exp', 'np.cos', 'np.sin', 'np.arctan2',
    'np.int8', 'np.int16', 'np.int32', 'np.int64', 'np.uint8', 'np.uint16', 'np.uint32', 'np.uint64', 'np.float32', 'np.float64',
    'np.intp', 'np.dtype', 'np.diff', 'np.prod', 'np.sum', 'np.cumsum', 'np.any', 'np.all', 'np.isfinite', 'np.isnan', 'np.where',
    'np.minimum', 'np.maximum', 'np.asarray', 'np.atleast_2d', 'np.atleast_1d', 'np.linspace', 'np.arange', 'np.concatenate',
    're.compile', 'math.sqrt', 'math.floor', 'math.ceil', 'dtype', 'itype', 'ftype', 'np.linalg.norm', 'np.iinfo', 'np.finfo',
}
PURE_METHODS = {'reshape', 'astype', 'view', 'replace', 'format', 'startswith', 'endswith', 'split', 'get', 'sum', 'mean', 'max', 'min',
                'ravel', 'copy', 'item', 'lower', 'upper', 'strip', 'keys', 'values', 'items', 'count', 'index', 'any', 'all', 'group', 'fullmatch'}
# calls that do not modify their array arguments (but are not value-pure, or have other effects we do not care to reorder)
READONLY_CALLS = PURE_CALLS | {'print', 'np.empty', 'np.zeros', 'np.ones', 'np.full', 'np.empty_like', 'np.zeros_like', 'gc.collect'}
MAX_UNROLL = 8


def dotted(node):
    parts = []
    while isinstance(node, ast.Attribute):
        parts.append(node.attr)
        node = node.value
    if isinstance(node, ast.Name):
        parts.append(node.id)
        return '.'.join(reversed(parts))
    return ''


def root_name(node):
    while isinstance(node, (ast.Attribute, ast.Subscript, ast.Call)):
        node = node.func if isinstance(node, ast.Call) else node.value
        if isinstance(node, ast.Attribute) and isinstance(getattr(node, 'value', None), ast.Call):
            continue
    return node.id if isinstance(node, ast.Name) else None


def is_pure(e):
    """Side-effect free and deterministic, given that the objects it reads are unchanged."""
    if e is None or isinstance(e, (ast.Constant, ast.Name)):
        return True
    if isinstance(e, ast.Attribute):
        return is_pure(e.value)
    if isinstance(e, ast.Subscript):
        return is_pure(e.value) and is_pure(e.slice)
    if isinstance(e, ast.Slice):
        return is_pure(e.lower) and is_pure(e.upper) and is_pure(e.step)
    if isinstance(e, (ast.Tuple, ast.List)):
        return all(is_pure(x) for x in e.elts) and isinstance(e, ast.Tuple)
    if isinstance(e, ast.BinOp):
        return is_pure(e.left) and is_pure(e.right)
    if isinstance(e, ast.UnaryOp):
        return is_pure(e.operand)
    if isinstance(e, ast.BoolOp):
        return all(is_pure(v) for v in e.values)
    if isinstance(e, ast.Compare):
        return is_pure(e.left) and all(is_pure(c) for c in e.comparators)
    if isinstance(e, ast.IfExp):
        return is_pure(e.test) and is_pure(e.body) and is_pure(e.orelse)
    if isinstance(e, ast.JoinedStr):
        return all(is_pure(v) for v in e.values)
    if isinstance(e, ast.FormattedValue):
        return is_pure(e.value)
    if isinstance(e, ast.Lambda):
        return True
    if isinstance(e, ast.Call):
        if any(isinstance(a, ast.Starred) for a in e.args) or any(k.arg is None for k in e.keywords):
            return False
        if not (all(is_pure(a) for a in e.args) and all(is_pure(k.value) for k in e.keywords)):
            return False
        if isinstance(e.func, ast.Lambda):
            return is_pure(e.func.body)
        d = dotted(e.func)
        if d in PURE_CALLS:
            return True
        if isinstance(e.func, ast.Attribute) and e.func.attr in PURE_METHODS and is_pure(e.func.value):
            return True
        return False
    return False


SCALAR_CALLS = {'len', 'int', 'float', 'abs', 'min', 'max', 'bool', 'str', 'slice', 'dtype', 'itype', 'ftype', 'np.int8', 'np.int16', 'np.int32',
                'np.int64', 'np.uint8', 'np.uint16', 'np.uint32', 'np.uint64', 'np.float32', 'np.float64', 'np.intp', 'np.sqrt', 'np.floor', 'math.sqrt'}


def _cheap(e):
    """No array-building calls: in directional mode only such values are substituted (an expression that builds a
    table is better left under its name: the analyses recognise tables by their definitions)."""
    for n in ast.walk(e):
        if isinstance(n, ast.Call) and not isinstance(n.func, ast.Lambda) and dotted(n.func) not in SCALAR_CALLS:
            return False
    return True


def names_loaded(e):
    return {n.id for n in ast.walk(e) if isinstance(n, ast.Name) and isinstance(n.ctx, ast.Load)}


SHAPE_ATTRS = {'shape', 'size', 'ndim', 'dtype', 'itemsize', 'nbytes'}


def shape_only_roots(e):
    """Roots that e reads only through len() / .shape / .size / .dtype (element stores do not change those)."""
    shape, other = set(), set()

    def rec(n, in_shape):
        if isinstance(n, ast.Call) and dotted(n.func) == 'len' and len(n.args) == 1:
            rec(n.args[0], True)
            return
        if isinstance(n, ast.Attribute) and n.attr in SHAPE_ATTRS:
            rec(n.value, True)
            return
        if isinstance(n, (ast.Subscript, ast.Attribute)):
            r = root_name(n)
            if r:
                # self.halos inside len(self.halos): the attribute chain itself is a reference read
                (shape if in_shape and isinstance(n, ast.Attribute) else other).add(r)
            for ch in ast.iter_child_nodes(n):
                if isinstance(n, ast.Subscript) and ch is n.slice:
                    rec(ch, False)
                elif not isinstance(ch, ast.Name):
                    rec(ch, in_shape and isinstance(n, ast.Attribute))
            return
        if isinstance(n, ast.Name):
            if in_shape:
                shape.add(n.id)
            return
        if isinstance(n, ast.Call):
            for a in list(n.args) + [k.value for k in n.keywords]:
                r = root_name(a) if isinstance(a, (ast.Name, ast.Subscript, ast.Attribute)) else None
                if r:
                    other.add(r)
        for ch in ast.iter_child_nodes(n):
            rec(ch, False)
    rec(e, False)
    return shape - other


def heap_roots(e):
    """Root names of objects whose contents e reads (subscripts, attributes, len / method calls)."""
    out = set()
    for n in ast.walk(e):
        if isinstance(n, (ast.Subscript, ast.Attribute)):
            r = root_name(n)
            if r:
                out.add(r)
        elif isinstance(n, ast.Call):
            for a in list(n.args) + [k.value for k in n.keywords]:
                r = root_name(a) if isinstance(a, (ast.Name, ast.Subscript, ast.Attribute)) else None
                if r:
                    out.add(r)
    return out


# ------------------------------------------------------------------------------------------ effects
class Effects:
    __slots__ = ('rebinds', 'writes', 'reads', 'hreads', 'world', 'reshapes', 'direct')

    def __init__(self):
        self.rebinds, self.writes, self.reads, self.hreads, self.world = set(), set(), set(), set(), False
        self.reshapes = set()      # objects whose length / shape / set of keys may change (subset of writes)
        self.direct = set()        # names whose own slots may be rebound: D[...] = v, D.attr = v, D.method(...), f(D)

    def merge(self, o):
        self.rebinds |= o.rebinds
        self.direct |= o.direct
        self.reshapes |= o.reshapes
        self.writes |= o.writes
        self.reads |= o.reads
        self.hreads |= o.hreads
        self.world = self.world or o.world


class Aliases:
    """Union-find over local names that may denote (views of) the same object."""
    def __init__(self, fn):
        self.p = {}
        for n in ast.walk(fn):
            if isinstance(n, ast.Assign) and len(n.targets) == 1 and isinstance(n.targets[0], ast.Name):
                v = n.value
                while isinstance(v, ast.Call) and isinstance(v.func, ast.Attribute) and v.func.attr in ('reshape', 'view', 'ravel', 'squeeze'):
                    v = v.func.value
                while isinstance(v, ast.Call) and dotted(v.func) in ('np.asarray', 'np.atleast_2d', 'np.atleast_1d') and v.args:
                    v = v.args[0]
                if isinstance(v, (ast.Name, ast.Subscript, ast.Attribute)):
                    r = root_name(v)
                    if r:
                        self.union(n.targets[0].id, r)

    def find(self, x):
        while self.p.get(x, x) != x:
            x = self.p[x]
        return x

    def union(self, a, b):
        a, b = self.find(a), self.find(b)
        if a != b:
            self.p[a] = b

    def cls(self, names):
        return {self.find(n) for n in names}


def stmt_effects(s, al):
    """Conservative effects of one statement (including everything nested in it)."""
    ef = Effects()
    for n in ast.walk(s):
        if isinstance(n, ast.Name):
            if isinstance(n.ctx, ast.Load):
                ef.reads.add(n.id)
            else:
                ef.rebinds.add(n.id)
        elif isinstance(n, (ast.FunctionDef, ast.AsyncFunctionDef, ast.ClassDef)):
            ef.rebinds.add(n.name)
        elif isinstance(n, ast.arg):
            pass
        elif isinstance(n, (ast.Global, ast.Nonlocal, ast.Import, ast.ImportFrom, ast.Raise, ast.Assert, ast.Return, ast.Break,
                            ast.Continue, ast.Yield, ast.YieldFrom, ast.Await, ast.With, ast.Try, ast.Delete)):
            ef.world = True
        if isinstance(n, (ast.Subscript, ast.Attribute)):
            r = root_name(n)
            if r:
                if isinstance(n.ctx, (ast.Store, ast.Del)):
                    ef.writes.add(al.find(r))
                    if isinstance(n.value, ast.Name):
                        ef.direct.add(n.value.id)
                    if isinstance(n, ast.Attribute) or isinstance(n.ctx, ast.Del):
                        ef.reshapes.add(al.find(r))      # x.shape = ..., self.halos = ..., del d[k]
                    elif not _elementwise_target(n):
                        ef.reshapes.add(al.find(r))      # d[key] = value may add a key
                else:
                    ef.hreads.add(al.find(r))
        if isinstance(n, ast.AugAssign):
            t = n.target
            r = root_name(t) if isinstance(t, (ast.Subscript, ast.Attribute)) else (t.id if isinstance(t, ast.Name) else None)
            if r:
                ef.writes.add(al.find(r))      # in-place update of the object bound to the name
                ef.hreads.add(al.find(r))
                if isinstance(t, ast.Name):
                    ef.direct.add(t.id)
        if isinstance(n, ast.Call):
            d = dotted(n.func)
            argroots = set()
            for a in list(n.args) + [k.value for k in n.keywords]:
                for x in ast.walk(a):
                    if isinstance(x, ast.Name):
                        argroots.add(al.find(x.id))
            recv = root_name(n.func.value) if isinstance(n.func, ast.Attribute) else None
            ef.hreads |= argroots
            if recv:
                ef.hreads.add(al.find(recv))
            readonly = d in READONLY_CALLS or (isinstance(n.func, ast.Attribute) and n.func.attr in PURE_METHODS) or isinstance(n.func, ast.Lambda)
            if not readonly:
                for a in list(n.args) + [k.value for k in n.keywords]:
                    if isinstance(a, ast.Name):
                        ef.direct.add(a.id)
                if recv:
                    ef.direct.add(recv)
                ef.writes |= argroots             # a callee can change the elements of an array it is given, not its length
                if recv and d.split('.')[0] not in ('np', 'numba', 'nb', 'math', 're', 'gc', 'warnings', 'os', 'util', 'bitpacked'):
                    ef.writes.add(al.find(recv))
                    ef.reshapes.add(al.find(recv))
                ef.world = True
    return ef


def _elementwise_target(n):
    """Store target that cannot change the length of the container: a slice / index into something that is itself
    a subscript or a plain local name used as an array (a[...] = v, a[i, j] = v, t[k][mask] = v).  A store
    `d[key] = v` into a dict adds a key; without types we treat a subscript store whose index is a string /
    f-string / name bound to strings as key-adding only when the base is an attribute or the index is a str."""
    sl = n.slice
    if isinstance(sl, ast.Constant) and isinstance(sl.value, str):
        return False
    if isinstance(sl, ast.JoinedStr):
        return False
    return True


# ------------------------------------------------------------------------------------------ small rewrites
class _Subst(ast.NodeTransformer):
    def __init__(self, m):
        self.m = m

    def visit_Name(self, n):
        if isinstance(n.ctx, ast.Load) and n.id in self.m:
            return copy.deepcopy(self.m[n.id])
        return n

    def visit_Lambda(self, n):
        own = {a.arg for a in n.args.posonlyargs + n.args.args + n.args.kwonlyargs}
        inner = _Subst({k: v for k, v in self.m.items() if k not in own})
        n.body = inner.visit(n.body)
        # default values are evaluated in the enclosing scope
        n.args.defaults = [self.visit(d) for d in n.args.defaults]
        n.args.kw_defaults = [self.visit(d) if d is not None else None for d in n.args.kw_defaults]
        return n

    def visit_FunctionDef(self, n):
        own = {a.arg for a in n.args.posonlyargs + n.args.args + n.args.kwonlyargs} | _bound_in(n)
        inner = _Subst({k: v for k, v in self.m.items() if k not in own})
        n.body = [inner.visit(s) for s in n.body]
        n.args.defaults = [self.visit(d) for d in n.args.defaults]
        n.args.kw_defaults = [self.visit(d) if d is not None else None for d in n.args.kw_defaults]
        return n


def _bound_in(fn):
    out = set()
    stack = list(fn.body) if isinstance(fn.body, list) else [fn.body]
    while stack:
        n = stack.pop()
        if isinstance(n, (ast.FunctionDef, ast.AsyncFunctionDef, ast.ClassDef)):
            out.add(n.name)
            continue
        if isinstance(n, ast.Lambda):
            continue
        if isinstance(n, ast.Name) and isinstance(n.ctx, (ast.Store, ast.Del)):
            out.add(n.id)
        stack.extend(ast.iter_child_nodes(n))
    return out


class _Fold(ast.NodeTransformer):
    def visit_IfExp(self, n):
        self.generic_visit(n)
        if isinstance(n.test, ast.Constant) and isinstance(n.test.value, (bool, int)):
            return n.body if n.test.value else n.orelse
        return n

    def visit_BinOp(self, n):
        self.generic_visit(n)
        a, b = n.left, n.right
        if isinstance(b, ast.Constant) and type(b.value) is int and not (isinstance(a, ast.Constant) and type(a.value) is int):
            if b.value == 0 and isinstance(n.op, (ast.Add, ast.Sub)):
                return a
            if b.value == 1 and isinstance(n.op, (ast.Mult, ast.FloorDiv)):
                return a
        if isinstance(a, ast.Constant) and type(a.value) is int and not (isinstance(b, ast.Constant) and type(b.value) is int):
            if a.value == 0 and isinstance(n.op, ast.Add):
                return b
            if a.value == 1 and isinstance(n.op, ast.Mult):
                return b
        if isinstance(a, ast.Constant) and isinstance(b, ast.Constant) and type(a.value) is int and type(b.value) is int:
            try:
                if isinstance(n.op, ast.Add):
                    return ast.Constant(a.value + b.value)
                if isinstance(n.op, ast.Sub):
                    return ast.Constant(a.value - b.value)
                if isinstance(n.op, ast.Mult):
                    return ast.Constant(a.value * b.value)
                if isinstance(n.op, ast.FloorDiv) and b.value:
                    return ast.Constant(a.value // b.value)
                if isinstance(n.op, ast.Mod) and b.value:
                    return ast.Constant(a.value % b.value)
            except Exception:
                pass
        return n

    def visit_UnaryOp(self, n):
        self.generic_visit(n)
        return n

    def visit_BoolOp(self, n):
        self.generic_visit(n)
        if isinstance(n.op, ast.And):
            flat = []
            for v in n.values:
                flat.extend(v.values if isinstance(v, ast.BoolOp) and isinstance(v.op, ast.And) else [v])
            if all(is_pure(v) for v in flat):
                seen, uniq = set(), []
                for v in sorted(flat, key=ast.dump):
                    k = ast.dump(v)
                    if k not in seen:
                        seen.add(k)
                        uniq.append(v)
                flat = uniq
            n.values = flat
            if len(flat) == 1:
                return flat[0]
        return n

    def visit_Subscript(self, n):
        self.generic_visit(n)
        n.slice = _index_canon(_slice_call(n.slice))
        return n

    def visit_Compare(self, n):
        self.generic_visit(n)
        if len(n.ops) == 1 and isinstance(n.ops[0], (ast.Gt, ast.GtE)):
            return ast.Compare(left=n.comparators[0], ops=[ast.Lt() if isinstance(n.ops[0], ast.Gt) else ast.LtE()], comparators=[n.left])
        return n

    def visit_Call(self, n):
        self.generic_visit(n)
        _call_defaults(n)
        if all(k.arg is not None for k in n.keywords):
            n.keywords = sorted(n.keywords, key=lambda k: k.arg)
        if dotted(n.func) in ('range', 'numba.prange', 'nb.prange', 'prange'):
            n.args = [_index_canon(a) for a in n.args]
        return n


def _and(a, b):
    va = a.values if isinstance(a, ast.BoolOp) and isinstance(a.op, ast.And) else [a]
    vb = b.values if isinstance(b, ast.BoolOp) and isinstance(b.op, ast.And) else [b]
    return ast.BoolOp(op=ast.And(), values=[copy.deepcopy(x) for x in list(va) + list(vb)])


def _or(a, b):
    va = a.values if isinstance(a, ast.BoolOp) and isinstance(a.op, ast.Or) else [a]
    vb = b.values if isinstance(b, ast.BoolOp) and isinstance(b.op, ast.Or) else [b]
    return ast.BoolOp(op=ast.Or(), values=list(va) + list(vb))


KNOWN_DEFAULTS = {('np.searchsorted', 'side'): 'left', ('np.linalg.norm', 'keepdims'): False, ('np.sum', 'axis'): None,
                  ('np.empty', 'order'): 'C', ('np.zeros', 'order'): 'C', ('np.argsort', 'axis'): -1, ('np.diff', 'n'): 1, ('np.cumsum', 'axis'): None}


def _call_defaults(n):
    d = dotted(n.func)
    n.keywords = [k for k in n.keywords if not (k.arg is not None and (d, k.arg) in KNOWN_DEFAULTS and isinstance(k.value, ast.Constant)
                                                and k.value.value == KNOWN_DEFAULTS[(d, k.arg)] and type(k.value.value) is type(KNOWN_DEFAULTS[(d, k.arg)]))]
    return n


def _slice_call(sl):
    if isinstance(sl, ast.Call) and dotted(sl.func) == 'slice' and not sl.keywords and 1 <= len(sl.args) <= 3:
        a = list(sl.args)
        none = lambda x: None if isinstance(x, ast.Constant) and x.value is None else x
        if len(a) == 1:
            return ast.Slice(lower=None, upper=none(a[0]), step=None)
        return ast.Slice(lower=none(a[0]), upper=none(a[1]), step=none(a[2]) if len(a) == 3 else None)
    return sl


class _LightFold(ast.NodeTransformer):
    def visit_Call(self, n):
        self.generic_visit(n)
        return _call_defaults(n)

    def visit_IfExp(self, n):
        self.generic_visit(n)
        if isinstance(n.test, ast.Constant) and isinstance(n.test.value, (bool, int)):
            return n.body if n.test.value else n.orelse
        return n

    """Constant folding only (R3, R20); leaves comparisons, keywords and operand order alone."""
    def visit_BinOp(self, n):
        self.generic_visit(n)
        a, b = n.left, n.right
        ia = isinstance(a, ast.Constant) and type(a.value) is int
        ib = isinstance(b, ast.Constant) and type(b.value) is int
        if ia and ib:
            return _Fold().visit_BinOp(n)
        if ib and b.value == 0 and isinstance(n.op, (ast.Add, ast.Sub)):
            return a
        if ia and a.value == 0 and isinstance(n.op, ast.Add):
            return b
        if ib and b.value == 1 and isinstance(n.op, (ast.Mult, ast.FloorDiv)):
            return a
        if ia and a.value == 1 and isinstance(n.op, ast.Mult):
            return b
        # (x + c1) + c2  ->  x + (c1 + c2)   (integers: exact)
        if ib and isinstance(n.op, (ast.Add, ast.Sub)) and isinstance(a, ast.BinOp) and isinstance(a.op, (ast.Add, ast.Sub)) \
                and isinstance(a.right, ast.Constant) and type(a.right.value) is int and getattr(self, 'in_index', 0):
            c1 = a.right.value if isinstance(a.op, ast.Add) else -a.right.value
            c2 = b.value if isinstance(n.op, ast.Add) else -b.value
            c = c1 + c2
            if c == 0:
                return a.left
            return ast.BinOp(left=a.left, op=ast.Add() if c > 0 else ast.Sub(), right=ast.Constant(abs(c)))
        return n

    def visit_Subscript(self, n):
        n.value = self.visit(n.value)
        self.in_index = getattr(self, 'in_index', 0) + 1
        n.slice = _slice_call(self.visit(n.slice))
        self.in_index -= 1
        return n


class _PruneConst(ast.NodeTransformer):
    """Literal comparisons folded; `if <literal>:` replaced by the branch taken."""
    def visit_Compare(self, n):
        self.generic_visit(n)
        if len(n.ops) == 1 and isinstance(n.left, ast.Constant) and isinstance(n.comparators[0], ast.Constant):
            a, b = n.left.value, n.comparators[0].value
            try:
                r = {ast.Eq: a == b, ast.NotEq: a != b}.get(type(n.ops[0]))
                if r is None and type(a) in (int, float) and type(b) in (int, float):
                    r = {ast.Lt: a < b, ast.LtE: a <= b, ast.Gt: a > b, ast.GtE: a >= b}.get(type(n.ops[0]))
            except TypeError:
                r = None
            if r is not None:
                return ast.Constant(bool(r))
        return n

    def visit_If(self, n):
        n.test = self.visit(n.test)
        n.body = self._blk(n.body)
        n.orelse = self._blk(n.orelse)
        if isinstance(n.test, ast.Constant) and isinstance(n.test.value, bool):
            taken = n.body if n.test.value else n.orelse
            return taken if taken else None
        if not n.body:
            n.body = [ast.Pass()]
        return n

    def _blk(self, blk):
        out = []
        for st in blk:
            r = self.visit(st)
            if r is None:
                continue
            out.extend(r if isinstance(r, list) else [r])
        return out


_NEG = {ast.Lt: ast.GtE, ast.LtE: ast.Gt, ast.Gt: ast.LtE, ast.GtE: ast.Lt, ast.Eq: ast.NotEq, ast.NotEq: ast.Eq,
        ast.Is: ast.IsNot, ast.IsNot: ast.Is, ast.In: ast.NotIn, ast.NotIn: ast.In}


def negate(e):
    """Logical negation in negation normal form (operands must be side-effect free for De Morgan to be used)."""
    if isinstance(e, ast.UnaryOp) and isinstance(e.op, ast.Not):
        return e.operand
    if isinstance(e, ast.Compare) and len(e.ops) == 1 and type(e.ops[0]) in _NEG:
        return ast.Compare(left=e.left, ops=[_NEG[type(e.ops[0])]()], comparators=e.comparators)
    if isinstance(e, ast.BoolOp) and all(is_pure(v) for v in e.values):
        return ast.BoolOp(op=ast.Or() if isinstance(e.op, ast.And) else ast.And(), values=[negate(v) for v in e.values])
    if isinstance(e, ast.Constant) and isinstance(e.value, bool):
        return ast.Constant(not e.value)
    return ast.UnaryOp(op=ast.Not(), operand=e)


class _NNF(ast.NodeTransformer):
    def visit_UnaryOp(self, n):
        self.generic_visit(n)
        if isinstance(n.op, ast.Not):
            r = negate(n.operand)
            if not (isinstance(r, ast.UnaryOp) and isinstance(r.op, ast.Not)):
                return self.visit(r) if isinstance(r, ast.BoolOp) else r
        return n

    def visit_If(self, n):
        self.generic_visit(n)
        if not (len(n.orelse) == 1 and isinstance(n.orelse[0], ast.If)) and is_pure(n.test):
            # two-way choice: orient by a fixed structural order of the test and its negation
            neg = _Fold().visit(negate(copy.deepcopy(n.test)))
            neg = _NNF().visit(neg) if isinstance(neg, ast.BoolOp) else neg
            if _masked_dump(neg) + ast.dump(neg) < _masked_dump(n.test) + ast.dump(n.test):
                n.test, n.body, n.orelse = neg, (n.orelse or [ast.Pass()]), n.body
        return n

    def visit_IfExp(self, n):
        self.generic_visit(n)
        if is_pure(n.test):
            neg = _Fold().visit(negate(copy.deepcopy(n.test)))
            if _masked_dump(neg) + ast.dump(neg) < _masked_dump(n.test) + ast.dump(n.test):
                n.test, n.body, n.orelse = neg, n.orelse, n.body
        return n


def _index_canon(e):
    """Canonical form of integer index arithmetic (R17)."""
    if isinstance(e, ast.Tuple):
        return ast.Tuple(elts=[_index_canon(x) for x in e.elts], ctx=e.ctx)
    if isinstance(e, ast.Slice):
        return ast.Slice(lower=_index_canon(e.lower) if e.lower else None, upper=_index_canon(e.upper) if e.upper else None,
                         step=_index_canon(e.step) if e.step else None)
    if isinstance(e, ast.BinOp) and isinstance(e.op, (ast.FloorDiv, ast.Mod)):
        return ast.BinOp(left=_index_canon(e.left), op=e.op, right=_index_canon(e.right))
    if not (isinstance(e, ast.BinOp) and isinstance(e.op, (ast.Add, ast.Sub, ast.Mult))):
        return e
    from .poly import Poly
    atoms = {}

    def conv(x):
        if isinstance(x, ast.Constant) and type(x.value) is int:
            return Poly.const(x.value)
        if isinstance(x, ast.BinOp) and isinstance(x.op, (ast.Add, ast.Sub, ast.Mult)):
            a, b = conv(x.left), conv(x.right)
            return a + b if isinstance(x.op, ast.Add) else (a - b if isinstance(x.op, ast.Sub) else a * b)
        if isinstance(x, ast.UnaryOp) and isinstance(x.op, ast.USub):
            return -conv(x.operand)
        k = ast.dump(x)
        atoms[k] = x
        return Poly.sym(k)
    p = conv(e)
    terms = []
    for mono in sorted(p.t, key=lambda m: (len(m), m)):
        c = p.t[mono]
        if c.denominator != 1:
            return e
        node = None
        for sname, ex in mono:
            if ex < 0:
                return e
            for _ in range(ex):
                a = copy.deepcopy(atoms[sname])
                node = a if node is None else ast.BinOp(left=node, op=ast.Mult(), right=a)
        c = int(c)
        if node is None:
            node = ast.Constant(c)
        elif c != 1:
            node = ast.BinOp(left=ast.Constant(c), op=ast.Mult(), right=node)
        terms.append(node)
    if not terms:
        return ast.Constant(0)
    out = terms[0]
    for t in terms[1:]:
        out = ast.BinOp(left=out, op=ast.Add(), right=t)
    return out


NO_DIAGNOSTIC_REMOVAL = [False]      # set by the caller for modules that write data to standard output


def is_diagnostic(s):
    if not (isinstance(s, ast.Expr) and isinstance(s.value, ast.Call)):
        return False
    c = s.value
    if not (all(is_pure(a) for a in c.args) and all(k.arg is not None and is_pure(k.value) for k in c.keywords)):
        return False
    d = dotted(c.func)
    if d == 'print':
        f = [k for k in c.keywords if k.arg == 'file']
        return not f or dotted(f[0].value) == 'sys.stderr'
    if d == 'warnings.warn':
        return True
    parts = d.split('.')
    return len(parts) >= 2 and parts[-1] in ('debug', 'info', 'warning', 'error', 'critical', 'log') and parts[-2] in ('logger', 'logging', 'log', '_logger')


def _strip(stmts):
    out = []
    for s in stmts:
        if isinstance(s, ast.Pass):
            continue
        if isinstance(s, ast.Expr) and isinstance(s.value, ast.Constant):
            continue
        out.append(s)
    return out


def _range_literal(it):
    if isinstance(it, ast.Call) and dotted(it.func) == 'range' and not it.keywords and 1 <= len(it.args) <= 3 \
            and all(isinstance(a, ast.Constant) and type(a.value) is int for a in it.args):
        r = range(*[a.value for a in it.args])
        if len(r) <= MAX_UNROLL:
            return list(r)
    return None


def _literal_items(it, target):
    """for <target> in (<literal>, ...): list of {name: Constant} substitutions, or None."""
    if not isinstance(it, (ast.Tuple, ast.List)) or not (1 <= len(it.elts) <= MAX_UNROLL):
        return None

    def bind(t, v, m):
        if isinstance(t, ast.Name):
            if isinstance(v, ast.Constant) or (isinstance(v, ast.UnaryOp) and isinstance(v.operand, ast.Constant)) or \
                    (is_pure(v) and not isinstance(v, (ast.Tuple, ast.List))):
                m[t.id] = v
                return True
            return False
        if isinstance(t, (ast.Tuple, ast.List)) and isinstance(v, (ast.Tuple, ast.List)) and len(t.elts) == len(v.elts):
            return all(bind(a, b, m) for a, b in zip(t.elts, v.elts))
        return False
    out = []
    for v in it.elts:
        m = {}
        if not bind(target, v, m):
            return None
        out.append(m)
    return out


def _has_exit(stmts):
    for s in stmts:
        for n in ast.walk(s):
            if isinstance(n, (ast.Break, ast.Continue)):
                return True
    return False


class Normaliser:
    _fresh = 0

    @staticmethod
    def _strip_copy(fn):
        return copy.deepcopy(fn)

    def __init__(self, funcs=None, depth=0, keep_ids=None):
        self.al = None
        self.funcs = dict(funcs or {})     # helpers that may be inlined (R13): name -> FunctionDef
        self.depth = depth
        self.caller_bound = set()
        # directional mode (keep_ids is not None): only entities that the reviewed function does not have
        # (new locals, new helpers, new constant loops) are eliminated; everything else is left as written
        self.keep_ids = keep_ids
        self.inlined = set()
        self.opts = {}

    @property
    def directional(self):
        return self.keep_ids is not None

    def is_new(self, name):
        return self.keep_ids is None or name not in self.keep_ids

    # --------------------------------------------------------------- R13
    def try_inline(self, s):
        if self.depth > 3:
            return None
        if isinstance(s, ast.Assign) and len(s.targets) == 1 and isinstance(s.value, ast.Call) and \
                (isinstance(s.targets[0], (ast.Name, ast.Tuple)) or (isinstance(s.targets[0], ast.Subscript) and is_pure(s.targets[0]))):
            call, mode, tgt = s.value, 'assign', s.targets[0]
        elif isinstance(s, ast.Expr) and isinstance(s.value, ast.Call):
            call, mode, tgt = s.value, 'expr', None
        elif isinstance(s, ast.Return) and isinstance(s.value, ast.Call):
            call, mode, tgt = s.value, 'return', None
        elif isinstance(s, ast.Expr) and isinstance(s.value, ast.YieldFrom) and isinstance(s.value.value, ast.Call):
            call, mode, tgt = s.value.value, 'yieldfrom', None
        else:
            return None
        fname = self._callee_name(call.func)
        if fname is None or fname not in self.funcs:
            return None
        g = self.funcs[fname]
        if any(isinstance(x, ast.Raise) for x in g.body):
            # a helper that (also) leaves by raising unconditionally at its top level: not a value to substitute.  In particular the
            # Python body of a function implemented through numba.extending.overload is a stub `raise NotImplementedError`.
            return None
        is_method = fname.startswith('self.')
        a = g.args
        if a.vararg or a.kwonlyargs or any(isinstance(x, ast.Starred) for x in call.args):
            return None
        extra_kws = None
        if a.kwarg:
            # **K of the helper: allowed when K is only ever forwarded as **K; the caller's surplus keywords take its place
            pn = {x.arg for x in a.posonlyargs + a.args}
            posonly = {x.arg for x in a.posonlyargs}
            extra_kws = [k for k in call.keywords if k.arg is None or k.arg not in pn or k.arg in posonly]
            if any(k.arg is None and not is_pure(k.value) for k in extra_kws):
                return None
            K = a.kwarg.arg
            uses = [n for n in ast.walk(g) if isinstance(n, ast.Name) and n.id == K]
            fwd = [k for n in ast.walk(g) if isinstance(n, ast.Call) for k in n.keywords if k.arg is None and isinstance(k.value, ast.Name) and k.value.id == K]
            if len(uses) != len(fwd):
                return None
            call = ast.Call(func=call.func, args=call.args, keywords=[k for k in call.keywords if k not in extra_kws])
        elif any(k.arg is None for k in call.keywords):
            return None
        static = False
        for d in g.decorator_list:
            dn = dotted(d.func if isinstance(d, ast.Call) else d)
            if dn == 'staticmethod' and is_method:
                static = True
                continue
            if dn.split('.')[-1] not in ('njit', 'jit'):
                return None
        params = [x.arg for x in a.posonlyargs + a.args]
        selfmap = {}
        if is_method and not static:
            if not params:
                return None
            selfmap = {params[0]: ast.Name(id='self', ctx=ast.Load())}
            params = params[1:]
        if len(call.args) > len(params):
            return None
        m = dict(zip(params, call.args))
        for k in call.keywords:
            if k.arg not in params or k.arg in m:
                return None
            m[k.arg] = k.value
        nd = len(a.defaults)
        for p_, d in zip(params[len(params) - nd:], a.defaults):
            m.setdefault(p_, d)
        if set(m) != set(params) or not all(is_pure(v) for v in m.values()):
            return None
        m.update(selfmap)
        inner = Normaliser({k: v for k, v in self.funcs.items() if k != fname}, self.depth + 1, set() if self.directional else None)
        gn = inner.function(g)
        body = gn.body
        gbound = _bound_in(gn)
        pre = []
        for p_ in sorted(gbound & set(m)):
            # a parameter that the helper rebinds becomes a local initialised from the argument
            pre.append(ast.Assign(targets=[ast.Name(id=p_, ctx=ast.Store())], value=m.pop(p_)))
        free = set()
        for st in body:
            free |= names_loaded(st)
        # (the initialisations `param = <argument>` are prepended AFTER the helper's locals were renamed apart: the argument is an
        # expression of the CALLER and must not be renamed -- a caller variable of the same name as the helper's parameter was captured)
        free -= gbound | set(params) | set(selfmap)
        if free & self.caller_bound:
            return None                    # a global of the helper is shadowed by a local of the caller
        has_yield = False
        for n in ast.walk(ast.Module(body=body, type_ignores=[])):
            if isinstance(n, (ast.Yield, ast.YieldFrom)):
                has_yield = True
            if isinstance(n, (ast.Global, ast.Nonlocal, ast.AsyncFunctionDef, ast.ClassDef)):
                return None
        # nested function definitions keep their names (they must not collide with names of the caller)
        nested_defs = {n.name for n in ast.walk(ast.Module(body=body, type_ignores=[])) if isinstance(n, ast.FunctionDef)}
        if nested_defs & self.caller_bound:
            return None
        if nested_defs:
            inner_bound = set()
            for n in ast.walk(ast.Module(body=body, type_ignores=[])):
                if isinstance(n, (ast.FunctionDef, ast.Lambda)):
                    inner_bound |= {x.arg for x in n.args.posonlyargs + n.args.args + n.args.kwonlyargs}
                    if isinstance(n, ast.FunctionDef):
                        inner_bound |= _bound_in(n)
            if inner_bound & (gbound - nested_defs):
                return None          # a local of the helper is shadowed inside a nested function: renaming would be wrong
            gbound = gbound - nested_defs
        if has_yield != (mode == 'yieldfrom'):
            return None
        if mode == 'yieldfrom' and has_return_value(body):
            return None
        Normaliser._fresh += 1
        tag = f'{g.name}__{Normaliser._fresh}__'
        ren = {nm: ast.Name(id=tag + nm, ctx=ast.Load()) for nm in gbound}

        class _Ren(ast.NodeTransformer):
            def visit_Name(self_, n):
                if n.id in gbound:
                    return ast.Name(id=tag + n.id, ctx=n.ctx)
                if n.id in m and isinstance(n.ctx, ast.Load):
                    return copy.deepcopy(m[n.id])
                return n
        body = [_Ren().visit(copy.deepcopy(st)) for st in body]
        body = [ast.Assign(targets=[ast.Name(id=tag + a_.targets[0].id, ctx=ast.Store())], value=a_.value) for a_ in pre] + body
        if extra_kws is not None:
            K = a.kwarg.arg

            class _KW(ast.NodeTransformer):
                def visit_Call(self_, n):
                    self_.generic_visit(n)
                    kws = []
                    for k in n.keywords:
                        if k.arg is None and isinstance(k.value, ast.Name) and k.value.id in (K, tag + K):
                            kws.extend(copy.deepcopy(extra_kws))
                        else:
                            kws.append(k)
                    n.keywords = kws
                    return n
            body = [_KW().visit(st) for st in body]
        # returns must all be in tail position
        ok = [True]

        def result(e):
            if mode == 'assign':
                return [ast.Assign(targets=[copy.deepcopy(tgt)], value=e if e is not None else ast.Constant(None))]
            if mode == 'return':
                return [ast.Return(value=e)]
            if mode == 'yieldfrom':
                return []
            return [] if e is None or is_pure(e) else [ast.Expr(value=e)]

        def has_return(stmts):
            stack = list(stmts)
            while stack:
                n = stack.pop()
                if isinstance(n, ast.Return):
                    return True
                if isinstance(n, (ast.FunctionDef, ast.AsyncFunctionDef, ast.Lambda, ast.ClassDef)):
                    continue          # returns of nested functions are their own
                stack.extend(ast.iter_child_nodes(n))
            return False

        def conv(stmts):
            """`stmts` is always a complete continuation (everything that runs up to the end of the helper), so a list that ends
            without a return has fallen off the end of the helper and yields None.  An `if` that returns on some path takes the
            statements after it into both arms: a path that returns never reaches them, a path that falls through a NESTED if
            continues with them (it used to be given the result None at the nested level -- an unsound rewrite)."""
            out = []
            for i, st in enumerate(stmts):
                if isinstance(st, ast.Return):
                    out.extend(result(st.value))
                    return out
                if isinstance(st, ast.If) and has_return([st]):
                    rest = stmts[i + 1:]
                    b = conv(list(st.body) + rest)
                    o = conv(list(st.orelse or []) + copy.deepcopy(rest))
                    out.append(ast.If(test=st.test, body=b or [ast.Pass()], orelse=o))
                    return out
                if has_return([st]):
                    ok[0] = False         # return inside a loop / with / try
                    return out
                out.append(st)
            out.extend(result(None))
            return out
        new = conv(body)
        if not ok[0]:
            return None
        self.inlined.add(fname)
        return new

    def _callee_name_(self):
        pass

    def _callee_name(self, f):
        if isinstance(f, ast.Name):
            return f.id
        if isinstance(f, ast.Attribute) and isinstance(f.value, ast.Name) and f.value.id == 'self':
            return 'self.' + f.attr
        return None

    # --------------------------------------------------------------- blocks, bottom-up structural rewrites
    def block(self, stmts):
        stmts = _strip(stmts)
        if not NO_DIAGNOSTIC_REMOVAL[0]:
            keep = self.opts.get('ref_diag', None)
            stmts = [s_ for s_ in stmts if not (is_diagnostic(s_) and (not self.directional or (keep is not None and ast.dump(s_) not in keep)))]
        out = []
        for s in stmts:
            out.extend(self.stmt(s))
        out = self.expand_listcomp(out)
        out = self.sink_selector(out)
        if not self.directional:
            out = self.expand_ifexp(out)
            out = self.defaults_to_ifelse(out)
            out = self.exit_to_else(out)
            out = self.flatten_ifs(out)
            out = self.merge_ifs(out)
            out = self.merge_same_test(out)
        return out

    def expand_ifexp(self, stmts):
        out = []
        for s in stmts:
            if isinstance(s, (ast.Assign, ast.Expr, ast.AugAssign, ast.Return)):
                ifexps = [n for n in ast.walk(s) if isinstance(n, ast.IfExp)]
                if len(ifexps) == 1 and is_pure(ifexps[0].test) and not any(isinstance(n, (ast.Lambda, ast.ListComp, ast.GeneratorExp, ast.DictComp)) for n in ast.walk(s)):
                    ie = ifexps[0]
                    # everything evaluated before the conditional must be side-effect free: require all call arguments to be pure
                    val = s.value if not isinstance(s, ast.Expr) else s.value
                    okpure = True
                    for n in ast.walk(s):
                        if isinstance(n, ast.Call):
                            for a_ in list(n.args) + [k.value for k in n.keywords]:
                                if not is_pure(a_):
                                    okpure = False
                    tgt_ok = True
                    if isinstance(s, ast.Assign):
                        tgt_ok = all(is_pure(t) for t in s.targets)
                    if okpure and tgt_ok:
                        def variant(branch):
                            c = copy.deepcopy(s)
                            class _R(ast.NodeTransformer):
                                def visit_IfExp(self_, n):
                                    return copy.deepcopy(branch)
                            return _R().visit(c)
                        out.append(ast.If(test=ie.test, body=[variant(ie.body)], orelse=[variant(ie.orelse)]))
                        continue
            out.append(s)
        return out

    def exit_to_else(self, stmts):
        out = list(stmts)
        for i, s in enumerate(out):
            if isinstance(s, ast.If) and s.body and isinstance(s.body[-1], (ast.Return, ast.Raise, ast.Continue, ast.Break)) and i < len(out) - 1:
                rest = self.exit_to_else(out[i + 1:])
                return out[:i] + [ast.If(test=s.test, body=s.body, orelse=self.exit_to_else(list(s.orelse) + rest))]
        return out

    def merge_same_test(self, stmts):
        out = []
        for s in stmts:
            prev = out[-1] if out else None
            if isinstance(s, ast.If) and isinstance(prev, ast.If) and is_pure(s.test) and ast.dump(s.test) == ast.dump(prev.test) \
                    and not (prev.body and isinstance(prev.body[-1], (ast.Return, ast.Raise, ast.Continue, ast.Break))) \
                    and not (prev.orelse and isinstance(prev.orelse[-1], (ast.Return, ast.Raise, ast.Continue, ast.Break))):
                al = Aliases(ast.Module(body=[prev], type_ignores=[]))
                ef = stmt_effects(prev, al)
                if not (ef.rebinds & names_loaded(s.test)) and not (al.cls(heap_roots(s.test)) & ef.writes):
                    out[-1] = ast.If(test=prev.test, body=list(prev.body) + list(s.body), orelse=list(prev.orelse) + list(s.orelse))
                    continue
            out.append(s)
        return out

    def sink_selector(self, stmts):
        out = list(stmts)
        i = 0
        while i < len(out):
            s = out[i]
            if isinstance(s, ast.If):
                arms, c = [], s
                complete = False
                while True:
                    arms.append(c.body)
                    if len(c.orelse) == 1 and isinstance(c.orelse[0], ast.If):
                        c = c.orelse[0]
                    else:
                        if c.orelse:
                            arms.append(c.orelse)
                            complete = True
                        break
                if complete and len(arms) >= 2:
                    # names bound to a literal as the LAST statement-level binding in every arm
                    cand = None
                    for a in arms:
                        lits = {}
                        for st in a:
                            if isinstance(st, ast.Assign) and len(st.targets) == 1 and isinstance(st.targets[0], ast.Name) and isinstance(st.value, ast.Constant) \
                                    and type(st.value.value) in (int, bool, str):
                                lits[st.targets[0].id] = st
                        cand = set(lits) if cand is None else cand & set(lits)
                    for x in sorted(cand or ()):
                        if not self.is_new(x):
                            continue
                        # x is bound nowhere else in the arms, read nowhere in the chain, and every read is in the run right after
                        chain_reads = sum(1 for n in ast.walk(s) if isinstance(n, ast.Name) and n.id == x and isinstance(n.ctx, ast.Load))
                        chain_stores = sum(1 for n in ast.walk(s) if isinstance(n, ast.Name) and n.id == x and isinstance(n.ctx, ast.Store))
                        if chain_reads or chain_stores != len(arms):
                            continue
                        j = i + 1
                        while j < len(out) and _reads(out[j], x) and not any(isinstance(n, ast.Name) and n.id == x and isinstance(n.ctx, ast.Store) for n in ast.walk(out[j])):
                            j += 1
                        tail = out[i + 1:j]
                        if not tail:
                            continue
                        later = any(isinstance(n, ast.Name) and n.id == x for st in out[j:] for n in ast.walk(st))
                        if later or not self.opts.get('selector_ok', lambda nm: True)(x):
                            continue
                        if any(isinstance(n, (ast.FunctionDef, ast.Lambda)) for st in tail for n in ast.walk(st)):
                            continue
                        for a in arms:
                            lit = [st for st in a if isinstance(st, ast.Assign) and len(st.targets) == 1 and isinstance(st.targets[0], ast.Name) and st.targets[0].id == x][-1]
                            a.remove(lit)
                            for st in tail:
                                c2 = _Subst({x: lit.value}).visit(copy.deepcopy(st))
                                c2 = _PruneConst().visit(_LightFold().visit(c2))
                                if c2 is None:
                                    continue
                                a.extend(c2 if isinstance(c2, list) else [c2])
                            if not a:
                                a.append(ast.Pass())
                        del out[i + 1:j]
                        # re-normalise the arms (they may now contain nested ifs / passes)
                        break
            i += 1
        return out

    def split_elif_after_exit(self, stmts):
        if self.directional and not self.opts.get('split_elif'):
            return stmts
        out = []
        for s in stmts:
            while isinstance(s, ast.If) and s.body and isinstance(s.body[-1], (ast.Continue, ast.Break, ast.Return, ast.Raise)) \
                    and len(s.orelse) == 1 and isinstance(s.orelse[0], ast.If):
                out.append(ast.If(test=s.test, body=s.body, orelse=[]))
                s = s.orelse[0]
            out.append(s)
        return out

    def expand_listcomp(self, stmts):
        out = []
        for s in stmts:
            if isinstance(s, ast.Assign) and len(s.targets) == 1 and isinstance(s.targets[0], ast.Name) and isinstance(s.value, ast.Call) \
                    and dotted(s.value.func) == 'sum' and len(s.value.args) == 2 and not s.value.keywords \
                    and isinstance(s.value.args[0], (ast.GeneratorExp, ast.ListComp)) and len(s.value.args[0].generators) == 1 \
                    and not s.value.args[0].generators[0].ifs and not s.value.args[0].generators[0].is_async \
                    and (not self.directional or self.opts.get('expand_sum', False)):
                x, gen, start = s.targets[0].id, s.value.args[0], s.value.args[1]
                numeric = (isinstance(start, ast.Constant) and isinstance(start.value, (int, float)) and not isinstance(start.value, bool)) or \
                    (isinstance(start, ast.Call) and dotted(start.func) in ('np.int64', 'np.int32', 'np.uint64', 'np.float64', 'np.float32', 'int', 'float'))
                if numeric and x not in names_loaded(gen) and is_pure(start):
                    g = gen.generators[0]
                    out.append(ast.Assign(targets=[ast.Name(id=x, ctx=ast.Store())], value=start))
                    out.append(ast.For(target=g.target, iter=g.iter, orelse=[], body=[
                        ast.AugAssign(target=ast.Name(id=x, ctx=ast.Store()), op=ast.Add(), value=gen.elt)]))
                    continue
            if isinstance(s, ast.Assign) and len(s.targets) == 1 and isinstance(s.targets[0], ast.Name) and isinstance(s.value, ast.ListComp) \
                    and len(s.value.generators) == 1 and not s.value.generators[0].ifs and not s.value.generators[0].is_async \
                    and (not self.directional or s.targets[0].id in self.opts.get('list_names', ())):
                x = s.targets[0].id
                g = s.value.generators[0]
                if x not in names_loaded(s.value):
                    out.append(ast.Assign(targets=[ast.Name(id=x, ctx=ast.Store())], value=ast.List(elts=[], ctx=ast.Load())))
                    out.append(ast.For(target=g.target, iter=g.iter, orelse=[], body=[
                        ast.AugAssign(target=ast.Name(id=x, ctx=ast.Store()), op=ast.Add(), value=ast.List(elts=[s.value.elt], ctx=ast.Load()))]))
                    continue
            out.append(s)
        return out

    def loop_continue_to_else(self, body):
        """R23 (applied to the statement list of a loop body)."""
        for i, s in enumerate(body):
            if isinstance(s, ast.If) and not s.orelse and s.body and isinstance(s.body[-1], ast.Continue) and i < len(body) - 1:
                rest = self.loop_continue_to_else(body[i + 1:])
                if any(isinstance(n, (ast.Continue,)) for st in s.body[:-1] for n in ast.walk(st)):
                    return body
                return body[:i] + [ast.If(test=s.test, body=s.body[:-1] or [ast.Pass()], orelse=rest)]
        return body

    def flatten_ifs(self, stmts):
        out = []
        for s in stmts:
            if isinstance(s, ast.If) and not s.orelse and is_pure(s.test):
                inner = s.body
                if inner and all(isinstance(b, ast.If) and not b.orelse and is_pure(b.test) for b in inner):
                    ptest_names = names_loaded(s.test)
                    al = Aliases(ast.Module(body=[s], type_ignores=[]))
                    safe = True
                    for b in inner[:-1]:
                        ef = stmt_effects(b, al)
                        if ef.rebinds & ptest_names or al.cls(heap_roots(s.test)) & ef.writes:
                            safe = False
                    if safe:
                        for b in inner:
                            out.append(ast.If(test=_and(s.test, b.test), body=b.body, orelse=[]))
                        continue
            out.append(s)
        return out

    def merge_ifs(self, stmts):
        def exits(body):
            return bool(body) and isinstance(body[-1], (ast.Continue, ast.Break, ast.Return, ast.Raise))
        out = []
        for s in stmts:
            if isinstance(s, ast.If):
                # if a: X elif b: X  ->  if a or b: X
                while len(s.orelse) == 1 and isinstance(s.orelse[0], ast.If) and ast.dump(ast.Module(body=s.orelse[0].body, type_ignores=[])) == ast.dump(ast.Module(body=s.body, type_ignores=[])):
                    s = ast.If(test=_or(s.test, s.orelse[0].test), body=s.body, orelse=s.orelse[0].orelse)
                prev = out[-1] if out else None
                if isinstance(prev, ast.If) and not prev.orelse and not s.orelse and exits(prev.body) \
                        and ast.dump(ast.Module(body=prev.body, type_ignores=[])) == ast.dump(ast.Module(body=s.body, type_ignores=[])):
                    out[-1] = ast.If(test=_or(prev.test, s.test), body=prev.body, orelse=[])
                    continue
            out.append(s)
        return out

    def single_expr_helper(self, name):
        """(params, defaults, body expression) when helper `name` normalises to a single `return E`."""
        cache = self.__dict__.setdefault('_seh', {})
        if name not in cache:
            cache[name] = None
            g = self.funcs.get(name)
            ok = g is not None and not (g.args.vararg or g.args.kwarg or g.args.kwonlyargs)
            if ok:
                for d in g.decorator_list:
                    if dotted(d.func if isinstance(d, ast.Call) else d).split('.')[-1] not in ('njit', 'jit'):
                        ok = False
            if ok and self.depth <= 3:
                gn = Normaliser({k: v for k, v in self.funcs.items() if k != name}, self.depth + 1, set() if self.directional else None).function(g)
                if len(gn.body) == 1 and isinstance(gn.body[0], ast.Return) and gn.body[0].value is not None:
                    params = [x.arg for x in gn.args.posonlyargs + gn.args.args]
                    free = names_loaded(gn.body[0].value) - set(params)
                    if not (free & self.caller_bound):
                        cache[name] = (gn.args, gn.body[0].value)
        return cache[name]

    def inline_exprs(self, s):
        outer = self

        class _IE(ast.NodeTransformer):
            def visit_Call(self_, n):
                self_.generic_visit(n)
                nm_ = outer._callee_name(n.func)
                if nm_ is not None and nm_ in outer.funcs and not nm_.startswith('self.'):
                    h = outer.single_expr_helper(nm_)
                    if h is not None:
                        lam = ast.Lambda(args=h[0], body=copy.deepcopy(h[1]))
                        r = _Beta().visit_Call(ast.Call(func=lam, args=n.args, keywords=n.keywords))
                        if not (isinstance(r, ast.Call) and isinstance(r.func, ast.Lambda)):
                            outer.inlined.add(nm_)
                            return r
                return n
        return _IE().visit(s)

    def stmt(self, s):
        if self.funcs and not isinstance(s, (ast.FunctionDef, ast.AsyncFunctionDef, ast.ClassDef, ast.For, ast.While, ast.If, ast.With, ast.Try)):
            s = self.inline_exprs(s)
        elif self.funcs and isinstance(s, (ast.For, ast.While, ast.If)):
            if isinstance(s, ast.For):
                s.iter = self.inline_exprs(s.iter)
            else:
                s.test = self.inline_exprs(s.test)
        if self.funcs and isinstance(s, ast.AugAssign) and isinstance(s.value, ast.Call) and isinstance(s.value.func, ast.Name) \
                and s.value.func.id in self.funcs:
            Normaliser._fresh += 1
            tmp = f'{s.value.func.id}__ret{Normaliser._fresh}'
            first = ast.Assign(targets=[ast.Name(id=tmp, ctx=ast.Store())], value=s.value)
            inl = self.try_inline(first)
            if inl is not None:
                out = []
                for t in inl:
                    t._from_inline = True
                    out.extend(self.stmt(t))
                out.append(ast.AugAssign(target=s.target, op=s.op, value=ast.Name(id=tmp, ctx=ast.Load())))
                return out
        if self.funcs and isinstance(s, (ast.Assign, ast.Expr, ast.Return)):
            inl = self.try_inline(s)
            if inl is not None:
                out = []
                for t in inl:
                    t._from_inline = True
                    out.extend(self.stmt(t))
                return out
        if isinstance(s, (ast.FunctionDef, ast.AsyncFunctionDef)):
            if self.directional and not self.is_new(s.name):
                return [s]
            inner = Normaliser(self.funcs, self.depth, self.keep_ids)
            g = inner.function(s)
            self.inlined |= inner.inlined
            self.funcs[s.name] = s
            if not g.decorator_list and len(g.body) == 1 and isinstance(g.body[0], ast.Return) and g.body[0].value is not None \
                    and not g.args.vararg and not g.args.kwarg:
                lam = ast.Lambda(args=g.args, body=g.body[0].value)
                return [ast.Assign(targets=[ast.Name(id=g.name, ctx=ast.Store())], value=lam)]
            return [g]
        if isinstance(s, ast.For) and isinstance(s.target, ast.Tuple) and len(s.target.elts) == 2 and all(isinstance(e, ast.Name) for e in s.target.elts) \
                and isinstance(s.iter, ast.Call) and isinstance(s.iter.func, ast.Attribute) and s.iter.func.attr == 'items' and not s.iter.args \
                and not s.iter.keywords and is_pure(s.iter.func.value) and not s.orelse:
            kname, vname = s.target.elts[0].id, s.target.elts[1].id
            X = s.iter.func.value
            mod = ast.Module(body=s.body, type_ignores=[])
            bb = _bound_in(mod)
            al_ = Aliases(mod)
            ef_ = Effects()
            for b_ in s.body:
                ef_.merge(stmt_effects(b_, al_))
            rootX = root_name(X) if not isinstance(X, ast.Name) else X.id
            if kname not in bb and vname not in bb and kname != vname and (not self.directional or self.is_new(vname)) \
                    and not (names_loaded(X) & bb) and not (rootX and al_.find(rootX) in ef_.reshapes):
                sub = ast.Subscript(value=copy.deepcopy(X), slice=ast.Name(id=kname, ctx=ast.Load()), ctx=ast.Load())
                s = ast.For(target=ast.Name(id=kname, ctx=ast.Store()), iter=copy.deepcopy(X),
                            body=[_Subst({vname: sub}).visit(b_) for b_ in s.body], orelse=[])
        if isinstance(s, ast.For):
            s.body = self.block(s.body)
            if not self.directional:
                s.body = _drop_tail(s.body, ast.Continue)
            s.orelse = self.block(s.orelse)
            vals = _range_literal(s.iter)
            if vals is not None and isinstance(s.target, ast.Name):
                items = [{s.target.id: ast.Constant(v)} for v in vals]
            else:
                items = _literal_items(s.iter, s.target)
            if items is not None and not s.orelse and not _has_exit(s.body):
                tnames = set().union(*[set(m) for m in items]) if items else set()
                body_bound = _bound_in(ast.Module(body=s.body, type_ignores=[]))
                item_free = set()
                for m_ in items:
                    for v_ in m_.values():
                        item_free |= names_loaded(v_)
                if all(self.is_new(t) for t in tnames) and not (tnames & body_bound) and not (item_free & body_bound):
                    out = []
                    for m in items:
                        for b in s.body:
                            c = _Subst(m).visit(copy.deepcopy(b))
                            out.append((_LightFold() if self.directional else _Fold()).visit(c))
                    return out
            return [s]
        if isinstance(s, ast.While):
            s.body = self.block(s.body)
            if not self.directional:
                s.body = _drop_tail(s.body, ast.Continue)
            s.orelse = self.block(s.orelse)
            return [s]
        if isinstance(s, ast.If):
            s.body = self.block(s.body)
            s.orelse = self.block(s.orelse)
            return [s]
        if isinstance(s, ast.With):
            s.body = self.block(s.body)
            return [s]
        if isinstance(s, ast.Try):
            s.body = self.block(s.body)
            s.orelse = self.block(s.orelse)
            s.finalbody = self.block(s.finalbody)
            for h in s.handlers:
                h.body = self.block(h.body)
            return [s]
        if isinstance(s, ast.Assign) and len(s.targets) == 1 and isinstance(s.targets[0], ast.Tuple) and isinstance(s.value, ast.Tuple) \
                and len(s.targets[0].elts) == len(s.value.elts) and all(isinstance(t, ast.Name) for t in s.targets[0].elts):
            tn = {t.id for t in s.targets[0].elts}
            if not (tn & names_loaded(s.value)) and len(tn) == len(s.targets[0].elts) and \
                    (not self.directional or getattr(s, '_from_inline', False) or all(self.is_new(t_) for t_ in tn)):
                return [ast.Assign(targets=[ast.Name(id=t.id, ctx=ast.Store())], value=v) for t, v in zip(s.targets[0].elts, s.value.elts)]
        if isinstance(s, ast.Expr) and isinstance(s.value, ast.Call) and isinstance(s.value.func, ast.Attribute) and s.value.func.attr == 'append' \
                and isinstance(s.value.func.value, ast.Name) and len(s.value.args) == 1 and not s.value.keywords \
                and s.value.func.value.id in self.opts.get('list_names', ()):
            return [ast.AugAssign(target=ast.Name(id=s.value.func.value.id, ctx=ast.Store()), op=ast.Add(), value=ast.List(elts=[s.value.args[0]], ctx=ast.Load()))]
        if isinstance(s, ast.AnnAssign) and s.value is not None and isinstance(s.target, ast.Name):
            return [ast.Assign(targets=[s.target], value=s.value)]
        if isinstance(s, ast.AugAssign) and isinstance(s.target, ast.Name) and not is_pure(s.value) and not self.directional:
            Normaliser._fresh += 1
            tmp = f'tmp__{Normaliser._fresh}'
            return [ast.Assign(targets=[ast.Name(id=tmp, ctx=ast.Store())], value=s.value),
                    ast.AugAssign(target=s.target, op=s.op, value=ast.Name(id=tmp, ctx=ast.Load()))]
        if isinstance(s, ast.AugAssign) and isinstance(s.target, ast.Subscript) and is_pure(s.target) and not self.directional:
            load = copy.deepcopy(s.target)
            load.ctx = ast.Load()
            return [ast.Assign(targets=[s.target], value=ast.BinOp(left=load, op=s.op, right=s.value))]
        return [s]

    def defaults_to_ifelse(self, stmts):
        """x = <literal> ... if c: x = B   ->   if c: x = B else: x = <literal>   (R5)"""
        out = list(stmts)
        changed = True
        while changed:
            changed = False
            for i, s in enumerate(out):
                if not (isinstance(s, ast.If)):
                    continue
                assigned_body = {t.targets[0].id for t in s.body if isinstance(t, ast.Assign) and len(t.targets) == 1 and isinstance(t.targets[0], ast.Name)}
                assigned_else = {n.id for b in s.orelse for n in ast.walk(b) if isinstance(n, ast.Name) and isinstance(n.ctx, ast.Store)}
                # look backwards over a run of literal defaults immediately before the if
                j = i - 1
                moved = []
                while j >= 0:
                    d = out[j]
                    if isinstance(d, ast.Assign) and len(d.targets) == 1 and isinstance(d.targets[0], ast.Name) and isinstance(d.value, ast.Constant) \
                            and d.targets[0].id in assigned_body and d.targets[0].id not in assigned_else \
                            and d.targets[0].id not in names_loaded(s.test) \
                            and not any(d.targets[0].id in names_loaded(b) for b in s.body):
                        moved.insert(0, d)
                        j -= 1
                    else:
                        break
                if moved:
                    s.orelse = s.orelse + moved
                    del out[j + 1:i]
                    changed = True
                    break
        return out

    # --------------------------------------------------------------- function level
    def function(self, fn):
        fn = copy.deepcopy(fn)
        self.caller_bound = _bound_in(fn) | {a.arg for a in fn.args.posonlyargs + fn.args.args + fn.args.kwonlyargs}
        binds = {}
        for n in ast.walk(fn):
            if isinstance(n, ast.Assign):
                for t in n.targets:
                    if isinstance(t, ast.Name):
                        binds.setdefault(t.id, []).append(n.value)
            elif isinstance(n, (ast.For, ast.With, ast.AnnAssign)) or isinstance(n, ast.arg):
                for x in ast.walk(n.target if hasattr(n, 'target') else n) if not isinstance(n, ast.With) else []:
                    if isinstance(x, ast.Name) and isinstance(x.ctx, ast.Store):
                        binds.setdefault(x.id, []).append(None)
        params_ = {a.arg for a in fn.args.posonlyargs + fn.args.args + fn.args.kwonlyargs}
        lists = {k for k, vs in binds.items() if k not in params_ and vs and all(isinstance(v, (ast.List, ast.ListComp)) for v in vs)}
        if not self.directional:
            self.opts['list_names'] = lists
        else:
            self.opts['list_names'] = lists & set(self.opts.get('ref_list_names', ()))
        fn.body = self.block(fn.body)
        if not self.directional:
            fn.body = _drop_tail(fn.body, ast.Return)
        self.version_straightline(fn)
        if self.directional:
            for _ in range(6):
                before = ast.dump(fn)
                self.al = Aliases(fn)
                self.forward_substitute(fn)
                self.coalesce(fn)
                self.adjacent_temps(fn)
                fn = _Beta().visit(fn)
                fn = _LightFold().visit(fn)
                self.drop_dead(fn)
                fn.body = self.block(fn.body)       # a substituted literal table can now be unrolled
                if ast.dump(fn) == before:
                    break
            self.reaug(fn)
            return fn
        fn = _Fold().visit(fn)
        fn = _NNF().visit(fn)
        self.split_webs(fn)
        self.split_loop_targets(fn)
        for _ in range(6):
            before = ast.dump(fn)
            self.al = Aliases(fn)
            self.forward_substitute(fn)
            self.coalesce(fn)
            fn = _Beta().visit(fn)
            fn = _Fold().visit(fn)
            self.drop_dead(fn)
            fn.body = self.block(fn.body)
            if ast.dump(fn) == before:
                break
        fn = _NNF().visit(fn)
        fn.body = self.merge_ifs(self.flatten_ifs(fn.body)) if False else fn.body
        self.al = Aliases(fn)
        self.reorder(fn)
        _finalise(fn)
        return fn

    # ---- R7
    def forward_substitute(self, fn):
        counts = {}
        for n in ast.walk(fn):
            if isinstance(n, ast.Name) and isinstance(n.ctx, (ast.Store, ast.Del)):
                counts[n.id] = counts.get(n.id, 0) + 1
            elif isinstance(n, (ast.FunctionDef, ast.AsyncFunctionDef, ast.ClassDef)) and n is not fn:
                counts[n.name] = counts.get(n.name, 0) + 1
            elif isinstance(n, (ast.Global, ast.Nonlocal)):
                for nm in n.names:
                    counts[nm] = counts.get(nm, 0) + 100
        params = {a.arg for a in fn.args.posonlyargs + fn.args.args + fn.args.kwonlyargs}
        if fn.args.vararg:
            params.add(fn.args.vararg.arg)
        if fn.args.kwarg:
            params.add(fn.args.kwarg.arg)
        # nested scopes that rebind a name keep it for themselves: such names are not candidates
        nested_bound = set()
        for n in ast.walk(fn):
            if isinstance(n, (ast.FunctionDef, ast.AsyncFunctionDef, ast.Lambda)) and n is not fn:
                nested_bound |= {a.arg for a in n.args.posonlyargs + n.args.args + n.args.kwonlyargs}
                if not isinstance(n, ast.Lambda):
                    nested_bound |= _bound_in(n)
        whole = Effects()
        for s in fn.body:
            whole.merge(stmt_effects(s, self.al))
        cand = {}
        state = dict(ok=set(), bad=set())
        refread = {}      # candidate name -> container name D, for x = D[k] used only as an object (x[...], x.attr, len(x))

        def candidate(s):
            return isinstance(s, ast.Assign) and len(s.targets) == 1 and isinstance(s.targets[0], ast.Name) and counts.get(s.targets[0].id) == 1 \
                and s.targets[0].id not in params and s.targets[0].id not in nested_bound and is_pure(s.value) and s.targets[0].id not in names_loaded(s.value) \
                and self.is_new(s.targets[0].id) and (not self.directional or _cheap(s.value))

        def uses_in(node, env, in_closure):
            """Record for every Load of a candidate name whether a valid definition reaches it."""
            for n in ast.iter_child_nodes(node):
                if isinstance(n, (ast.FunctionDef, ast.AsyncFunctionDef, ast.Lambda)):
                    uses_in(n, env, True)
                    continue
                if isinstance(n, ast.Name) and isinstance(n.ctx, ast.Load) and n.id in cand:
                    e = env.get(n.id)
                    if e is None:
                        state['bad'].add(n.id)
                    elif in_closure:
                        # a closure runs later: the definition must stay valid for the whole rest of the function
                        stable = all((x in params and counts.get(x, 0) == 0) or (x not in params and counts.get(x, 0) <= 1) for x in names_loaded(e))
                        so = shape_only_roots(e)
                        if not stable or (self.al.cls(heap_roots(e) - so) & whole.writes) or (self.al.cls(so) & whole.reshapes):
                            state['bad'].add(n.id)
                uses_in(n, env, in_closure)

        def kill(env, ef):
            for k in list(env):
                e = env[k]
                if names_loaded(e) & ef.rebinds or k in ef.rebinds:
                    del env[k]
                    continue
                if k in refread:
                    # the value is a reference held in a slot of D: only rebinding that slot can change it
                    if refread[k] in ef.direct or (self.al.cls(heap_roots(e.slice)) & ef.writes if isinstance(e, ast.Subscript) else False):
                        del env[k]
                    continue
                so = shape_only_roots(e)
                if self.al.cls(heap_roots(e) - so) & ef.writes or self.al.cls(so) & ef.reshapes:
                    del env[k]

        def walk_block(stmts, env):
            for s in stmts:
                if isinstance(s, (ast.For, ast.While)):
                    ef = stmt_effects(s, self.al)
                    kill(env, ef)
                    hdr = s.iter if isinstance(s, ast.For) else s.test
                    uses_in(ast.Expr(value=hdr), env, False)
                    inner = dict(env)
                    walk_block(s.body, inner)
                    walk_block(s.orelse, dict(env))
                    # names defined inside the loop are not visible afterwards
                    continue
                if isinstance(s, ast.If):
                    uses_in(ast.Expr(value=s.test), env, False)
                    e1, e2 = dict(env), dict(env)
                    walk_block(s.body, e1)
                    walk_block(s.orelse, e2)
                    kill(env, stmt_effects(s, self.al))
                    continue
                if isinstance(s, (ast.With, ast.Try)):
                    kill(env, stmt_effects(s, self.al))
                    for f in ('body', 'orelse', 'finalbody'):
                        walk_block(getattr(s, f, []) or [], dict(env))
                    for h in getattr(s, 'handlers', []) or []:
                        walk_block(h.body, dict(env))
                    for it in getattr(s, 'items', []) or []:
                        uses_in(ast.Expr(value=it.context_expr), env, False)
                    continue
                if isinstance(s, (ast.FunctionDef, ast.AsyncFunctionDef)):
                    uses_in(s, env, True)
                    kill(env, _rebind_only(s.name))
                    continue
                # simple statement: reads happen before its own effects
                if candidate(s):
                    uses_in(ast.Expr(value=s.value), env, False)
                    kill(env, stmt_effects(s, self.al))
                    cand[s.targets[0].id] = s
                    env[s.targets[0].id] = s.value
                    continue
                uses_in(s, env, False)
                kill(env, stmt_effects(s, self.al))

        # candidates must be known before uses are classified: first collect them
        for n in ast.walk(fn):
            if isinstance(n, ast.Assign) and candidate(n):
                cand[n.targets[0].id] = n
        # reference reads: x = D[k] where x is only ever used as the base of a subscript / attribute or under len()
        parents = {}
        for n in ast.walk(fn):
            for ch in ast.iter_child_nodes(n):
                parents[id(ch)] = n
        for x, st_ in cand.items():
            v = st_.value
            if isinstance(v, ast.Subscript) and isinstance(v.value, ast.Name) and not isinstance(v.slice, ast.Slice):
                uses = [n for n in ast.walk(fn) if isinstance(n, ast.Name) and n.id == x and isinstance(n.ctx, ast.Load)]
                ok_obj = bool(uses)
                for u in uses:
                    p_ = parents.get(id(u))
                    if isinstance(p_, (ast.Subscript, ast.Attribute)) and p_.value is u:
                        continue
                    if isinstance(p_, ast.Call) and dotted(p_.func) == 'len' and p_.args and p_.args[0] is u:
                        continue
                    if isinstance(p_, ast.For) and p_.iter is u:
                        continue
                    ok_obj = False
                if ok_obj:
                    refread[x] = v.value.id
        walk_block(fn.body, {})
        ok = {k for k in cand if k not in state['bad']}
        # a candidate whose value mentions a rejected candidate is still fine (the rejected one stays a variable)
        if not ok:
            return
        # substitute in dependency order: resolve chains first
        values = {k: cand[k].value for k in ok}
        for _ in range(len(values) + 1):
            progressed = False
            for k in list(values):
                v2 = _Subst({j: values[j] for j in values if j != k}).visit(copy.deepcopy(values[k]))
                if ast.dump(v2) != ast.dump(values[k]):
                    values[k] = v2
                    progressed = True
            if not progressed:
                break
        drop = {id(cand[k]) for k in ok}
        _remove_stmts(fn, drop)
        sub = _Subst(values)
        fn.body = [sub.visit(s) for s in fn.body]

    # ---- R21
    def version_straightline(self, fn):
        params = {a.arg for a in fn.args.posonlyargs + fn.args.args + fn.args.kwonlyargs}
        total = {}
        for n in ast.walk(fn):
            if isinstance(n, ast.Name):
                total[n.id] = total.get(n.id, 0) + 1
        nested = set()
        for n in ast.walk(fn):
            if isinstance(n, (ast.FunctionDef, ast.AsyncFunctionDef, ast.Lambda)) and n is not fn:
                nested |= {x.id for x in ast.walk(n) if isinstance(x, ast.Name)}

        def blocks(node):
            for f in ('body', 'orelse', 'finalbody'):
                blk = getattr(node, f, None)
                if isinstance(blk, list) and blk and isinstance(blk[0], ast.stmt):
                    yield blk
                    for st in blk:
                        if not isinstance(st, (ast.FunctionDef, ast.AsyncFunctionDef, ast.ClassDef)):
                            yield from blocks(st)
            for h in getattr(node, 'handlers', []) or []:
                yield from blocks(h)
        allblocks = list(blocks(fn))
        perblock = []
        for blk in allblocks:
            defs = {}
            for i, st in enumerate(blk):
                if isinstance(st, ast.Assign) and len(st.targets) == 1 and isinstance(st.targets[0], ast.Name):
                    defs.setdefault(st.targets[0].id, []).append(i)
            perblock.append(defs)
        names = set().union(*[set(d) for d in perblock]) if perblock else set()
        serial = [0]
        for x in names:
            if x in params or x in nested or not self.is_new(x):
                continue
            homes = [(blk, d[x]) for blk, d in zip(allblocks, perblock) if x in d]
            if len(homes) == 1 and len(homes[0][1]) < 2:
                continue
            ok, inside_total = True, 0
            for blk, idx in homes:
                inside = sum(1 for st in blk for n in ast.walk(st) if isinstance(n, ast.Name) and n.id == x)
                stores = sum(1 for st in blk for n in ast.walk(st) if isinstance(n, ast.Name) and n.id == x and isinstance(n.ctx, (ast.Store, ast.Del)))
                first_mention = next(i for i, st in enumerate(blk) if any(isinstance(n, ast.Name) and n.id == x for n in ast.walk(st)))
                if stores != len(idx) or first_mention != idx[0] or _reads(blk[idx[0]].value, x):
                    ok = False
                    break
                inside_total += inside
            # the home blocks must be disjoint (no home nested in another) and hold every occurrence
            if not ok or inside_total != total.get(x, 0):
                continue
            for blk, idx in homes:
                ver = None
                for i, st in enumerate(blk):
                    if i in idx:
                        for n in ast.walk(st.value):
                            if isinstance(n, ast.Name) and n.id == x and ver is not None:
                                n.id = ver
                        serial[0] += 1
                        ver = f'{x}__v{serial[0]}'
                        st.targets[0].id = ver
                    elif ver is not None:
                        for n in ast.walk(st):
                            if isinstance(n, ast.Name) and n.id == x:
                                n.id = ver
            total[x] = 0

    def reaug(self, fn):
        """Directional mode: `T = T op v` (T a subscript) written back as `T op= v`, the form the reviewed code uses."""
        class _A(ast.NodeTransformer):
            def visit_Assign(self_, n):
                if len(n.targets) == 1 and isinstance(n.targets[0], ast.Subscript) and isinstance(n.value, ast.BinOp) and is_pure(n.targets[0]):
                    l = copy.deepcopy(n.targets[0])
                    l.ctx = ast.Load()
                    if ast.dump(l) == ast.dump(n.value.left):
                        return ast.AugAssign(target=n.targets[0], op=n.value.op, value=n.value.right)
                return n
        _A().visit(fn)

    # ---- R18
    def split_webs(self, fn):
        params = {a.arg for a in fn.args.posonlyargs + fn.args.args + fn.args.kwonlyargs}
        loops = []

        def find_loops(stmts):
            for st in stmts:
                if isinstance(st, (ast.For, ast.While)):
                    loops.append(st)
                elif isinstance(st, (ast.If, ast.With, ast.Try)):
                    for f in ('body', 'orelse', 'finalbody'):
                        find_loops(getattr(st, f, []) or [])
                    for h in getattr(st, 'handlers', []) or []:
                        find_loops(h.body)
        find_loops(fn.body)
        if len(loops) < 1:
            return
        inloop = {}
        for k, lp in enumerate(loops):
            for n in ast.walk(ast.Module(body=lp.body, type_ignores=[])):
                inloop[id(n)] = k
        occ = {}
        for n in ast.walk(fn):
            if isinstance(n, ast.Name):
                occ.setdefault(n.id, []).append(n)
        nested_names = set()
        for n in ast.walk(fn):
            if isinstance(n, (ast.FunctionDef, ast.AsyncFunctionDef, ast.Lambda)) and n is not fn:
                for x in ast.walk(n):
                    if isinstance(x, ast.Name):
                        nested_names.add(x.id)

        def must_define(stmts, x, defined):
            """Walk a block in order; returns (ok, defined_after).  ok False when x may be read before being written."""
            for st in stmts:
                if isinstance(st, ast.If):
                    if _reads(st.test, x) and not defined:
                        return False, defined
                    ok1, d1 = must_define(st.body, x, defined)
                    ok2, d2 = must_define(st.orelse, x, defined)
                    if not (ok1 and ok2):
                        return False, defined
                    defined = d1 and d2
                    continue
                if isinstance(st, (ast.For, ast.While)):
                    hdr = st.iter if isinstance(st, ast.For) else st.test
                    if _reads(hdr, x) and not defined:
                        return False, defined
                    d0 = defined or (isinstance(st, ast.For) and any(isinstance(n, ast.Name) and n.id == x for n in ast.walk(st.target)))
                    ok1, _ = must_define(st.body, x, d0)
                    if not ok1:
                        return False, defined
                    continue
                if isinstance(st, (ast.With, ast.Try)):
                    if any(isinstance(n, ast.Name) and n.id == x for n in ast.walk(st)) and not defined:
                        return False, defined
                    continue
                # simple statement: reads first
                reads = [n for n in ast.walk(st) if isinstance(n, ast.Name) and n.id == x and isinstance(n.ctx, ast.Load)]
                aug = isinstance(st, ast.AugAssign) and isinstance(st.target, ast.Name) and st.target.id == x
                if (reads or aug) and not defined:
                    return False, defined
                if any(isinstance(n, ast.Name) and n.id == x and isinstance(n.ctx, ast.Store) for n in ast.walk(st)):
                    defined = True
            return True, defined
        for x, nodes in occ.items():
            if x in params or x in nested_names:
                continue
            groups = {}
            for n in nodes:
                groups.setdefault(inloop.get(id(n), -1), []).append(n)
            loop_groups = [k for k in groups if k >= 0]
            if len(loop_groups) + (1 if -1 in groups else 0) < 2:
                continue
            if not any(isinstance(n.ctx, ast.Store) for k in loop_groups for n in groups[k]):
                continue
            good = True
            for k in loop_groups:
                if not any(isinstance(n.ctx, ast.Store) for n in groups[k]):
                    good = False       # only read in this loop: the value comes from outside
                    break
                ok_, _ = must_define(loops[k].body, x, False)
                if not ok_:
                    good = False
                    break
            if good and -1 in groups:
                # occurrences outside loops: any read must be dominated by a write outside the loops
                ok_, _ = must_define([st for st in fn.body], x, False) if False else (True, True)
                top_reads = [n for n in groups[-1] if isinstance(n.ctx, ast.Load)]
                if top_reads:
                    good = False
            if not good:
                continue
            for k in loop_groups:
                for n in groups[k]:
                    n.id = f'{x}__w{k}'

    # ---- R28
    def adjacent_temps(self, fn):
        loads = {}
        stores = {}
        for n in ast.walk(fn):
            if isinstance(n, ast.Name):
                d = loads if isinstance(n.ctx, ast.Load) else stores
                d[n.id] = d.get(n.id, 0) + 1
        params = {a.arg for a in fn.args.posonlyargs + fn.args.args + fn.args.kwonlyargs}
        changed = [False]

        def do_block(blk):
            i = 0
            while i < len(blk) - 1:
                s_, nxt = blk[i], blk[i + 1]
                if isinstance(s_, ast.Assign) and len(s_.targets) == 1 and isinstance(s_.targets[0], ast.Name):
                    t = s_.targets[0].id
                    if stores.get(t) == 1 and loads.get(t) == 1 and t not in params and self.is_new(t) and not is_pure(s_.value) \
                            and isinstance(nxt, (ast.Assign, ast.AugAssign, ast.Expr, ast.Return)) and _reads(nxt, t) \
                            and not any(isinstance(n, (ast.Lambda, ast.Yield, ast.Await, ast.ListComp, ast.GeneratorExp)) for n in ast.walk(nxt)) \
                            and _nothing_impure_before(nxt, t):
                        blk[i + 1] = _Subst({t: s_.value}).visit(nxt)
                        del blk[i]
                        changed[0] = True
                        continue
                for f in ('body', 'orelse', 'finalbody'):
                    sub = getattr(s_, f, None)
                    if isinstance(sub, list) and sub and isinstance(sub[0], ast.stmt) and not isinstance(s_, (ast.FunctionDef, ast.AsyncFunctionDef)):
                        do_block(sub)
                for h in getattr(s_, 'handlers', []) or []:
                    do_block(h.body)
                i += 1
            if blk:
                s_ = blk[-1]
                for f in ('body', 'orelse', 'finalbody'):
                    sub = getattr(s_, f, None)
                    if isinstance(sub, list) and sub and isinstance(sub[0], ast.stmt) and not isinstance(s_, (ast.FunctionDef, ast.AsyncFunctionDef)):
                        do_block(sub)
                for h in getattr(s_, 'handlers', []) or []:
                    do_block(h.body)
        do_block(fn.body)
        return changed[0]

    # ---- R18b: a name that only ever occurs as the target of for-loops and inside their bodies is renamed per loop
    def split_loop_targets(self, fn):
        params = {a.arg for a in fn.args.posonlyargs + fn.args.args + fn.args.kwonlyargs}
        loops = {}
        for n in ast.walk(fn):
            if isinstance(n, ast.For) and isinstance(n.target, ast.Name):
                loops.setdefault(n.target.id, []).append(n)
        nested = set()
        for n in ast.walk(fn):
            if isinstance(n, (ast.FunctionDef, ast.AsyncFunctionDef, ast.Lambda)) and n is not fn:
                nested |= {x.id for x in ast.walk(n) if isinstance(x, ast.Name)}
        total = {}
        for n in ast.walk(fn):
            if isinstance(n, ast.Name):
                total[n.id] = total.get(n.id, 0) + 1
        k = 0
        for x, ls in loops.items():
            if len(ls) < 2 or x in params or x in nested or not self.is_new(x):
                continue
            owner = {}
            ok = True
            for lp in ls:
                inside = [n for part in ([lp.target] + lp.body + lp.orelse) for n in ast.walk(part) if isinstance(n, ast.Name) and n.id == x]
                if any(isinstance(n, ast.Name) and n.id == x for n in ast.walk(lp.iter)):
                    ok = False
                for n in inside:
                    if id(n) in owner:
                        ok = False          # nested loops over the same name
                    owner[id(n)] = lp
            if not ok or len(owner) != total.get(x, 0):
                continue
            for lp in ls:
                k += 1
                for part in [lp.target] + lp.body + lp.orelse:
                    for n in ast.walk(part):
                        if isinstance(n, ast.Name) and n.id == x:
                            n.id = f'{x}__L{k}'

    # ---- R15
    def coalesce(self, fn):
        counts, loads_total = {}, {}
        for n in ast.walk(fn):
            if isinstance(n, ast.Name):
                if isinstance(n.ctx, ast.Load):
                    loads_total[n.id] = loads_total.get(n.id, 0) + 1
                else:
                    counts[n.id] = counts.get(n.id, 0) + 1
        params = {a.arg for a in fn.args.posonlyargs + fn.args.args + fn.args.kwonlyargs}
        changed = [False]
        if not any(isinstance(n, ast.Assign) and len(n.targets) == 1 and isinstance(n.value, ast.Name) and counts.get(n.value.id, 0) >= 1
                   and n.value.id not in params for n in ast.walk(fn)):
            return False

        def do_block(blk):
            i = 0
            while i < len(blk):
                s_ = blk[i]
                for f in ('body', 'orelse', 'finalbody'):
                    sub = getattr(s_, f, None)
                    if isinstance(sub, list) and sub and isinstance(sub[0], ast.stmt) and not isinstance(s_, (ast.FunctionDef, ast.AsyncFunctionDef)):
                        do_block(sub)
                for h in getattr(s_, 'handlers', []) or []:
                    do_block(h.body)
                if isinstance(s_, ast.Assign) and len(s_.targets) == 1 and isinstance(s_.value, ast.Name):
                    t, T = s_.value.id, s_.targets[0]
                    okT = isinstance(T, ast.Name) or (isinstance(T, ast.Subscript) and isinstance(T.value, ast.Name) and is_pure(T.slice))
                    if isinstance(T, ast.Name) and counts.get(t, 0) > 1 and t not in params and T.id != t and self.is_new(t) and i > 0:
                        # pure renaming: every occurrence of t lies in this block before the copy, T is not mentioned there
                        first = next((j for j in range(i) if _name_counts(blk[j]).get(t, 0)), None)
                        if first is not None and isinstance(blk[first], ast.Assign) and len(blk[first].targets) == 1 \
                                and isinstance(blk[first].targets[0], ast.Name) and blk[first].targets[0].id == t and not _reads(blk[first].value, t):
                            occ = sum(_name_counts(st).get(t, 0) for st in blk[first:i])
                            tot = loads_total.get(t, 0) + counts.get(t, 0)
                            copy_in = isinstance(blk[first].value, ast.Name) and blk[first].value.id == T.id
                            t_mention = any(_name_counts(st).get(T.id, 0) for st in blk[first + (1 if copy_in else 0):i])
                            nested_use = any(isinstance(n, (ast.FunctionDef, ast.Lambda)) for st in blk[first:i] for n in ast.walk(st))
                            if occ + 1 == tot and not t_mention and not nested_use:
                                for j in range(first, i):
                                    for n in ast.walk(blk[j]):
                                        if isinstance(n, ast.Name) and n.id == t:
                                            n.id = T.id
                                    _NC.pop(id(blk[j]), None)
                                del blk[i]
                                if copy_in:
                                    del blk[first]          # T = T
                                    i -= 1
                                changed[0] = True
                                continue
                    if okT and counts.get(t) == 1 and t not in params and not (isinstance(T, ast.Name) and T.id == t) and self.is_new(t):
                        # definition of t earlier in this very block
                        d = next((j for j in range(i) if isinstance(blk[j], ast.Assign) and len(blk[j].targets) == 1
                                  and isinstance(blk[j].targets[0], ast.Name) and blk[j].targets[0].id == t), None)
                        if d is not None:
                            between = blk[d + 1:i]
                            uses_between = sum(_name_counts(st).get(t, 0) for st in between)
                            if loads_total.get(t, 0) != uses_between + 1:
                                i += 1
                                continue
                            nested_use = any(isinstance(n, (ast.FunctionDef, ast.Lambda)) and any(isinstance(x, ast.Name) and x.id == t for x in ast.walk(n))
                                             for st in between for n in ast.walk(st))
                            tnames = {n.id for n in ast.walk(T) if isinstance(n, ast.Name)}
                            copy_in = isinstance(T, ast.Name) and isinstance(blk[d].value, ast.Name) and blk[d].value.id == T.id
                            mentions_T = any(_name_counts(st).get(nm, 0) for st in between for nm in tnames) or \
                                (not copy_in and any(isinstance(n, ast.Name) and n.id in tnames for n in ast.walk(blk[d].value)))
                            if loads_total.get(t, 0) == uses_between + 1 and not nested_use and not mentions_T:
                                repl = copy.deepcopy(T)
                                for n in ast.walk(repl):
                                    if hasattr(n, 'ctx') and n is repl:
                                        n.ctx = ast.Load()
                                blk[d] = ast.Assign(targets=[copy.deepcopy(T)], value=blk[d].value)

                                class _R(ast.NodeTransformer):
                                    def visit_Name(self_, n):
                                        if n.id == t:
                                            r = copy.deepcopy(T)
                                            r.ctx = type(n.ctx)()
                                            return r
                                        return n
                                for j in range(d + 1, i):
                                    blk[j] = _R().visit(blk[j])
                                del blk[i]
                                if copy_in:
                                    del blk[d]          # T = T
                                changed[0] = True
                                continue
                i += 1
        do_block(fn.body)
        return changed[0]

    # ---- R9
    def drop_dead(self, fn):
        loads = {}
        for n in ast.walk(fn):
            if isinstance(n, ast.Name) and isinstance(n.ctx, ast.Load):
                loads[n.id] = loads.get(n.id, 0) + 1
        dead = set()
        for n in ast.walk(fn):
            if isinstance(n, (ast.FunctionDef, ast.AsyncFunctionDef)) and n is not fn and n.name not in loads and self.is_new(n.name):
                dead.add(id(n))
        for n in ast.walk(fn):
            if isinstance(n, ast.Assign) and len(n.targets) == 1 and isinstance(n.targets[0], ast.Name) and n.targets[0].id not in loads and is_pure(n.value) \
                    and self.is_new(n.targets[0].id):
                dead.add(id(n))
        _remove_stmts(fn, dead)

    # ---- R10
    def reorder(self, node):
        for f in ('body', 'orelse', 'finalbody'):
            blk = getattr(node, f, None)
            if isinstance(blk, list) and blk and isinstance(blk[0], ast.stmt):
                for s in blk:
                    self.reorder(s)
                setattr(node, f, self._toposort(blk))
        for h in getattr(node, 'handlers', []) or []:
            self.reorder(h)

    def _toposort(self, blk):
        n = len(blk)
        if n < 2:
            return blk
        efs = [stmt_effects(s, self.al) for s in blk]
        keys = [_masked_dump(s) for s in blk]

        barrier = [any(isinstance(x, (ast.Return, ast.Raise, ast.Break, ast.Continue, ast.Assert, ast.Yield, ast.YieldFrom)) for x in ast.walk(st)) for st in blk]

        def conflict(a, b):
            if a.world and b.world:
                return True
            if a.rebinds & (b.rebinds | b.reads) or b.rebinds & a.reads:
                return True
            if a.writes & (b.writes | b.hreads) or b.writes & a.hreads:
                return True
            return False
        preds = {j: {i for i in range(j) if barrier[i] or barrier[j] or conflict(efs[i], efs[j])} for j in range(n)}
        done, order = set(), []
        while len(order) < n:
            ready = [j for j in range(n) if j not in done and preds[j] <= done]
            j = min(ready, key=lambda k: keys[k])
            done.add(j)
            order.append(j)
        return [blk[j] for j in order]


_NC = {}


def _name_counts(st):
    k = id(st)
    hit = _NC.get(k)
    if hit is None or hit[0] is not st:
        c = {}
        for n in ast.walk(st):
            if isinstance(n, ast.Name):
                c[n.id] = c.get(n.id, 0) + 1
        hit = (st, c)
        _NC[k] = hit
        if len(_NC) > 20000:
            _NC.clear()
    return hit[1]


def _masked_dump(node):
    """Structure of a statement with every identifier masked (ordering key that does not depend on local names)."""
    if isinstance(node, ast.Name):
        return 'N'
    if isinstance(node, ast.arg):
        return 'A'
    if isinstance(node, ast.AST):
        return '(' + type(node).__name__ + ' ' + ' '.join(_masked_dump(getattr(node, f, None)) for f in node._fields if f not in ('ctx', 'type_comment', 'kind')) + ')'
    if isinstance(node, list):
        return '[' + ' '.join(_masked_dump(x) for x in node) + ']'
    return repr(node)


def _drop_tail(stmts, kind):
    """Remove `continue` (or a bare `return`) in tail position of a block: it is what happens anyway."""
    if not stmts:
        return stmts
    last = stmts[-1]
    if isinstance(last, kind) and (kind is ast.Continue or last.value is None):
        return _drop_tail(stmts[:-1], kind)
    if isinstance(last, ast.If):
        last.body = _drop_tail(last.body, kind) or [ast.Pass()]
        last.orelse = _drop_tail(last.orelse, kind)
    return stmts


def _eval_order(e, out):
    """Expression nodes in Python evaluation order (a call is listed after its function expression and arguments)."""
    if isinstance(e, ast.Call):
        _eval_order(e.func, out)
        for a in e.args:
            _eval_order(a, out)
        for k in e.keywords:
            _eval_order(k.value, out)
        out.append(e)
        return
    for ch in ast.iter_child_nodes(e):
        if isinstance(ch, ast.expr):
            _eval_order(ch, out)
    out.append(e)


def _nothing_impure_before(stmt, t):
    """In the simple statement `stmt`, is everything that is evaluated before the (single) read of t side-effect free?"""
    if isinstance(stmt, ast.Assign):
        exprs = [stmt.value] + list(stmt.targets)
    elif isinstance(stmt, ast.AugAssign):
        exprs = [stmt.target, stmt.value]
    else:
        exprs = [stmt.value] if getattr(stmt, 'value', None) is not None else []
    order = []
    for e in exprs:
        _eval_order(e, order)
    for n in order:
        if isinstance(n, ast.Name) and n.id == t:
            return True
        if isinstance(n, ast.Call) and not is_pure(n):
            return False
    return False


def has_return_value(stmts):
    stack = list(stmts)
    while stack:
        n = stack.pop()
        if isinstance(n, ast.Return) and n.value is not None:
            return True
        if isinstance(n, (ast.FunctionDef, ast.AsyncFunctionDef, ast.Lambda, ast.ClassDef)):
            continue
        stack.extend(ast.iter_child_nodes(n))
    return False


def _finalise(node):
    """Every statement list without `pass` (an empty list becomes a single `pass`)."""
    for n in ast.walk(node):
        for f in ('body', 'orelse', 'finalbody'):
            blk = getattr(n, f, None)
            if isinstance(blk, list) and (not blk or isinstance(blk[0], ast.stmt)):
                new = [s_ for s_ in blk if not isinstance(s_, ast.Pass)]
                if not new and f == 'body' and isinstance(n, (ast.If, ast.For, ast.While, ast.With, ast.FunctionDef, ast.Try, ast.ExceptHandler)):
                    new = [ast.Pass()]
                setattr(n, f, new)


def _reads(e, x):
    return any(isinstance(n, ast.Name) and n.id == x and isinstance(n.ctx, ast.Load) for n in ast.walk(e))


def _rebind_only(name):
    e = Effects()
    e.rebinds.add(name)
    return e


def _remove_stmts(node, ids):
    for f in ('body', 'orelse', 'finalbody'):
        blk = getattr(node, f, None)
        if isinstance(blk, list) and (not blk or isinstance(blk[0], ast.stmt)):
            new = [s for s in blk if id(s) not in ids]
            if not new and blk and f == 'body':
                new = [ast.Pass()]
            setattr(node, f, new)
            for s in new:
                _remove_stmts(s, ids)
    for h in getattr(node, 'handlers', []) or []:
        _remove_stmts(h, ids)


class _Beta(ast.NodeTransformer):
    """(lambda p, q: E)(a, b) -> E[p:=a, q:=b] for side-effect-free arguments (R8)."""
    def visit_Call(self, n):
        self.generic_visit(n)
        f = n.func
        if not isinstance(f, ast.Lambda):
            return n
        a = f.args
        if a.vararg or a.kwarg or a.kwonlyargs or any(isinstance(x, ast.Starred) for x in n.args) or any(k.arg is None for k in n.keywords):
            return n
        params = [x.arg for x in a.posonlyargs + a.args]
        if len(n.args) > len(params):
            return n
        m = {}
        for p, x in zip(params, n.args):
            m[p] = x
        for k in n.keywords:
            if k.arg not in params or k.arg in m:
                return n
            m[k.arg] = k.value
        nd = len(a.defaults)
        for p, d in zip(params[len(params) - nd:], a.defaults):
            m.setdefault(p, d)
        if set(m) != set(params) or not all(is_pure(v) for v in m.values()):
            return n
        # capture: names bound inside the lambda body (inner lambdas / comprehensions) must not occur free in the arguments
        inner_bound = set()
        for x in ast.walk(f.body):
            if isinstance(x, ast.Lambda):
                inner_bound |= {y.arg for y in x.args.args}
            if isinstance(x, ast.comprehension):
                inner_bound |= {y.id for y in ast.walk(x.target) if isinstance(y, ast.Name)}
        free_args = set()
        for v in m.values():
            free_args |= names_loaded(v)
        if inner_bound & free_args:
            return n
        return _Subst(m).visit(copy.deepcopy(f.body))


# ------------------------------------------------------------------------------------------ alpha + compare
class _Alpha(ast.NodeTransformer):
    def __init__(self, keep):
        self.m, self.keep = {}, keep

    def name(self, x):
        if x in self.keep:
            return x
        if x not in self.m:
            self.m[x] = f'v{len(self.m)}'
        return self.m[x]


def alpha_dump(fn):
    """ast.dump with the function's bound names (locals, nested parameters) numbered by first occurrence."""
    bound = set()
    for n in ast.walk(fn):
        if isinstance(n, ast.Name) and isinstance(n.ctx, (ast.Store, ast.Del)):
            bound.add(n.id)
        elif isinstance(n, (ast.FunctionDef, ast.AsyncFunctionDef, ast.Lambda)) and n is not fn:
            bound |= {a.arg for a in n.args.posonlyargs + n.args.args + n.args.kwonlyargs}
            if not isinstance(n, ast.Lambda):
                bound.add(n.name)
    m = {}

    def nm(x):
        if x not in bound:
            return x
        if x not in m:
            m[x] = f'v{len(m)}'
        return m[x]

    def dump(node):
        if isinstance(node, ast.Name):
            return f'N({nm(node.id)},{type(node.ctx).__name__[0]})'
        if isinstance(node, ast.arg):
            return f'A({nm(node.arg)})'
        if isinstance(node, (ast.FunctionDef, ast.AsyncFunctionDef)) and node is not fn:
            return f'Def({nm(node.name)},{dump(node.args)},{dump(node.body)},{dump(node.decorator_list)})'
        if isinstance(node, ast.AST):
            parts = [type(node).__name__]
            for f in node._fields:
                if f in ('ctx', 'type_comment', 'kind', 'annotation', 'returns', 'type_params'):
                    continue
                parts.append(dump(getattr(node, f, None)))
            return '(' + ' '.join(parts) + ')'
        if isinstance(node, list):
            return '[' + ' '.join(dump(x) for x in node) + ']'
        return repr(node)
    hdr = dump(fn.args) + dump(fn.decorator_list)
    return hdr + dump(fn.body)


def normal_form(fn, funcs=None):
    return alpha_dump(Normaliser(funcs).function(fn))


def _elif_count(fn):
    return sum(1 for n in ast.walk(fn) if isinstance(n, ast.If) and len(n.orelse) == 1 and isinstance(n.orelse[0], ast.If))


def _append_count(fn):
    return sum(1 for n in ast.walk(fn) if isinstance(n, ast.Call) and isinstance(n.func, ast.Attribute) and n.func.attr == 'append')


def toward_reviewed(cur_fn, ref_fn, cur_only=None):
    """Directional canonicalisation: the current function with its new locals, new helpers and new constant
    loops eliminated (sound rewrites R2 R3 R6 R7 R8 R9 R13 R15 R20 only).  Returns (FunctionDef, inlined helper names)
    or (None, set()) when nothing changes."""
    ref_ids = set()
    for n in ast.walk(ref_fn):
        if isinstance(n, ast.Name):
            ref_ids.add(n.id)
        elif isinstance(n, ast.arg):
            ref_ids.add(n.arg)
        elif isinstance(n, (ast.FunctionDef, ast.AsyncFunctionDef)):
            ref_ids.add(n.name)
    nz = Normaliser(cur_only, 0, ref_ids)
    count = lambda f, T: sum(1 for n in ast.walk(f) if isinstance(n, T))
    # rewrites that undo a restructuring are only applied when the reviewed function has the other shape
    nz.opts['continue_to_else'] = False
    nz.opts['split_elif'] = False
    nz.opts['ref_diag'] = {ast.dump(n) for n in ast.walk(ref_fn) if isinstance(n, ast.Expr) and is_diagnostic(n)}
    gensum = lambda f: sum(1 for n in ast.walk(f) if isinstance(n, ast.Call) and dotted(n.func) == 'sum' and n.args and isinstance(n.args[0], (ast.GeneratorExp, ast.ListComp)))
    nz.opts['expand_sum'] = gensum(cur_fn) > gensum(ref_fn)
    rl = set()
    for n in ast.walk(ref_fn):
        if isinstance(n, ast.Assign) and len(n.targets) == 1 and isinstance(n.targets[0], ast.Name) and isinstance(n.value, ast.List) and not n.value.elts:
            rl.add(n.targets[0].id)
    nz.opts['ref_list_names'] = rl if count(cur_fn, ast.ListComp) > count(ref_fn, ast.ListComp) or _append_count(cur_fn) > _append_count(ref_fn) else set()
    out = nz.function(cur_fn)
    if ast.dump(out) == ast.dump(Normaliser._strip_copy(cur_fn)):
        return None, set()
    return out, nz.inlined


_NF_CACHE = {}


def equivalent(cur_fn, ref_fn, cur_only=None, ref_only=None):
    """cur_only / ref_only: plain module-level functions that exist on one side only (candidates for R13)."""
    try:
        key = (ast.dump(ref_fn), tuple(sorted((ref_only or {}))))
        if key not in _NF_CACHE:
            _NF_CACHE[key] = normal_form(ref_fn, ref_only)
        return normal_form(cur_fn, cur_only) == _NF_CACHE[key]
    except RecursionError:
        return False
