"""Obligations, verdicts, evidence and the output protocol."""
import json
import os
import time

from .srcmodel import AnalysisError

VERIF = os.path.dirname(os.path.dirname(os.path.dirname(os.path.abspath(__file__))))
KNOWN_FILE = os.path.join(VERIF, 'KNOWN_FINDINGS.txt')

PROVEN, ASSUMED, REFUTED, UNKNOWN = 'PROVEN', 'ASSUMED', 'REFUTED', 'UNKNOWN'


class Ob:
    __slots__ = ('prop', 'rule', 'file', 'func', 'key', 'line', 'verdict', 'detail', 'witness', 'nontrivial', 'nf')

    def __init__(self, prop, rule, file, func, key, line, verdict, detail='', witness=None, nontrivial=True, nf=None):
        self.prop, self.rule, self.file, self.func, self.key = prop, rule, file, func, key
        self.line, self.verdict, self.detail, self.witness = line, verdict, detail, witness
        self.nontrivial, self.nf = nontrivial, nf

    def fullkey(self):
        return f'{self.func}|{self.key}'

    def as_dict(self):
        d = dict(property=self.prop, rule=self.rule, file=self.file, function=self.func, key=self.key,
                 line=self.line, verdict=self.verdict, detail=self.detail)
        if self.witness is not None:
            d['witness'] = self.witness
        if self.nf is not None:
            d['normal_form'] = self.nf
        return d


class Checker:
    """Collects the obligations of one property run."""

    def __init__(self, prop, src, tier='quick'):
        self.prop, self.src, self.tier = prop, src, tier
        self.obs = []
        self.floors = {}      # rule -> minimum number of instances
        self.rules = {}       # rule -> one line description
        self.notes = []       # widened findings outside the property's anchors (thorough tier)
        self.assumptions = []
        self.functions = set()
        self.explanation = ''
        self.exhaustive = False
        self.extra = {}

    # -- registration ---------------------------------------------------------
    def rule(self, rid, text, floor=1):
        self.rules[rid] = text
        self.floors[rid] = floor

    def assume(self, text):
        if text not in self.assumptions:
            self.assumptions.append(text)

    def add(self, rule, file, func, key, verdict, detail='', node=None, line=None, witness=None,
            nontrivial=True, nf=None):
        if line is None and node is not None:
            line = getattr(node, 'lineno', None)
            try:
                line = self.src.orig_line_of(file, node)
            except Exception:
                pass
        self.functions.add(f'{file}:{func}')
        ob = Ob(self.prop, rule, file, func, key, line, verdict, detail, witness, nontrivial, nf)
        self.obs.append(ob)
        return ob

    def proven(self, rule, file, func, key, detail='', **kw):
        return self.add(rule, file, func, key, PROVEN, detail, **kw)

    def refuted(self, rule, file, func, key, detail='', **kw):
        return self.add(rule, file, func, key, REFUTED, detail, **kw)

    def assumed(self, rule, file, func, key, detail='', **kw):
        return self.add(rule, file, func, key, ASSUMED, detail, **kw)

    def unknown(self, rule, file, func, key, detail='', **kw):
        return self.add(rule, file, func, key, UNKNOWN, detail, **kw)

    def check(self, cond, rule, file, func, key, ok_detail='', bad_detail='', **kw):
        if cond:
            return self.proven(rule, file, func, key, ok_detail, **kw)
        return self.refuted(rule, file, func, key, bad_detail or ok_detail, **kw)

    def note(self, text):
        self.notes.append(text)

    def import_from(self, run, prop, rules, as_rule):
        """Runs another property's rule function on the same source and takes over the obligations of `rules` under
        the id `as_rule` of this property (a property that relies on a mechanism decided elsewhere lists it as its own
        obligation, so a defect in the mechanism is reported for every property it breaks)."""
        if getattr(self, '_import_depth', 0) >= 1:
            return 0          # an imported rule set does not import in turn (C01 <-> C03 rely on each other's mechanism)
        sub = Checker(prop, self.src, self.tier)
        sub._import_depth = getattr(self, '_import_depth', 0) + 1
        run(sub)
        n = 0
        for o in sub.obs:
            if o.rule in rules:
                o2 = Ob(self.prop, as_rule, o.file, o.func, f'[{o.rule}] {o.key}', o.line, o.verdict, o.detail, o.witness, o.nontrivial, o.nf)
                self.obs.append(o2)
                self.functions.add(f'{o.file}:{o.func}')
                n += 1
        return n

    # -- results --------------------------------------------------------------
    def refutations(self):
        return [o for o in self.obs if o.verdict == REFUTED]

    def unknowns(self):
        return [o for o in self.obs if o.verdict == UNKNOWN]

    def check_floors(self):
        counts = {}
        for o in self.obs:
            counts[o.rule] = counts.get(o.rule, 0) + 1
        # A floor guards against a rule that silently matches (almost) nothing.  A behaviour-preserving restructuring
        # can merge sites (two unrolled statements rolled into a loop, a tail folded into the loop), so a run only
        # fails when fewer than half of the instances confirmed by hand are left (and always when none is left).
        low = [(r, counts.get(r, 0), n) for r, n in self.floors.items() if n > 0 and counts.get(r, 0) < max(1, (n + 1) // 2)]
        return low


def load_known():
    known, fixed = [], []
    if os.path.isfile(KNOWN_FILE):
        with open(KNOWN_FILE, encoding='utf-8') as f:
            for ln in f:
                ln = ln.strip()
                if not ln or ln.startswith('#'):
                    continue
                if ln.startswith('known:'):
                    body, _, what = ln[len('known:'):].partition('::')
                    ent = {'what': what.strip()}
                    toks = body.strip().split(' ', 2)
                    for t in toks:
                        if '=' in t:
                            k, _, v = t.partition('=')
                            ent[k] = v
                    known.append(ent)
                elif ln.startswith('fixed:'):
                    fixed.append(ln)
    return known, fixed


def classify(chk):
    """Split refutations into (known, new). A known: line suppresses exactly one (property, rule, key)."""
    known, _ = load_known()
    ks, new = [], []
    for o in chk.refutations():
        hit = None
        for e in known:
            if e.get('property') == o.prop and e.get('rule') == o.rule and e.get('key') == o.fullkey():
                hit = e
                break
        if hit:
            ks.append((o, hit))
        else:
            new.append(o)
    return ks, new


def finish(chk, wall_s, seed=0, selftest=None, write=True):
    """Print the protocol lines, write evidence and replay files, return the exit status."""
    prop = chk.prop
    if getattr(chk.src, 'canon_errors', None):
        raise AnalysisError('internal error in the canonicaliser (the rules would silently see un-normalised source): ' + '; '.join(chk.src.canon_errors[:3]))
    low = chk.check_floors()
    if low and not chk.refutations():
        raise AnalysisError('rule instance count below the reviewed floor: ' +
                            ', '.join(f'{r}: {c} < {n}' for r, c, n in low))
    unk = chk.unknowns()
    if unk:
        o = unk[0]
        raise AnalysisError(f'{len(unk)} obligation(s) undecided, first: {o.rule} {o.file}:{o.line} {o.fullkey()} {o.detail}')
    ks, new = classify(chk)
    outdir = os.path.join(VERIF, 'out', prop)
    lines = []
    for o, e in ks:
        lines.append(f'KNOWN-FINDING: property={prop} rule={o.rule} {o.file}:{o.line} {o.fullkey()} :: {e["what"]}')
    if new and write:
        os.makedirs(outdir, exist_ok=True)
    for n, o in enumerate(new):
        path = os.path.join(outdir, f'{n}.json')
        if write:
            with open(path, 'w', encoding='utf-8') as f:
                json.dump(dict(o.as_dict(), source_digest=chk.src.digest(), tier=chk.tier), f, indent=1)
        lines.append(f'REFUTED rule={o.rule} at {o.file}:{o.line} in {o.func}: {o.key} -- {o.detail}'
                     + (f' witness={o.witness}' if o.witness else ''))
        lines.append(f'VIOLATION property={prop} replay={path}')
    nob = len(chk.obs)
    nproven = sum(1 for o in chk.obs if o.verdict == PROVEN)
    nassumed = sum(1 for o in chk.obs if o.verdict == ASSUMED)
    distinct = len({(o.rule, o.fullkey()) for o in chk.obs if o.nontrivial})
    samples = []
    seen_rules = set()
    for o in chk.obs:
        if o.rule not in seen_rules or o.verdict == REFUTED:
            seen_rules.add(o.rule)
            samples.append(o.as_dict())
        if len(samples) >= 40:
            break
    per_rule = {}
    for o in chk.obs:
        d = per_rule.setdefault(o.rule, dict(instances=0, proven=0, assumed=0, refuted=0))
        d['instances'] += 1
        d[o.verdict.lower()] = d.get(o.verdict.lower(), 0) + 1
    cov = dict(
        explanation=chk.explanation or 'static analysis of the current source of /repo (ast, no execution)',
        evaluations=nob,
        distinct_nontrivial=distinct,
        rule='one evaluation = one obligation (rule instance found in the source and decided by its domain); '
             'distinct = distinct (rule, function, construct) keys that needed a domain computation',
        samples=samples,
        obligations=nob,
        discharged=nproven + nassumed,
        proven=nproven,
        assumed=nassumed,
        refuted=len(chk.refutations()),
        known_findings=len(ks),
        rules={r: dict(text=chk.rules.get(r, ''), floor=chk.floors.get(r, 0), **per_rule.get(r, {})) for r in chk.rules},
        functions_analysed=sorted(chk.functions),
        files=sorted(chk.src.consulted),
        source_digest=chk.src.digest(),
        exhaustive=bool(chk.exhaustive),
        notes=chk.notes[:50],
        checker_cmd=f'python3-vt -m avs check {prop} --tier {chk.tier}',
        trusted_base=['CPython ast parser', 'avs analyser (this repository)', 'spec tables under avs/spec',
                      'numba/numpy semantics listed in DESIGN.md section 9'],
    )
    cov.update(chk.extra)
    if selftest is not None:
        cov['selftest'] = selftest
    ev = dict(property_id=prop, tier=chk.tier, seed=int(seed), level='other', coverage=cov,
              assumptions=chk.assumptions, wall_s=round(wall_s, 3), violations=len(new))
    if write and not os.environ.get('AVS_NO_EVIDENCE') and chk.src.root == '/repo':
        evdir = os.path.join(VERIF, 'evidence')
        os.makedirs(evdir, exist_ok=True)
        with open(os.path.join(evdir, f'{prop}.json'), 'w', encoding='utf-8') as f:
            json.dump(ev, f, indent=1, sort_keys=False)
            f.write('\n')
    for ln in lines:
        print(ln)
    if new:
        print(f'FAIL property={prop} obligations={nob} proven={nproven} assumed={nassumed} refuted={len(new)} known={len(ks)}')
        return 1, ev
    print(f'OK property={prop} tier={chk.tier} obligations={nob} proven={nproven} assumed={nassumed} '
          f'known_findings={len(ks)} functions={len(chk.functions)}')
    return 0, ev
