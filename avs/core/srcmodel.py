"""Source model: parses /repo on every run; nothing is imported or executed.

A Source object can be given *overrides* (relative path -> replacement text) so that the
self-test can analyse in-memory variants without touching /repo.
"""
import ast
import hashlib
import os

REPO = os.environ.get('AVS_REPO', '/repo')


class AnalysisError(Exception):
    """The analyser cannot decide (anchor vanished, unrecognised idiom, internal failure).
    Reported as ANALYSIS-ERROR, exit status 2 -- never a silent pass, never a VIOLATION."""


class Source:
    def __init__(self, root=None, overrides=None):
        self.root = root or REPO
        self.overrides = dict(overrides or {})
        self._text = {}
        self._raw = {}
        self.canonical = os.environ.get('AVS_NO_CANON') is None
        self._tree = {}
        self._funcs = {}
        self.consulted = set()
        self._rawtree = {}
        self.canon_errors = []   # programming errors of the canonicaliser (NameError, ImportError ...): the run is analysis-broken
        self.canon_notes = []    # the canonicaliser gave up on a construct: rules see the file as written
        self.splices = {}        # rel -> [(qualname, canon_lo, canon_hi, orig_lo, orig_hi)]: functions analysed in reviewed form

    def orig_line(self, rel, line):
        """Line of the file on disk for a line of the canonical text."""
        if line is None:
            return None
        shift = 0
        for q, clo, chi, olo, ohi in self.splices.get(rel, []):
            if line < clo:
                break
            if line <= chi:
                return olo
            shift += (chi - clo) - (ohi - olo)
        return line - shift

    def orig_line_of(self, rel, node):
        """Like orig_line, but inside a function that is analysed in rewritten form the statement holding `node`
        is looked up by its text among the statements of the function as written on disk (unique match only)."""
        line = getattr(node, 'lineno', None)
        if line is None:
            return None
        for q, clo, chi, olo, ohi in self.splices.get(rel, []):
            if clo <= line <= chi:
                st = node
                while st is not None and not isinstance(st, ast.stmt):
                    st = getattr(st, '_parent', None)
                if st is None or isinstance(st, (ast.FunctionDef, ast.ClassDef)):
                    return olo
                try:
                    want = ast.unparse(st) if not hasattr(st, 'body') else ast.unparse(st).split('\n')[0]
                    if rel not in self._rawtree:
                        self._rawtree[rel] = ast.parse(self.text_raw(rel))
                    hits = []
                    for x in ast.walk(self._rawtree[rel]):
                        if isinstance(x, ast.stmt) and olo <= getattr(x, 'lineno', 0) <= ohi and type(x) is type(st):
                            got = ast.unparse(x) if not hasattr(x, 'body') else ast.unparse(x).split('\n')[0]
                            if got == want:
                                hits.append(x.lineno)
                    if len(hits) == 1:
                        return hits[0]
                except Exception:
                    pass
                return olo
        return self.orig_line(rel, line)

    # ------------------------------------------------------------------ files
    def exists(self, rel):
        return rel in self.overrides or os.path.isfile(os.path.join(self.root, rel))

    def text(self, rel):
        if rel not in self._text:
            if rel in self.overrides:
                raw = self.overrides[rel]
            else:
                p = os.path.join(self.root, rel)
                if not os.path.isfile(p):
                    raise AnalysisError(f'anchor file missing: {rel}')
                with open(p, encoding='utf-8') as f:
                    raw = f.read()
            self._raw[rel] = raw
            if self.canonical and rel.endswith('.py'):
                from .canon import canonicalise, propagate_copies, splice_equivalent
                # Canonicalisation is best effort for the SOURCE (an unusual construct may defeat it, the rules then see the file as
                # written), but a programming error of the canonicaliser itself must not pass silently: it is recorded and the run is
                # reported as analysis-broken (a NameError here once disabled helper inlining for every file without any sign).
                try:
                    raw, sp = splice_equivalent(rel, raw)
                    if sp:
                        self.splices[rel] = sp
                except (SyntaxError, RecursionError, ValueError, KeyError, IndexError, AttributeError, TypeError, AssertionError) as e:
                    self.canon_notes.append(f'{rel}: splice_equivalent gave up ({type(e).__name__}: {e})')
                except Exception as e:
                    self.canon_errors.append(f'{rel}: splice_equivalent: {type(e).__name__}: {e}')
                try:
                    raw = canonicalise(rel, raw)
                except (SyntaxError, RecursionError, ValueError, KeyError, IndexError, AttributeError, TypeError, AssertionError) as e:
                    self.canon_notes.append(f'{rel}: canonicalise gave up ({type(e).__name__}: {e})')
                except Exception as e:
                    self.canon_errors.append(f'{rel}: canonicalise: {type(e).__name__}: {e}')
                try:
                    raw = propagate_copies(rel, raw)
                except (SyntaxError, RecursionError, ValueError, KeyError, IndexError, AttributeError, TypeError, AssertionError) as e:
                    self.canon_notes.append(f'{rel}: propagate_copies gave up ({type(e).__name__}: {e})')
                except Exception as e:
                    self.canon_errors.append(f'{rel}: propagate_copies: {type(e).__name__}: {e}')
            self._text[rel] = raw
        self.consulted.add(rel)
        return self._text[rel]

    def text_raw(self, rel):
        """Text of the file as it is on disk (or in the overrides), without canonicalisation."""
        if rel in self.overrides:
            return self.overrides[rel]
        p = os.path.join(self.root, rel)
        if not os.path.isfile(p):
            raise AnalysisError(f'anchor file missing: {rel}')
        with open(p, encoding='utf-8') as f:
            return f.read()

    def tree(self, rel):
        if rel not in self._tree:
            try:
                t = ast.parse(self.text(rel), filename=rel)
            except SyntaxError as e:
                raise AnalysisError(f'cannot parse {rel}: {e}')
            _single = (ast.expr_context, ast.operator, ast.unaryop, ast.cmpop, ast.boolop)
            for node in ast.walk(t):
                for ch in ast.iter_child_nodes(node):
                    if not isinstance(ch, _single):      # those are interpreter-wide singletons: never hang a tree on them
                        ch._parent = node
            self._tree[rel] = t
        return self._tree[rel]

    def digest(self):
        h = hashlib.sha256()
        for rel in sorted(self.consulted):
            h.update(rel.encode())
            h.update(self._raw.get(rel, self._text.get(rel, '')).encode())
        return h.hexdigest()[:16]

    # -------------------------------------------------------------- functions
    def functions(self, rel):
        """qualified name -> FunctionDef (methods as Class.meth, nested as outer.inner)."""
        if rel in self._funcs:
            return self._funcs[rel]
        out = {}

        def visit(node, prefix):
            for ch in ast.iter_child_nodes(node):
                if isinstance(ch, (ast.FunctionDef, ast.AsyncFunctionDef)):
                    q = prefix + ch.name
                    out.setdefault(q, ch)
                    ch._qualname = q
                    visit(ch, q + '.')
                elif isinstance(ch, ast.ClassDef):
                    visit(ch, prefix + ch.name + '.')
                elif isinstance(ch, (ast.If, ast.For, ast.While, ast.With, ast.Try)):
                    visit(ch, prefix)

        visit(self.tree(rel), '')
        self._funcs[rel] = out
        return out

    def func(self, rel, qualname):
        fs = self.functions(rel)
        if qualname not in fs:
            # allow a unique suffix match (e.g. method moved between classes)
            cands = [q for q in fs if q.split('.')[-1] == qualname.split('.')[-1]]
            if len(cands) == 1:
                return fs[cands[0]]
            raise AnalysisError(f'anchor function missing: {rel}:{qualname}')
        return fs[qualname]

    def has_func(self, rel, qualname):
        try:
            self.func(rel, qualname)
            return True
        except AnalysisError:
            return False

    def module_assigns(self, rel):
        """name -> value expr for simple module level assignments (last one wins)."""
        out = {}
        for st in self.tree(rel).body:
            if isinstance(st, ast.Assign) and len(st.targets) == 1 and isinstance(st.targets[0], ast.Name):
                out[st.targets[0].id] = st.value
            elif isinstance(st, ast.AnnAssign) and isinstance(st.target, ast.Name) and st.value is not None:
                out[st.target.id] = st.value
        return out

    def import_aliases(self, rel):
        """local name -> dotted target for imports of the module."""
        out = {}
        for st in ast.walk(self.tree(rel)):
            if isinstance(st, ast.Import):
                for a in st.names:
                    out[a.asname or a.name.split('.')[0]] = a.name if a.asname else a.name.split('.')[0]
            elif isinstance(st, ast.ImportFrom):
                mod = ('.' * st.level) + (st.module or '')
                for a in st.names:
                    out[a.asname or a.name] = mod + '.' + a.name if mod else a.name
        return out


# ---------------------------------------------------------------- decorators
def deco_info(fn, aliases=None):
    """Recognise numba decorators syntactically: returns dict(njit, parallel, fastmath, vectorize)."""
    info = dict(njit=False, parallel=False, fastmath=False, vectorize=False)
    for d in fn.decorator_list:
        call = d if isinstance(d, ast.Call) else None
        target = call.func if call else d
        name = dotted(target)
        last = name.split('.')[-1] if name else ''
        if last in ('njit', 'jit'):
            info['njit'] = True
            if call:
                for kw in call.keywords:
                    if kw.arg in ('parallel', 'fastmath') and isinstance(kw.value, ast.Constant):
                        info[kw.arg] = bool(kw.value.value)
        elif last in ('vectorize', 'guvectorize'):
            info['njit'] = True
            info['vectorize'] = True
    return info


def dotted(node):
    """a.b.c -> 'a.b.c' for Name/Attribute chains, else ''."""
    parts = []
    while isinstance(node, ast.Attribute):
        parts.append(node.attr)
        node = node.value
    if isinstance(node, ast.Name):
        parts.append(node.id)
        return '.'.join(reversed(parts))
    return ''


def call_name(node):
    """Name of the callee of a Call node as dotted string ('' if not a plain chain)."""
    if isinstance(node, ast.Call):
        return dotted(node.func)
    return ''


def clone(node):
    """A private copy of an expression / statement without the `_parent` back-links of the source model
    (copy.deepcopy would follow them and copy the whole module)."""
    if isinstance(node, ast.expr):
        return ast.parse(ast.unparse(node), mode='eval').body
    return ast.parse(ast.unparse(node)).body[0]


def clone_pos(node):
    """A private copy that keeps line numbers but drops the `_parent` back-links (see clone)."""
    if isinstance(node, list):
        return [clone_pos(x) for x in node]
    if not isinstance(node, ast.AST):
        return node
    new = type(node)()
    for f, v in ast.iter_fields(node):
        setattr(new, f, clone_pos(v))
    for a in ('lineno', 'col_offset', 'end_lineno', 'end_col_offset'):
        if hasattr(node, a):
            setattr(new, a, getattr(node, a))
    return new


def unparse(node):
    try:
        return ast.unparse(node)
    except Exception:
        return '<?>'


def norm(node):
    """Position-free structural key of an AST node."""
    return ast.dump(node, annotate_fields=False, include_attributes=False)


def walk_no_nested(node):
    """ast.walk that does not descend into nested function/class/lambda definitions."""
    stack = [node]
    first = True
    while stack:
        n = stack.pop()
        if not first and isinstance(n, (ast.FunctionDef, ast.AsyncFunctionDef, ast.ClassDef, ast.Lambda)):
            continue
        first = False
        yield n
        stack.extend(reversed(list(ast.iter_child_nodes(n))))


def names_in(node):
    return {n.id for n in ast.walk(node) if isinstance(n, ast.Name)}


def stores_in(node):
    """Names assigned (Store ctx) anywhere inside node (not descending into nested defs)."""
    out = set()
    for n in walk_no_nested(node):
        if isinstance(n, ast.Name) and isinstance(n.ctx, ast.Store):
            out.add(n.id)
        elif isinstance(n, ast.arg):
            pass
    return out


def fold_str(node, env=None):
    """Partial evaluation of string expressions: constants, f-strings, '+' concatenation,
    names bound in env (name -> str).  Returns str or None."""
    env = env or {}
    if isinstance(node, ast.Constant) and isinstance(node.value, str):
        return node.value
    if isinstance(node, ast.Name) and isinstance(env.get(node.id), str):
        return env[node.id]
    if isinstance(node, ast.JoinedStr):
        parts = []
        for v in node.values:
            if isinstance(v, ast.Constant):
                parts.append(str(v.value))
            elif isinstance(v, ast.FormattedValue):
                if v.format_spec is not None or v.conversion not in (-1, None):
                    return None
                s = fold_str(v.value, env)
                if s is None:
                    return None
                parts.append(s)
            else:
                return None
        return ''.join(parts)
    if isinstance(node, ast.BinOp) and isinstance(node.op, ast.Add):
        a, b = fold_str(node.left, env), fold_str(node.right, env)
        if a is not None and b is not None:
            return a + b
    return None


def early_exits(loop, kinds=(ast.Continue, ast.Break, ast.Return)):
    """continue / break / return statements that leave an iteration of `loop` itself (not of an inner loop)."""
    out = []
    for n in walk_no_nested(loop):
        if isinstance(n, kinds):
            p = getattr(n, '_parent', None)
            while p is not None and not isinstance(p, (ast.For, ast.While)):
                p = getattr(p, '_parent', None)
            if p is loop or isinstance(n, ast.Return):
                out.append(n)
    return out


def single_defs(fn):
    """{name: value} for the local names of `fn` that are stored exactly once, by a plain `name = value` (or `(name := value)`)
    outside any loop -- such a name is an abbreviation and may be replaced by its value wherever it is read afterwards."""
    stores, vals = {}, {}
    def visit(node, in_loop):
        for ch in ast.iter_child_nodes(node):
            if isinstance(ch, (ast.FunctionDef, ast.AsyncFunctionDef, ast.Lambda, ast.ClassDef)):
                continue
            if isinstance(ch, ast.Name) and isinstance(ch.ctx, (ast.Store, ast.Del)):
                stores[ch.id] = stores.get(ch.id, 0) + (1 if isinstance(ch.ctx, ast.Store) else 0)
            if isinstance(ch, ast.Assign) and len(ch.targets) == 1 and isinstance(ch.targets[0], ast.Name) and not in_loop:
                vals.setdefault(ch.targets[0].id, []).append(ch.value)
            if isinstance(ch, ast.NamedExpr) and isinstance(ch.target, ast.Name) and not in_loop:
                vals.setdefault(ch.target.id, []).append(ch.value)
            visit(ch, in_loop or isinstance(ch, (ast.For, ast.While, ast.ListComp, ast.GeneratorExp, ast.SetComp, ast.DictComp)))
    visit(fn, False)
    params = {a.arg for a in fn.args.args + fn.args.kwonlyargs} if hasattr(fn, 'args') else set()
    return {k: v[0] for k, v in vals.items() if len(v) == 1 and stores.get(k) == 1 and k not in params}


def expand_names(node, defs, depth=8):
    """Copy of `node` with the names of `defs` (see single_defs) replaced by their values, transitively; `(n := v)` -> v."""
    class _E(ast.NodeTransformer):
        def __init__(self, d):
            self.d = d

        def visit_NamedExpr(self, n):
            return self.visit(clone(n.value))

        def visit_Name(self, n):
            if isinstance(n.ctx, ast.Load) and n.id in defs and self.d > 0:
                return _E(self.d - 1).visit(clone(defs[n.id]))
            return n
    return _E(depth).visit(clone(node))


def exit_to_else(stmts):
    """In place: `if c: B` with B ending in return / raise, followed by the rest R of the block  ->  `if c: B else: R`  (the statements
    after an arm that always leaves run exactly when the test is false).  Applied recursively; parent links are kept."""
    def leaves(b):
        if not b:
            return False
        l = b[-1]
        if isinstance(l, (ast.Return, ast.Raise)):
            return True
        if isinstance(l, ast.If):
            return leaves(l.body) and leaves(l.orelse)
        return False
    for i, st in enumerate(stmts):
        for f in ('body', 'orelse', 'finalbody'):
            sub = getattr(st, f, None)
            if isinstance(sub, list) and sub and isinstance(sub[0], ast.stmt) and not isinstance(st, (ast.FunctionDef, ast.ClassDef)):
                exit_to_else(sub)
        if isinstance(st, ast.If) and not st.orelse and leaves(st.body) and i + 1 < len(stmts):
            rest = stmts[i + 1:]
            del stmts[i + 1:]
            st.orelse = rest
            for r in rest:
                r._parent = st
            exit_to_else(st.orelse)
            break
    return stmts


def sink_optional_tail(stmts):
    """In place.  `V = None; <if/else structure whose arms may bind V>; if V is not None: TAIL`  ->  TAIL appended to every innermost
    block that binds V (and removed after the structure), when each such block is in tail position of the structure -- then nothing
    runs between the binding and TAIL in the original either, and the paths that leave V unbound skip TAIL as before.  Returns True
    when the rewrite was applied."""
    for i, st in enumerate(stmts):
        for f in ('body', 'orelse'):
            sub = getattr(st, f, None)
            if isinstance(sub, list) and sub and isinstance(sub[0], ast.stmt) and not isinstance(st, (ast.FunctionDef, ast.ClassDef)):
                if sink_optional_tail(sub):
                    return True
    for i, st in enumerate(stmts[:-2]):
        if not (isinstance(st, ast.Assign) and len(st.targets) == 1 and isinstance(st.targets[0], ast.Name) and isinstance(st.value, ast.Constant) and st.value.value is None):
            continue
        V = st.targets[0].id
        S, T = stmts[i + 1], stmts[i + 2]
        if not (isinstance(S, ast.If) and isinstance(T, ast.If) and not T.orelse and unparse(T.test).replace(' ', '') == f'{V}isnotNone'):
            continue
        if any(isinstance(n, ast.Name) and n.id == V for x in stmts[i + 3:] for n in ast.walk(x)):
            continue
        blocks = []

        def tails(block, in_tail):
            """collect the blocks that bind V directly; every one must be reached through tail positions only"""
            ok = True
            for k, x in enumerate(block):
                last = k == len(block) - 1
                binds_here = isinstance(x, ast.Assign) and any(isinstance(t, ast.Name) and t.id == V for t in x.targets)
                if binds_here:
                    if not in_tail:
                        return False
                    if block not in blocks:
                        blocks.append(block)
                elif isinstance(x, ast.If):
                    ok = tails(x.body, in_tail and last) and tails(x.orelse, in_tail and last) and ok
                elif any(isinstance(n, ast.Name) and n.id == V and isinstance(n.ctx, ast.Store) for n in ast.walk(x)):
                    return False
            return ok
        if not (tails(S.body, True) and tails(S.orelse, True)) or not blocks:
            continue
        for b in blocks:
            for x in T.body:
                c = clone_pos(x)
                b.append(c)
                owner = getattr(b[0], '_parent', None)
                c._parent = owner
                for n_ in ast.walk(c):
                    for ch in ast.iter_child_nodes(n_):
                        ch._parent = n_
        del stmts[i + 2]
        del stmts[i]
        return True
    return False


def sink_bindings(stmts):
    """In place, recursively.  An `if c: a = X1; b = Y1 else: a = X2; b = Y2` whose arms only bind the same local names to pure values
    (names, constants, subscripts of names by constants, tuples of those), followed by the rest R of the block, which is the only reader
    of those names  ->  `if c: R[a := X1, b := Y1] else: R[a := X2, b := Y2]`  (`*b` in a call is replaced by the elements of the tuple).
    Tail duplication with substitution of pure values: the same calls with the same arguments on every path."""
    def pure(v):
        if isinstance(v, (ast.Name, ast.Constant)):
            return True
        if isinstance(v, ast.Attribute):
            return pure(v.value)
        if isinstance(v, ast.Subscript):
            return isinstance(v.value, ast.Name) and isinstance(v.slice, ast.Constant)
        if isinstance(v, ast.Tuple):
            return all(pure(e) for e in v.elts)
        return False

    def arm_binds(block):
        out = {}
        for x in block:
            if isinstance(x, ast.Assign) and len(x.targets) == 1 and isinstance(x.targets[0], ast.Name) and pure(x.value) and x.targets[0].id not in out:
                out[x.targets[0].id] = x.value
            else:
                return None
        return out
    changed = True
    while changed:
        changed = False
        for i, st in enumerate(stmts):
            if not (isinstance(st, ast.If) and st.orelse and i + 1 < len(stmts)):
                continue
            a, b = arm_binds(st.body), arm_binds(st.orelse)
            if not a or not b or set(a) != set(b):
                continue
            names = set(a)
            rest = stmts[i + 1:]
            if any(isinstance(n, ast.Name) and n.id in names and isinstance(n.ctx, ast.Store) for x in rest for n in ast.walk(x)):
                continue
            if not any(isinstance(n, ast.Name) and n.id in names for x in rest for n in ast.walk(x)):
                continue
            # the bound values must not be changed by the rest before they are used: require that the rest stores none of the names they read
            reads = {n.id for v in list(a.values()) + list(b.values()) for n in ast.walk(v) if isinstance(n, ast.Name)}
            if any(isinstance(n, ast.Name) and n.id in reads and isinstance(n.ctx, ast.Store) for x in rest for n in ast.walk(x)):
                continue

            def inst(binds):
                class S(ast.NodeTransformer):
                    def visit_Call(self, c):
                        c = self.generic_visit(c)
                        args = []
                        for x in c.args:
                            if isinstance(x, ast.Starred) and isinstance(x.value, ast.Tuple):
                                args.extend(x.value.elts)
                            else:
                                args.append(x)
                        c.args = args
                        return c

                    def visit_Name(self, n):
                        if isinstance(n.ctx, ast.Load) and n.id in binds:
                            return ast.copy_location(clone_pos(binds[n.id]), n)
                        return n
                out = []
                for x in rest:
                    c = S().visit(clone_pos(x))
                    ast.fix_missing_locations(c)
                    out.append(c)
                return out
            st.body, st.orelse = inst(a), inst(b)
            del stmts[i + 1:]
            for blk in (st.body, st.orelse):
                for x in blk:
                    x._parent = st
                    for n_ in ast.walk(x):
                        for ch in ast.iter_child_nodes(n_):
                            ch._parent = n_
            changed = True
            break
    for st in stmts:
        for f in ('body', 'orelse', 'finalbody'):
            sub = getattr(st, f, None)
            if isinstance(sub, list) and sub and isinstance(sub[0], ast.stmt) and not isinstance(st, (ast.FunctionDef, ast.ClassDef)):
                sink_bindings(sub)
    return stmts

