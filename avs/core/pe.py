"""Constant propagation over small, numpy-free configuration functions (option resolution, column detection):
with every input drawn from a small finite domain the propagation decides each branch, so the function's result
(returned constant, or the exception class it raises) is a compile-time constant per input combination.  Anything
outside the modelled subset evaluates to UNKNOWN and the caller reports it as not decided."""
import ast

from .srcmodel import dotted, unparse


class Unknown:
    def __repr__(self):
        return 'UNKNOWN'


UNKNOWN = Unknown()


class Raised(Exception):
    def __init__(self, kind, node):
        self.kind, self.node = kind, node


class Returned(Exception):
    def __init__(self, value):
        self.value = value


class Undecided(Exception):
    pass


class PE:
    def __init__(self, funcs=None, text_env=None, max_steps=20000):
        self.funcs = funcs or {}
        self.text_env = text_env or {}
        self.steps = 0
        self.max_steps = max_steps
        self.warnings = []

    # ----------------------------------------------------------------- expressions
    def ev(self, e, env):
        self.steps += 1
        if self.steps > self.max_steps:
            raise Undecided('step budget')
        t = unparse(e)
        if t in self.text_env:
            return self.text_env[t]
        if isinstance(e, ast.Constant):
            return e.value
        if isinstance(e, ast.Name):
            if e.id in env:
                return env[e.id]
            return UNKNOWN
        if isinstance(e, (ast.Tuple, ast.List, ast.Set)):
            vals = [self.ev(x, env) for x in e.elts]
            if any(v is UNKNOWN for v in vals):
                return UNKNOWN
            return tuple(vals) if isinstance(e, ast.Tuple) else (list(vals) if isinstance(e, ast.List) else set(vals))
        if isinstance(e, ast.Dict):
            ks = [self.ev(k, env) for k in e.keys]
            vs = [self.ev(v, env) for v in e.values]
            if any(v is UNKNOWN for v in ks + vs):
                return UNKNOWN
            return dict(zip(ks, vs))
        if isinstance(e, ast.JoinedStr):
            return '<text>'
        if isinstance(e, ast.UnaryOp) and isinstance(e.op, ast.Not):
            v = self.ev(e.operand, env)
            return UNKNOWN if v is UNKNOWN else (not v)
        if isinstance(e, ast.BoolOp):
            res = None
            for x in e.values:
                v = self.ev(x, env)
                if v is UNKNOWN:
                    return UNKNOWN
                res = v
                if isinstance(e.op, ast.And) and not v:
                    return v
                if isinstance(e.op, ast.Or) and v:
                    return v
            return res
        if isinstance(e, ast.IfExp):
            c = self.ev(e.test, env)
            if c is UNKNOWN:
                return UNKNOWN
            return self.ev(e.body if c else e.orelse, env)
        if isinstance(e, ast.Compare):
            left = self.ev(e.left, env)
            for op, rn in zip(e.ops, e.comparators):
                right = self.ev(rn, env)
                if left is UNKNOWN or right is UNKNOWN:
                    return UNKNOWN
                try:
                    r = {ast.Eq: lambda a, b: a == b, ast.NotEq: lambda a, b: a != b, ast.Lt: lambda a, b: a < b, ast.LtE: lambda a, b: a <= b,
                         ast.Gt: lambda a, b: a > b, ast.GtE: lambda a, b: a >= b, ast.Is: lambda a, b: a is b, ast.IsNot: lambda a, b: a is not b,
                         ast.In: lambda a, b: a in b, ast.NotIn: lambda a, b: a not in b}[type(op)](left, right)
                except TypeError:
                    return UNKNOWN
                if not r:
                    return False
                left = right
            return True
        if isinstance(e, ast.BinOp) and isinstance(e.op, ast.Add):
            a, b = self.ev(e.left, env), self.ev(e.right, env)
            if a is UNKNOWN or b is UNKNOWN:
                return UNKNOWN
            try:
                return a + b
            except TypeError:
                return UNKNOWN
        if isinstance(e, ast.Subscript):
            b = self.ev(e.value, env)
            if b is UNKNOWN or isinstance(e.slice, ast.Slice):
                return UNKNOWN
            k = self.ev(e.slice, env)
            if k is UNKNOWN:
                return UNKNOWN
            try:
                return b[k]
            except (KeyError, IndexError, TypeError):
                raise Raised('KeyError' if isinstance(b, dict) else 'IndexError', e)
        if isinstance(e, ast.ListComp) and len(e.generators) == 1:
            g = e.generators[0]
            it = self.ev(g.iter, env)
            if it is UNKNOWN or not isinstance(g.target, ast.Name):
                return UNKNOWN
            out = []
            for x in list(it):
                env2 = dict(env)
                env2[g.target.id] = x
                conds = [self.ev(c, env2) for c in g.ifs]
                if any(c is UNKNOWN for c in conds):
                    return UNKNOWN
                if all(conds):
                    v = self.ev(e.elt, env2)
                    if v is UNKNOWN:
                        return UNKNOWN
                    out.append(v)
            return out
        if isinstance(e, ast.Call):
            return self.call(e, env)
        return UNKNOWN

    def call(self, e, env):
        d = dotted(e.func)
        args = [self.ev(a, env) for a in e.args]
        if d in ('warnings.warn', 'print', 'log'):
            self.warnings.append(unparse(e)[:60])
            return None
        if any(a is UNKNOWN for a in args):
            return UNKNOWN
        if d in ('len', 'tuple', 'list', 'set', 'sorted', 'bool', 'str', 'any', 'all') and len(args) == 1:
            try:
                return {'len': len, 'tuple': tuple, 'list': list, 'set': set, 'sorted': sorted, 'bool': bool, 'str': str, 'any': any, 'all': all}[d](args[0])
            except TypeError:
                return UNKNOWN
        if isinstance(e.func, ast.Attribute):
            recv = self.ev(e.func.value, env)
            if recv is UNKNOWN:
                return UNKNOWN
            m = e.func.attr
            if isinstance(recv, dict) and m in ('pop', 'get') and 1 <= len(args) <= 2:
                if m == 'pop':
                    if args[0] in recv:
                        return recv.pop(args[0])
                    if len(args) == 2:
                        return args[1]
                    raise Raised('KeyError', e)
                return recv.get(*args)
            if isinstance(recv, list) and m == 'append' and len(args) == 1:
                recv.append(args[0])
                return None
            if isinstance(recv, list) and m == 'extend' and len(args) == 1:
                recv.extend(args[0])
                return None
            if isinstance(recv, (dict,)) and m in ('keys', 'values', 'items') and not args:
                return list(getattr(recv, m)())
            if isinstance(recv, str) and m in ('startswith', 'endswith', 'lower', 'upper') and len(args) <= 1:
                return getattr(recv, m)(*args)
            return UNKNOWN
        if isinstance(e.func, ast.Name) and e.func.id in self.funcs:
            g = self.funcs[e.func.id]
            params = [a.arg for a in g.args.args]
            env2 = dict(zip(params, args))
            for k in e.keywords:
                env2[k.arg] = self.ev(k.value, env)
            nd = len(g.args.defaults)
            for p_, dflt in zip(params[len(params) - nd:], g.args.defaults):
                if p_ not in env2:
                    env2[p_] = self.ev(dflt, {})
            return self.run(g.body, env2)
        return UNKNOWN

    # ----------------------------------------------------------------- statements
    def run(self, stmts, env):
        """Returns the returned value (None when falling off the end); raises Raised / Undecided."""
        try:
            self.block(stmts, env)
        except Returned as r:
            return r.value
        return None

    def block(self, stmts, env):
        for s in stmts:
            self.stmt(s, env)

    def stmt(self, s, env):
        self.steps += 1
        if self.steps > self.max_steps:
            raise Undecided('step budget')
        if isinstance(s, ast.Expr):
            self.ev(s.value, env)
            return
        if isinstance(s, ast.Pass):
            return
        if isinstance(s, ast.Return):
            raise Returned(self.ev(s.value, env) if s.value is not None else None)
        if isinstance(s, ast.Raise):
            kind = dotted(s.exc.func) if isinstance(s.exc, ast.Call) else (dotted(s.exc) if s.exc is not None else 'reraise')
            raise Raised(kind, s)
        if isinstance(s, ast.Assert):
            c = self.ev(s.test, env)
            if c is UNKNOWN:
                raise Undecided(f'assert {unparse(s.test)}')
            if not c:
                raise Raised('AssertionError', s)
            return
        if isinstance(s, ast.Assign) and len(s.targets) == 1:
            v = self.ev(s.value, env)
            t = s.targets[0]
            if isinstance(t, ast.Name):
                env[t.id] = v
                return
            if isinstance(t, ast.Tuple) and all(isinstance(x, ast.Name) for x in t.elts) and isinstance(v, (tuple, list)) and len(v) == len(t.elts):
                for x, y in zip(t.elts, v):
                    env[x.id] = y
                return
            raise Undecided(f'assignment {unparse(s)[:50]}')
        if isinstance(s, ast.AugAssign) and isinstance(s.target, ast.Name) and isinstance(s.op, ast.Add):
            cur, v = env.get(s.target.id, UNKNOWN), self.ev(s.value, env)
            if cur is UNKNOWN or v is UNKNOWN:
                env[s.target.id] = UNKNOWN
            elif isinstance(cur, list):
                cur.extend(v)
            else:
                env[s.target.id] = cur + v
            return
        if isinstance(s, ast.If):
            c = self.ev(s.test, env)
            if c is UNKNOWN:
                raise Undecided(f'condition {unparse(s.test)[:60]}')
            self.block(s.body if c else s.orelse, env)
            return
        if isinstance(s, ast.For) and isinstance(s.target, ast.Name):
            it = self.ev(s.iter, env)
            if it is UNKNOWN:
                raise Undecided(f'loop over {unparse(s.iter)[:40]}')
            broke = False
            for x in list(it):
                env[s.target.id] = x
                try:
                    self.block(s.body, env)
                except _Break:
                    broke = True
                    break
                except _Continue:
                    continue
            if not broke:
                self.block(s.orelse, env)
            return
        if isinstance(s, ast.Break):
            raise _Break()
        if isinstance(s, ast.Continue):
            raise _Continue()
        raise Undecided(f'statement {unparse(s)[:50]}')


class _Break(Exception):
    pass


class _Continue(Exception):
    pass
