"""Constant propagation over small, numpy-free configuration functions (option resolution, column detection):
with every input drawn from a small finite domain the propagation decides each branch, so the function's result
(returned constant, or the exception class it raises) is a compile-time constant per input combination.  Anything
outside the modelled subset evaluates to UNKNOWN and the caller reports it as not decided."""
import ast

from .srcmodel import dotted, unparse, clone


class Unknown:
    def __repr__(self):
        return 'UNKNOWN'


UNKNOWN = Unknown()


class Sym:
    """A value that is not a compile-time constant, carried as the canonical text of the expression that computes it
    (with every propagated constant and symbolic local substituted)."""
    def __init__(self, text):
        self.text = text

    def __repr__(self):
        return f'Sym({self.text})'

    def __eq__(self, o):
        return isinstance(o, Sym) and o.text == self.text

    def __hash__(self):
        return hash(('Sym', self.text))


class Raised(Exception):
    def __init__(self, kind, node):
        self.kind, self.node = kind, node


class Returned(Exception):
    def __init__(self, value):
        self.value = value


class Undecided(Exception):
    pass


class PE:
    def __init__(self, funcs=None, text_env=None, max_steps=20000, symbolic=False):
        self.funcs = funcs or {}
        self.text_env = text_env or {}
        self.steps = 0
        self.max_steps = max_steps
        self.warnings = []
        self.symbolic = symbolic
        self.calls = []          # (callee text, [positional values], {keyword: value}) of calls that were not evaluated

    # ----------------------------------------------------------------- symbolic text
    def symtext(self, e, env):
        import copy
        pe = self

        class _S(ast.NodeTransformer):
            def visit_Name(self_, n):
                if isinstance(n.ctx, ast.Load) and n.id in env:
                    v = env[n.id]
                    if isinstance(v, Sym):
                        return ast.parse(v.text, mode='eval').body
                    if isinstance(v, (str, int, float, bool, type(None))):
                        return ast.Constant(v)
                return n

            def visit_JoinedStr(self_, n):
                self_.generic_visit(n)
                parts = []
                for v in n.values:
                    if isinstance(v, ast.Constant):
                        parts.append(str(v.value))
                    elif isinstance(v, ast.FormattedValue) and isinstance(v.value, ast.Constant) and v.format_spec is None and v.conversion in (-1, None):
                        parts.append(str(v.value.value))
                    else:
                        return n
                return ast.Constant(''.join(parts))

            def visit_Subscript(self_, n):
                self_.generic_visit(n)
                sl = n.slice
                if isinstance(sl, ast.Call) and dotted(sl.func) == 'slice' and 1 <= len(sl.args) <= 3 and not sl.keywords:
                    a = list(sl.args)
                    none = lambda x: None if isinstance(x, ast.Constant) and x.value is None else x
                    n.slice = ast.Slice(lower=none(a[0]) if len(a) > 1 else None, upper=none(a[1]) if len(a) > 1 else none(a[0]), step=none(a[2]) if len(a) == 3 else None)
                return n
        t = _S().visit(clone(e))
        ast.fix_missing_locations(t)
        return unparse(t)

    def unknown(self, e, env):
        if self.symbolic:
            return Sym(self.symtext(e, env))
        return UNKNOWN

    # ----------------------------------------------------------------- expressions
    def ev(self, e, env):
        self.steps += 1
        if self.steps > self.max_steps:
            raise Undecided('step budget')
        t = unparse(e)
        if t in self.text_env:
            return self.text_env[t]
        if isinstance(e, ast.Constant):
            return e.value
        if isinstance(e, ast.Name):
            if e.id in env:
                return env[e.id]
            return self.unknown(e, env)
        if isinstance(e, (ast.Tuple, ast.List, ast.Set)):
            vals = []
            for x in e.elts:
                if isinstance(x, ast.Starred):
                    inner = self.ev(x.value, env)
                    if not isinstance(inner, (tuple, list)):
                        return UNKNOWN
                    vals.extend(inner)
                else:
                    vals.append(self.ev(x, env))
            if any(v is UNKNOWN for v in vals):
                return UNKNOWN
            return tuple(vals) if isinstance(e, ast.Tuple) else (list(vals) if isinstance(e, ast.List) else set(vals))
        if isinstance(e, ast.Dict):
            ks = [self.ev(k, env) for k in e.keys]
            vs = [self.ev(v, env) for v in e.values]
            if any(v is UNKNOWN for v in ks + vs):
                return UNKNOWN
            return dict(zip(ks, vs))
        if isinstance(e, ast.JoinedStr):
            if self.symbolic:
                t = self.symtext(e, env)
                try:
                    v = ast.literal_eval(t)
                    if isinstance(v, str):
                        return v
                except (ValueError, SyntaxError):
                    pass
                return Sym(t)
            return '<text>'
        if isinstance(e, ast.UnaryOp) and isinstance(e.op, ast.Not):
            v = self.ev(e.operand, env)
            # the truth value of a symbolic (run-time) value is not a constant
            return UNKNOWN if (v is UNKNOWN or isinstance(v, Sym)) else (not v)
        if isinstance(e, ast.BoolOp):
            res = None
            for x in e.values:
                v = self.ev(x, env)
                if v is UNKNOWN or isinstance(v, Sym):
                    return UNKNOWN
                res = v
                if isinstance(e.op, ast.And) and not v:
                    return v
                if isinstance(e.op, ast.Or) and v:
                    return v
            return res
        if isinstance(e, ast.IfExp):
            c = self.ev(e.test, env)
            if c is UNKNOWN or isinstance(c, Sym):
                return UNKNOWN
            return self.ev(e.body if c else e.orelse, env)
        if isinstance(e, ast.Compare):
            left = self.ev(e.left, env)
            for op, rn in zip(e.ops, e.comparators):
                right = self.ev(rn, env)
                if left is UNKNOWN or right is UNKNOWN:
                    return UNKNOWN
                if isinstance(left, Sym) or isinstance(right, Sym):
                    # a comparison with a run-time value: not a constant (it used to come out as Python's
                    # comparison of the carrier object, i.e. False -- seed C01f); except an identity test against None of a
                    # value the caller of the evaluator has shown to be an object (self.nonnull: text prefixes)
                    if isinstance(op, (ast.Is, ast.IsNot)) and (left is None or right is None):
                        sv = left if isinstance(left, Sym) else right
                        if isinstance(sv, Sym) and any(sv.text.startswith(p_) for p_ in getattr(self, 'nonnull', ())):
                            r = isinstance(op, ast.IsNot)
                            if not r:
                                return False
                            left = right
                            continue
                    return UNKNOWN
                try:
                    r = {ast.Eq: lambda a, b: a == b, ast.NotEq: lambda a, b: a != b, ast.Lt: lambda a, b: a < b, ast.LtE: lambda a, b: a <= b,
                         ast.Gt: lambda a, b: a > b, ast.GtE: lambda a, b: a >= b, ast.Is: lambda a, b: a is b, ast.IsNot: lambda a, b: a is not b,
                         ast.In: lambda a, b: a in b, ast.NotIn: lambda a, b: a not in b}[type(op)](left, right)
                except TypeError:
                    return UNKNOWN
                if not r:
                    return False
                left = right
            return True
        if isinstance(e, ast.BinOp) and isinstance(e.op, ast.Add):
            a, b = self.ev(e.left, env), self.ev(e.right, env)
            if a is UNKNOWN or b is UNKNOWN:
                return UNKNOWN
            try:
                return a + b
            except TypeError:
                return UNKNOWN
        if isinstance(e, ast.Subscript):
            b = self.ev(e.value, env)
            if isinstance(b, Sym) or (self.symbolic and isinstance(e.slice, ast.Slice)):
                return self.unknown(e, env)
            if b is UNKNOWN or isinstance(e.slice, ast.Slice):
                return UNKNOWN
            k = self.ev(e.slice, env)
            if isinstance(k, Sym):
                return self.unknown(e, env)
            if k is UNKNOWN:
                return UNKNOWN
            try:
                return b[k]
            except (KeyError, IndexError, TypeError):
                raise Raised('KeyError' if isinstance(b, dict) else 'IndexError', e)
        if isinstance(e, ast.DictComp) and len(e.generators) == 1:
            g = e.generators[0]
            it = self.ev(g.iter, env)
            if it is UNKNOWN or isinstance(it, Sym):
                return self.unknown(e, env) if self.symbolic else UNKNOWN
            out = {}
            for x in list(it):
                env2 = dict(env)
                if isinstance(g.target, ast.Name):
                    env2[g.target.id] = x
                elif isinstance(g.target, ast.Tuple) and isinstance(x, (tuple, list)) and len(x) == len(g.target.elts):
                    for t_, y in zip(g.target.elts, x):
                        env2[t_.id] = y
                else:
                    return UNKNOWN
                conds = [self.ev(c, env2) for c in g.ifs]
                if any(not isinstance(c, bool) for c in conds):
                    return UNKNOWN
                if all(conds):
                    k = self.ev(e.key, env2)
                    if k is UNKNOWN or isinstance(k, Sym):
                        return UNKNOWN
                    out[k] = self.ev(e.value, env2)
            return out
        if isinstance(e, ast.ListComp) and len(e.generators) == 1:
            g = e.generators[0]
            it = self.ev(g.iter, env)
            if it is UNKNOWN or not isinstance(g.target, ast.Name):
                return UNKNOWN
            out = []
            for x in list(it):
                env2 = dict(env)
                env2[g.target.id] = x
                conds = [self.ev(c, env2) for c in g.ifs]
                if any(c is UNKNOWN for c in conds):
                    return UNKNOWN
                if all(conds):
                    v = self.ev(e.elt, env2)
                    if v is UNKNOWN:
                        return UNKNOWN
                    out.append(v)
            return out
        if isinstance(e, ast.Call):
            r = self.call(e, env)
            if r is UNKNOWN and self.symbolic:
                return self.unknown(e, env)
            return r
        if isinstance(e, ast.Attribute):
            return self.unknown(e, env)
        return self.unknown(e, env) if self.symbolic and isinstance(e, (ast.BinOp, ast.UnaryOp, ast.Starred)) else UNKNOWN

    def call(self, e, env):
        d = dotted(e.func)
        args = [self.ev(a, env) for a in e.args]
        if d in ('warnings.warn', 'print', 'log'):
            self.warnings.append(unparse(e)[:60])
            return None
        if self.symbolic and any(k.arg is None for k in e.keywords):
            kw = {}
            for k in e.keywords:
                v = self.ev(k.value, env)
                if k.arg is None:
                    if isinstance(v, dict):
                        kw.update(v)
                    else:
                        kw['**'] = v
                else:
                    kw[k.arg] = v
            self.calls.append((unparse(e.func), args, kw))
            return Sym(unparse(e.func) + '(...)')
        if d == 'isinstance' and len(e.args) == 2 and args[0] is not UNKNOWN and not isinstance(args[0], Sym):
            tnames = [unparse(t) for t in (e.args[1].elts if isinstance(e.args[1], ast.Tuple) else [e.args[1]])]
            table = {'str': str, 'list': list, 'tuple': tuple, 'dict': dict, 'set': set, 'int': int, 'float': float, 'bool': bool, 'bytes': bytes}
            if all(t in table for t in tnames):
                return isinstance(args[0], tuple(table[t] for t in tnames))
            return UNKNOWN
        if any(a is UNKNOWN or isinstance(a, Sym) for a in args):
            return UNKNOWN
        if d in ('len', 'tuple', 'list', 'set', 'sorted', 'bool', 'str', 'any', 'all') and len(args) == 1:
            try:
                return {'len': len, 'tuple': tuple, 'list': list, 'set': set, 'sorted': sorted, 'bool': bool, 'str': str, 'any': any, 'all': all}[d](args[0])
            except TypeError:
                return UNKNOWN
        if isinstance(e.func, ast.Attribute):
            recv = self.ev(e.func.value, env)
            if recv is UNKNOWN:
                return UNKNOWN
            m = e.func.attr
            if isinstance(recv, dict) and m in ('pop', 'get') and 1 <= len(args) <= 2:
                if m == 'pop':
                    if args[0] in recv:
                        return recv.pop(args[0])
                    if len(args) == 2:
                        return args[1]
                    raise Raised('KeyError', e)
                return recv.get(*args)
            if isinstance(recv, list) and m == 'append' and len(args) == 1:
                recv.append(args[0])
                return None
            if isinstance(recv, list) and m == 'extend' and len(args) == 1:
                recv.extend(args[0])
                return None
            if isinstance(recv, dict) and m == 'update' and len(args) == 1 and isinstance(args[0], dict):
                recv.update(args[0])
                return None
            if isinstance(recv, (dict,)) and m in ('keys', 'values', 'items') and not args:
                return [tuple(x) if m == 'items' else x for x in getattr(recv, m)()]
            if isinstance(recv, str) and m in ('startswith', 'endswith', 'lower', 'upper') and len(args) <= 1:
                return getattr(recv, m)(*args)
            return UNKNOWN
        if isinstance(e.func, ast.Name) and e.func.id in self.funcs:
            g = self.funcs[e.func.id]
            params = [a.arg for a in g.args.args]
            env2 = dict(zip(params, args))
            for k in e.keywords:
                env2[k.arg] = self.ev(k.value, env)
            nd = len(g.args.defaults)
            for p_, dflt in zip(params[len(params) - nd:], g.args.defaults):
                if p_ not in env2:
                    env2[p_] = self.ev(dflt, {})
            return self.run(g.body, env2)
        return UNKNOWN

    # ----------------------------------------------------------------- statements
    def run(self, stmts, env):
        """Returns the returned value (None when falling off the end); raises Raised / Undecided."""
        try:
            self.block(stmts, env)
        except Returned as r:
            return r.value
        return None

    def block(self, stmts, env):
        for s in stmts:
            self.stmt(s, env)

    def stmt(self, s, env):
        self.steps += 1
        if self.steps > self.max_steps:
            raise Undecided('step budget')
        if isinstance(s, ast.Expr):
            self.ev(s.value, env)
            return
        if isinstance(s, (ast.Pass, ast.Delete)):
            return
        if isinstance(s, ast.Return):
            raise Returned(self.ev(s.value, env) if s.value is not None else None)
        if isinstance(s, ast.Raise):
            kind = dotted(s.exc.func) if isinstance(s.exc, ast.Call) else (dotted(s.exc) if s.exc is not None else 'reraise')
            raise Raised(kind, s)
        if isinstance(s, ast.Assert):
            c = self.ev(s.test, env)
            if c is UNKNOWN:
                raise Undecided(f'assert {unparse(s.test)}')
            if not c:
                raise Raised('AssertionError', s)
            return
        if isinstance(s, ast.Assign) and len(s.targets) == 1:
            v = self.ev(s.value, env)
            t = s.targets[0]
            if isinstance(t, ast.Name):
                env[t.id] = v
                return
            if isinstance(t, ast.Tuple) and all(isinstance(x, ast.Name) for x in t.elts) and isinstance(v, (tuple, list)) and len(v) == len(t.elts):
                for x, y in zip(t.elts, v):
                    env[x.id] = y
                return
            if isinstance(t, ast.Subscript) and isinstance(t.value, ast.Name) and isinstance(env.get(t.value.id), dict) and not isinstance(t.slice, ast.Slice):
                k = self.ev(t.slice, env)
                if k is not UNKNOWN and not isinstance(k, Sym):
                    env[t.value.id][k] = v
                    return
            if self.symbolic:
                return          # a store the propagation does not track (array element, attribute)
            raise Undecided(f'assignment {unparse(s)[:50]}')
        if isinstance(s, ast.AugAssign) and isinstance(s.target, ast.Name) and isinstance(s.op, ast.Add):
            cur, v = env.get(s.target.id, UNKNOWN), self.ev(s.value, env)
            if cur is UNKNOWN or v is UNKNOWN:
                env[s.target.id] = UNKNOWN
            elif isinstance(cur, list):
                cur.extend(v)
            else:
                env[s.target.id] = cur + v
            return
        if isinstance(s, ast.If):
            c = self.ev(s.test, env)
            if c is UNKNOWN or isinstance(c, Sym):
                raise Undecided(f'condition {unparse(s.test)[:60]}')
            self.block(s.body if c else s.orelse, env)
            return
        if isinstance(s, ast.For) and isinstance(s.target, ast.Name):
            it = self.ev(s.iter, env)
            if isinstance(it, Sym) and self.symbolic:
                # an iterable that is not a constant: the body is propagated once for a generic element
                env[s.target.id] = Sym(f'each({s.target.id} in {it.text})')
                try:
                    self.block(s.body, env)
                except (_Break, _Continue):
                    pass
                return
            if it is UNKNOWN:
                raise Undecided(f'loop over {unparse(s.iter)[:40]}')
            broke = False
            for x in list(it):
                env[s.target.id] = x
                try:
                    self.block(s.body, env)
                except _Break:
                    broke = True
                    break
                except _Continue:
                    continue
            if not broke:
                self.block(s.orelse, env)
            return
        if isinstance(s, ast.With) and self.symbolic:
            for it in s.items:
                v = self.ev(it.context_expr, env)
                if isinstance(it.optional_vars, ast.Name):
                    env[it.optional_vars.id] = v if not (v is UNKNOWN) else Sym(unparse(it.context_expr))
            self.block(s.body, env)
            return
        if isinstance(s, ast.Break):
            raise _Break()
        if isinstance(s, ast.Continue):
            raise _Continue()
        raise Undecided(f'statement {unparse(s)[:50]}')


class _Break(Exception):
    pass


class _Continue(Exception):
    pass
