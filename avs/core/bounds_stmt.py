"""Statements, loops, joins and loop lemmas (L1, L4, L5) for the bounds prover."""
import ast

from .lin import Lin
from .absval import Int, Opaque, NoneV, Tup, Arr, Cond, State, fresh
from . import prove
from .bounds_exec import KernelX, RANGE
from .srcmodel import dotted, unparse, norm, walk_no_nested, stores_in, AnalysisError

MAX_PATHS = 64


def same_val(a, b):
    if type(a) is not type(b):
        return False
    if isinstance(a, Int):
        return a.lin == b.lin
    if isinstance(a, Arr):
        return a.ident == b.ident and a.nonesym == b.nonesym
    if isinstance(a, Tup):
        return len(a.items) == len(b.items) and all(same_val(x, y) for x, y in zip(a.items, b.items))
    if isinstance(a, Cond):
        return a.sym == b.sym and a.tf == b.tf and a.ff == b.ff
    return True   # Opaque / None


class KernelS(KernelX):

    # ---------------------------------------------------------------- blocks
    def exec_block(self, stmts, states):
        """Run statements over a list of path states; returns the states that fall through."""
        for s in stmts:
            if not states:
                break
            nxt = []
            for st in states:
                nxt.extend(self.exec_stmt(s, st))
            if len(nxt) > (self.max_paths or MAX_PATHS):
                nxt = self._force_merge(nxt)
            states = nxt
        return states

    def _force_merge(self, states):
        out = states[0]
        for s in states[1:]:
            out = self.join(out, s, None)
        out.facts.lossy = True
        return [out]

    def exec_stmt(self, s, st):
        m = getattr(self, 'st_' + type(s).__name__, None)
        if m is None:
            for ch in ast.walk(s):
                if isinstance(ch, ast.Subscript):
                    self.ev(ch, st)
            return [st]
        return m(s, st)

    def st_Expr(self, s, st):
        self.ev(s.value, st)
        # set_num_threads(n): NT becomes n
        if isinstance(s.value, ast.Call) and dotted(s.value.func).endswith('set_num_threads') and s.value.args:
            v = self.ev(s.value.args[0], st, quiet=True)
            if isinstance(v, Int):
                # numba.set_num_threads(n) raises unless 1 <= n: treated like an index obligation
                from .bounds import Access
                acc = Access('numba.set_num_threads', 0, v.lin, unparse(s.value.args[0]), s.lineno, False)
                if prove.entails_ge(st, v.lin - 1):
                    syms = self._goal_cone_syms(st, v.lin, Lin.const(1))
                    why = {self.assumed_syms[x] for x in syms if x in self.assumed_syms}
                    bare = st.copy()
                    bare.facts.ge = [l for l in st.facts.ge if l not in self.assumed_facts]
                    if self.assumed_facts and not prove.entails_ge(bare, v.lin - 1):
                        from .absval import cone
                        uge, _, _ = cone(st.facts.ge, st.facts.eq, v.lin.syms(), st.cases)
                        why |= {self.assumed_facts[l] for l in uge if l in self.assumed_facts}
                    acc.verdict, acc.detail = ('ASSUMED', '; '.join(sorted(why))) if why else ('PROVEN', f'{v.lin} >= 1')
                else:
                    w = prove.witness(st, v.lin - 1)
                    if w is not None:
                        acc.verdict, acc.detail, acc.witness = 'REFUTED', f'thread count {v.lin} can be < 1: numba.set_num_threads raises', w
                    else:
                        acc.verdict, acc.detail = 'UNKNOWN', f'cannot prove {v.lin} >= 1'
                rank = {'PROVEN': 0, 'ASSUMED': 1, 'UNKNOWN': 2, 'REFUTED': 3}
                old_ = self.accesses.get(acc.key)
                if old_ is None or rank[acc.verdict] > rank[old_.verdict]:
                    self.accesses[acc.key] = acc
            # NT is a single symbol per kernel: only record when not already constrained by an equality
            if isinstance(v, Int) and not getattr(st, '_nt_set', False):
                st.facts.add_eq(Lin.sym('NT'), v.lin)
                st._nt_set = True
        return [st]

    def st_Pass(self, s, st):
        return [st]

    def st_Return(self, s, st):
        if s.value is not None:
            self.ev(s.value, st)
        if self.record_stores:
            self.returns.append(st.copy())
        return []

    def st_Raise(self, s, st):
        if self.record_stores:
            self.raises.append((s, st.copy()))
        return []

    def st_Break(self, s, st):
        self._loop_exits.append(('break', st))
        return []

    def st_Continue(self, s, st):
        return []

    def st_Assert(self, s, st):
        c = self.cond(s.test, st)
        if c.tf:
            for l in c.tf:
                st.facts.add_ge(l)
        return [st]

    def st_Delete(self, s, st):
        return [st]

    def st_FunctionDef(self, s, st):
        return [st]

    def st_Global(self, s, st):
        return [st]

    def st_Assign(self, s, st):
        v = self.ev(s.value, st)
        for t in s.targets:
            self.assign(t, v, st, s)
        return [st]

    def st_AnnAssign(self, s, st):
        if s.value is not None:
            self.assign(s.target, self.ev(s.value, st), st, s)
        return [st]

    def assign(self, t, v, st, stmt):
        if isinstance(t, ast.Name):
            if isinstance(v, Arr) and ('#' in v.ident) and v.ident.split('#')[0].rstrip("'") != t.id:
                # give local arrays a readable, stable identity
                nv = Arr(fresh(t.id), v.dims, v.nonesym, v.tags)
                nv._lazy = v._lazy
                v = nv
            st.env[t.id] = v
            if t.id in self.cursors and isinstance(v, Int):
                self._cursor_assign(t.id, v, st, stmt)
            return
        if isinstance(t, (ast.Tuple, ast.List)):
            if isinstance(v, Tup) and len(v.items) == len(t.elts):
                for e, x in zip(t.elts, v.items):
                    self.assign(e, x, st, stmt)
            else:
                for e in t.elts:
                    self.assign(e, Opaque('unpack'), st, stmt)
            return
        if isinstance(t, ast.Subscript):
            r = self.subscript(t, st, quiet=False, store=True)
            self._record_store(t, v, st)
            return
        if isinstance(t, ast.Attribute):
            self.ev(t.value, st)
            return
        if isinstance(t, ast.Starred):
            self.assign(t.value, Opaque('star'), st, stmt)

    def _record_store(self, t, v, st):
        base = self.ev(t.value, st, quiet=True)
        if not isinstance(base, Arr):
            return
        items = t.slice.elts if isinstance(t.slice, ast.Tuple) else [t.slice]
        key = []
        for it in items:
            if isinstance(it, ast.Slice):
                key = None
                break
            iv = self.ev(it, st, quiet=True)
            key.append(iv.lin if isinstance(iv, Int) else None)
        # invalidate remembered elements of this array
        for k in [k for k in st.elem if k[0] == base.ident]:
            del st.elem[k]
        if key is not None and not any(x is None for x in key) and isinstance(v, Int):
            st.elem[(base.ident, tuple(key))] = v
        name = base.ident.split('#')[0]
        if '#' in base.ident:      # local array
            rec = self.content_out.setdefault(name, [])
            if isinstance(v, Int):
                lo_ok = prove.entails_ge(st, v.lin)
                his = []
                for s_ in v.lin.syms():
                    d = st.facts.atoms.get(s_)
                    if d and d[0] == 'min' and v.lin == Lin.sym(s_):
                        his.extend([d[1], d[2]])
                his = [h for h in his if not any(('#' in x and not x.startswith('fdiv') and not x.startswith('min') and not x.startswith('max')) for x in h.syms())]
                rec.append((lo_ok, his))
            else:
                rec.append((False, []))

    def st_AugAssign(self, s, st):
        t = s.target
        if isinstance(t, ast.Name):
            cur = st.env.get(t.id, Opaque(t.id))
            binop = ast.BinOp(left=ast.Name(id=t.id, ctx=ast.Load()), op=s.op, right=s.value)
            ast.copy_location(binop, s)
            ast.fix_missing_locations(binop)
            v = self.ev(binop, st)
            st.env[t.id] = v
            if t.id in self.cursors and isinstance(v, Int):
                self._cursor_assign(t.id, v, st, s, aug=True)
            return [st]
        if isinstance(t, ast.Subscript):
            self.ev(s.value, st)
            self.subscript(t, st, quiet=False, store=True)
            base = self.ev(t.value, st, quiet=True)
            if isinstance(base, Arr):
                for k in [k for k in st.elem if k[0] == base.ident]:
                    del st.elem[k]
            return [st]
        self.ev(s.value, st)
        return [st]

    # -------------------------------------------------------------------- if
    def st_If(self, s, st):
        c = self.cond(s.test, st)
        out = []
        branches = []
        for want, facts, body in ((True, c.tf, s.body), (False, c.ff, s.orelse)):
            alts = [facts]
            if (self.split_dnf and (facts is None or isinstance(s.test, ast.BoolOp))) or (facts is None and want and isinstance(s.test, ast.BoolOp) and isinstance(s.test.op, ast.Or)):
                d = self.dnf(s.test, st, want)
                if d is not None and 1 <= len(d) <= 4:
                    # make the alternatives pairwise disjoint where an earlier one is a single literal:
                    # (A or B) = A  |  (not A and B); otherwise the same execution would be analysed on two paths
                    dis = []
                    for j, alt in enumerate(d):
                        extra = []
                        for prev in d[:j]:
                            if len(prev) == 1:
                                extra.append(-prev[0] - 1)
                        dis.append(list(alt) + extra)
                    alts = dis
            res_all = []
            any_live = False
            other = c.ff if want else c.tf
            if facts is None and other is not None and other != [] and all(prove.entails_ge(st, l) for l in other):
                alts = []          # the opposite outcome is entailed: this branch is dead
            for facts in alts:
                if facts is not None and not prove.feasible(st, facts):
                    continue
                any_live = True
                b = st.copy()
                if facts:
                    for l in facts:
                        b.facts.add_ge(l)
                res_all.extend(self.exec_block(body, [b]) if body else [b])
            branches.append(res_all if any_live else None)
        live = [b for b in branches if b is not None]
        if len(live) == 1:
            return live[0]
        if not live:
            return []
        ta, tb = live
        if not ta:
            return tb
        if not tb:
            return ta
        # both fall through: merge unless the branches define integer/array state differently under a flag
        if len(ta) == 1 and len(tb) == 1:
            a, b = ta[0], tb[0]
            if (c.flag or self.split_dnf) and self._differs(a, b):
                return [a, b]
            return [self.join(a, b, c)]
        return ta + tb

    def _differs(self, a, b):
        for k in set(a.env) | set(b.env):
            va, vb = a.env.get(k), b.env.get(k)
            if va is None or vb is None:
                if isinstance(va or vb, (Int, Arr, Tup)):
                    return True
                continue
            if isinstance(va, (Int, Arr, Tup)) or isinstance(vb, (Int, Arr, Tup)):
                if not same_val(va, vb):
                    return True
        return False

    def join(self, a, b, c):
        """Join of two path states (c: branch condition of a, may be None)."""
        r = State()
        r.facts = a.facts.copy()
        bge, beq = set(b.facts.ge), set(b.facts.eq)
        r.facts.ge = [l for l in a.facts.ge if l in bge]
        r.facts.eq = [l for l in a.facts.eq if l in beq]
        for n, d in b.facts.atoms.items():
            r.facts.atoms.setdefault(n, d)
        # atom axioms are valid on every path
        for n, d in r.facts.atoms.items():
            q = Lin.sym(n)
            if d[0] == 'fdiv':
                for l in (d[1] - q.scale(d[2]), q.scale(d[2]) + (d[2] - 1) - d[1]):
                    if l not in r.facts.ge:
                        r.facts.ge.append(l)
            elif d[0] in ('min', 'max'):
                for arm in (d[1], d[2]):
                    l = (arm - q) if d[0] == 'min' else (q - arm)
                    if l not in r.facts.ge:
                        r.facts.ge.append(l)
        r.facts.lossy = a.facts.lossy or b.facts.lossy
        r.cases = dict(a.cases)
        r.cases.update(b.cases)
        r.loopvars = dict(a.loopvars)
        r.loopvars.update(b.loopvars)
        r.content = {k: v for k, v in a.content.items() if b.content.get(k) == v}
        r.elem = {k: v for k, v in a.elem.items() if k in b.elem and (b.elem[k] is v or (k[0] != '__bt__' and same_val(v, b.elem[k])))}
        for k in set(a.env) | set(b.env):
            va, vb = a.env.get(k), b.env.get(k)
            if va is None or vb is None:
                r.env[k] = va if va is not None else vb
            elif same_val(va, vb):
                r.env[k] = va
            elif isinstance(va, Int) and isinstance(vb, Int):
                # a clamp written with an if:  `if x > L: x = L`  joins to min(x, L)  (`if x < L: x = L` to max)
                if c is not None and c.tf is not None and c.ff is not None and len(c.tf) == 1 and len(c.ff) == 1:
                    if c.tf[0] == vb.lin - va.lin - 1 and c.ff[0] == va.lin - vb.lin:
                        r.env[k] = Int(r.facts.minmax('min', vb.lin, va.lin))
                        continue
                    if c.tf[0] == va.lin - vb.lin - 1 and c.ff[0] == vb.lin - va.lin:
                        r.env[k] = Int(r.facts.minmax('max', vb.lin, va.lin))
                        continue
                s = fresh(k)
                if c is not None and c.tf is not None and c.ff is not None:
                    r.cases[s] = [(list(c.tf), va.lin), (list(c.ff), vb.lin)]
                else:
                    # keep bounds common to both values
                    self._common_bounds(r, s, a, va.lin, b, vb.lin)
                r.env[k] = Int(Lin.sym(s))
            elif isinstance(va, Arr) and isinstance(vb, Arr):
                r.env[k] = Arr(fresh(k), None)
            elif (isinstance(va, Int) and isinstance(vb, Opaque)) or (isinstance(vb, Int) and isinstance(va, Opaque)):
                r.env[k] = Int(Lin.sym(fresh(k)))
            elif isinstance(va, Arr) and isinstance(vb, NoneV) or isinstance(vb, Arr) and isinstance(va, NoneV):
                arr = va if isinstance(va, Arr) else vb
                ns = fresh('isnone')
                r.facts.add_ge(Lin.sym(ns))
                r.facts.add_le(Lin.sym(ns), 1)
                if c is not None and c.tf is not None and c.ff is not None:
                    none_in_a = isinstance(va, NoneV)
                    r.cases[ns] = [(list(c.tf), Lin.const(1 if none_in_a else 0)),
                                   (list(c.ff), Lin.const(0 if none_in_a else 1))]
                na = Arr(arr.ident, arr.dims, ns, arr.tags)
                na._lazy = arr._lazy
                r.env[k] = na
            else:
                r.env[k] = Opaque(k)
        return r

    def _common_bounds(self, r, s, a, la, b, lb):
        sym = Lin.sym(s)
        for cand in {Lin.const(0)}:
            if prove.entails_ge(a, la - cand) and prove.entails_ge(b, lb - cand):
                r.facts.add_ge(sym - cand)

    # ------------------------------------------------------------------ loops
    _loop_exits = []

    def st_For(self, s, st):
        it = s.iter
        cn = dotted(it.func) if isinstance(it, ast.Call) else ''
        assigned = stores_in(ast.Module(body=s.body, type_ignores=[]))
        pre = st
        args = [self.ev(a, st) for a in it.args] if cn in RANGE else None
        src = self.ev(it, st) if cn not in RANGE else None
        head = st.copy()
        counters = self._counters(s, assigned, head)
        self._havoc(head, assigned, s)
        lo = hi = None
        if cn in RANGE:
            if len(args) == 1:
                lo, hi = Int(0), args[0]
            elif len(args) >= 2:
                lo, hi = args[0], args[1]
            step = args[2] if len(args) == 3 else None
            if isinstance(s.target, ast.Name):
                v = Lin.sym(fresh(s.target.id))
                if isinstance(lo, Int):
                    head.facts.add_ge(v - lo.lin)
                if isinstance(hi, Int) and (step is None or (isinstance(step, Int) and step.lin.is_const() and step.lin.c > 0)):
                    head.facts.add_lt(v, hi.lin)
                head.env[s.target.id] = Int(v)
                if isinstance(lo, Int) and isinstance(hi, Int) and step is None:
                    head.loopvars[next(iter(v.t))] = (lo.lin, hi.lin)
                    self.exact_syms.add(next(iter(v.t)))
                for name, c0 in counters.items():
                    cs = head.env[name].lin
                    head.facts.add_ge(cs - c0)
                    if isinstance(lo, Int) and step is None:
                        head.facts.add_le(cs, c0 + v - lo.lin)
        else:
            tgt = s.target
            if cn == 'enumerate' and isinstance(tgt, ast.Tuple) and len(tgt.elts) == 2 and it.args:
                a = self.ev(it.args[0], st, quiet=True)
                v = Lin.sym(fresh('enum'))
                head.facts.add_ge(v)
                if isinstance(a, Arr):
                    d = a.dim(0, head.facts)
                    if d is not None:
                        head.facts.add_lt(v, d)
                self.assign(tgt.elts[0], Int(v), head, s)
                self.assign(tgt.elts[1], self._iter_elem(a), head, s)
            elif cn == 'zip' and isinstance(tgt, ast.Tuple):
                for e, a in zip(tgt.elts, it.args):
                    self.assign(e, self._iter_elem(self.ev(a, st, quiet=True)), head, s)
            else:
                self.assign(tgt, self._iter_elem(src), head, s)
            # iteration over the rows of an array has a hidden iteration number 0 <= v < len(array): counters are bounded by it
            arr_it = src if isinstance(src, Arr) else (self.ev(it.args[0], st, quiet=True) if cn == 'enumerate' and it.args else None)
            if counters and isinstance(arr_it, Arr) and not any(k.arg == 'start' for k in getattr(it, 'keywords', []) or []) and \
                    not (cn == 'enumerate' and len(it.args) > 1):
                d = arr_it.dim(0, head.facts)
                if d is not None:
                    v = Lin.sym(fresh('row'))
                    head.facts.add_ge(v)
                    head.facts.add_lt(v, d)
                    for name, c0 in counters.items():
                        cs = head.env[name].lin
                        head.facts.add_ge(cs - c0)
                        head.facts.add_le(cs, c0 + v)
        saved = self._loop_exits
        self._loop_exits = []
        self.exec_block(s.body, [head])
        self._loop_exits = saved
        after = pre.copy()
        self._havoc(after, assigned | stores_in(s.target), s, after_loop=True)
        if s.orelse:
            return self.exec_block(s.orelse, [after])
        return [after]

    def _iter_elem(self, a):
        if isinstance(a, Arr):
            if a.dims is not None and len(a.dims) > 1:
                return a.with_dims(a.dims[1:])
            cb = a.tags.get('content')
            if a.tags.get('int'):
                return Int(Lin.sym(fresh('it')))
            return Opaque('iter')
        if isinstance(a, Tup) and a.items and all(isinstance(x, Int) for x in a.items):
            return Int(Lin.sym(fresh('it')))
        return Opaque('iter')

    def st_While(self, s, st):
        assigned = stores_in(ast.Module(body=s.body, type_ignores=[]))
        head = st.copy()
        self._havoc(head, assigned, s)
        c = self.cond(s.test, head)
        body = head.copy()
        if c.tf:
            for l in c.tf:
                body.facts.add_ge(l)
        saved = self._loop_exits
        self._loop_exits = []
        self.exec_block(s.body, [body])
        self._loop_exits = saved
        after = st.copy()
        self._havoc(after, assigned, s, after_loop=True)
        c2 = self.cond(s.test, after, quiet=True)
        if c2.ff and not any(isinstance(n, ast.Break) for n in walk_no_nested(s)):
            for l in c2.ff:
                after.facts.add_ge(l)
        return [after]

    def st_With(self, s, st):
        for it in s.items:
            self.ev(it.context_expr, st)
        return self.exec_block(s.body, [st])

    def st_Try(self, s, st):
        out = self.exec_block(s.body, [st.copy()])
        for h in s.handlers:
            out += self.exec_block(h.body, [st.copy()])
        if s.finalbody:
            out = self.exec_block(s.finalbody, out)
        return out

    # ---------------------------------------------------------------- havoc
    def _havoc(self, st, names, loop, after_loop=False):
        for n in names:
            old = st.env.get(n)
            if n in self.cursors and self.cursors[n].get('ok'):
                st.env[n] = self._cursor_value(n, st)
                continue
            if isinstance(old, Int):
                st.env[n] = Int(Lin.sym(fresh(n)))
            elif isinstance(old, Arr):
                # re-bound arrays (slices) lose their size; in-place stores do not rebind
                if self._rebinds(loop, n):
                    st.env[n] = Arr(fresh(n), None, old.nonesym)
            elif old is None:
                pass
            elif isinstance(old, (Tup, Cond)):
                st.env[n] = Opaque(n)
        # element values of arrays stored to in the loop are forgotten
        stored = set()
        for node in walk_no_nested(loop):
            if isinstance(node, (ast.Assign, ast.AugAssign)):
                tg = node.targets if isinstance(node, ast.Assign) else [node.target]
                for t in tg:
                    if isinstance(t, ast.Subscript):
                        b = t.value
                        while isinstance(b, ast.Subscript):
                            b = b.value
                        if isinstance(b, ast.Name):
                            stored.add(b.id)
        for k in list(st.elem):
            if k[0] == '__bt__':
                continue
            for n in stored:
                v = st.env.get(n)
                if isinstance(v, Arr) and v.ident == k[0]:
                    del st.elem[k]
                    break

    def _rebinds(self, loop, name):
        for node in walk_no_nested(loop):
            if isinstance(node, ast.Assign):
                for t in node.targets:
                    for x in ast.walk(t):
                        if isinstance(x, ast.Name) and x.id == name and isinstance(x.ctx, ast.Store):
                            return True
        return False

    # ------------------------------------------------------- L4: counters
    def _counters(self, loop, assigned, st):
        """Variables whose only assignments in the loop body are 'c += 1', each at most once per
        iteration and not inside an inner loop: c0 <= c <= c0 + (iteration number)."""
        out = {}
        for n in assigned:
            v = st.env.get(n)
            if not isinstance(v, Int):
                continue
            ok = True
            incs = 0
            for node in walk_no_nested(ast.Module(body=loop.body, type_ignores=[])):
                if isinstance(node, (ast.For, ast.While)):
                    if n in stores_in(node):
                        ok = False
                if isinstance(node, ast.AugAssign) and isinstance(node.target, ast.Name) and node.target.id == n:
                    if isinstance(node.op, ast.Add) and isinstance(node.value, ast.Constant) and node.value.value == 1:
                        incs += 1
                    else:
                        ok = False
                elif isinstance(node, ast.Assign):
                    for t in node.targets:
                        for x in ast.walk(t):
                            if isinstance(x, ast.Name) and x.id == n and isinstance(x.ctx, ast.Store):
                                ok = False
                elif isinstance(node, (ast.For,)) and n in stores_in(node.target):
                    ok = False
            if ok and incs >= 1 and self._once_per_iteration(loop.body, n):
                out[n] = v.lin
        return out

    def _once_per_iteration(self, body, n):
        """At most one increment of n on any path through body (increments in exclusive branches ok)."""
        def count(stmts):
            tot = 0
            for s in stmts:
                if isinstance(s, ast.AugAssign) and isinstance(s.target, ast.Name) and s.target.id == n:
                    tot += 1
                elif isinstance(s, ast.If):
                    tot += max(count(s.body), count(s.orelse))
                elif isinstance(s, (ast.With,)):
                    tot += count(s.body)
                elif isinstance(s, ast.Try):
                    tot += count(s.body) + max([count(h.body) for h in s.handlers] + [0]) + count(s.finalbody)
            return tot
        return count(body) <= 1

    # ------------------------------------------------- L5: search cursors
    def _scan_cursors(self):
        """Find  while X > E[b+1]: b += 1  loops and qualify b as a search cursor of E."""
        fn = self.fn
        cands = {}
        for node in walk_no_nested(fn):
            if isinstance(node, ast.While):
                m = self._match_search(node)
                if m:
                    b, E, X = m
                    cands.setdefault(b, []).append((node, E, X))
                    node._xnames = {n.id for n in ast.walk(node.test.left) if isinstance(n, ast.Name)}
        for b, loops in cands.items():
            Es = {E for _, E, _ in loops}
            ok = len(Es) == 1
            inc_nodes = {id(l.body[0]) for l, _, _ in loops}
            for node in walk_no_nested(fn):
                if isinstance(node, ast.AugAssign) and isinstance(node.target, ast.Name) and node.target.id == b:
                    if id(node) not in inc_nodes:
                        ok = False
                elif isinstance(node, ast.Assign):
                    for t in node.targets:
                        if isinstance(t, ast.Name) and t.id == b:
                            if not (isinstance(node.value, ast.Constant) and node.value.value == 0):
                                ok = False
                        elif isinstance(t, ast.Tuple):
                            for e, v in zip(t.elts, node.value.elts if isinstance(node.value, ast.Tuple) else []):
                                if isinstance(e, ast.Name) and e.id == b and not (isinstance(v, ast.Constant) and v.value == 0):
                                    ok = False
                elif isinstance(node, ast.For) and b in stores_in(node.target):
                    ok = False
            guards = [self._dominating_guard(l, E, X) for l, E, X in loops]
            self.cursors[b] = dict(E=next(iter(Es)), ok=ok, loops=loops, guards=guards)

    def _match_search(self, w):
        t = w.test
        if not (isinstance(t, ast.Compare) and len(t.ops) == 1 and isinstance(t.ops[0], (ast.Gt, ast.GtE))):
            return None
        rhs = t.comparators[0]
        if not (isinstance(rhs, ast.Subscript) and isinstance(rhs.value, ast.Name)):
            return None
        idx = rhs.slice
        if not (isinstance(idx, ast.BinOp) and isinstance(idx.op, ast.Add) and isinstance(idx.left, ast.Name)
                and isinstance(idx.right, ast.Constant) and idx.right.value == 1):
            return None
        b = idx.left.id
        if not (len(w.body) == 1 and isinstance(w.body[0], ast.AugAssign) and isinstance(w.body[0].target, ast.Name)
                and w.body[0].target.id == b and isinstance(w.body[0].op, ast.Add)
                and isinstance(w.body[0].value, ast.Constant) and w.body[0].value.value == 1):
            return None
        return b, rhs.value.id, norm(t.left)

    def _dominating_guard(self, w, E, X):
        """An earlier statement of the same block:  if X >= E[-1]: break/continue/return/raise,
        with X not reassigned in between."""
        parent = getattr(w, '_parent', None)
        if parent is None:
            return False
        for field in ('body', 'orelse'):
            blk = getattr(parent, field, None)
            if isinstance(blk, list) and w in blk:
                i = blk.index(w)
                xnames = getattr(w, '_xnames', set()) | {E}
                found_strict, two_entries = [False], [False]
                for s in reversed(blk[:i]):
                    # every arm of an if / elif chain that ends in an exit is a candidate guard
                    arms, c, chain_ok = [], s, isinstance(s, ast.If)
                    while isinstance(c, ast.If):
                        arms.append(c)
                        if len(c.orelse) == 1 and isinstance(c.orelse[0], ast.If):
                            c = c.orelse[0]
                        else:
                            if c.orelse:
                                chain_ok = False
                            break
                    if chain_ok:
                        for arm in arms:
                            if not (arm.body and isinstance(arm.body[-1], (ast.Break, ast.Continue, ast.Return, ast.Raise))):
                                continue
                            # every disjunct of an `or` test leaves on its own
                            tests = list(arm.test.values) if isinstance(arm.test, ast.BoolOp) and isinstance(arm.test.op, ast.Or) else [arm.test]
                            # `X >= E[-1]` always suffices; `X > E[-1]` suffices for a strict search `while X > E[b+1]` (at X == E[-1] the
                            # search stops with b+1 the last index) PROVIDED the edge array has at least two entries: with a single edge,
                            # X == E[0] passes the closed test and the search reads E[1] (F44: mubins=0).  That the array has two entries
                            # must then be known: an exit on `<last index> < 1` in the same iteration, or the contract.
                            strict_search = isinstance(getattr(w, 'test', None), ast.Compare) and isinstance(w.test.ops[0], ast.Gt)
                            for t in tests:
                                if isinstance(t, ast.Compare) and len(t.ops) == 1 and isinstance(t.ops[0], (ast.Lt, ast.LtE, ast.Eq)) \
                                        and isinstance(t.comparators[0], ast.Constant) and self._is_last_index(t.left, E):
                                    c_ = t.comparators[0].value
                                    if (isinstance(t.ops[0], ast.Lt) and c_ == 1) or (isinstance(t.ops[0], (ast.LtE, ast.Eq)) and c_ == 0):
                                        two_entries[0] = True
                            for t in tests:
                                if isinstance(t, ast.Compare) and len(t.ops) == 1 and (isinstance(t.ops[0], ast.GtE) or (isinstance(t.ops[0], ast.Gt) and strict_search)) \
                                        and norm(t.left) == X:
                                    r = t.comparators[0]
                                    if isinstance(r, ast.Subscript) and isinstance(r.value, ast.Name) and r.value.id == E and self._is_last_index(r.slice, E):
                                        if isinstance(t.ops[0], ast.GtE):
                                            return True
                                        found_strict[0] = True
                    if found_strict[0] and (two_entries[0] or self._contract_two_entries(E) or self._outer_two_entries(parent, E)):
                        return True
                    # X (or E) reassigned between guard and loop?
                    if stores_in(s) & xnames:
                        return False
                return False
        return False

    def _outer_two_entries(self, node, E):
        """An exit on `<last index of E> < 1` (continue / break / return / raise) earlier in an ENCLOSING block: the edge count is loop
        invariant, so the test may sit at the top of an outer loop body.  Nothing on the way may re-bind the name tested or E."""
        child, par = node, getattr(node, '_parent', None)
        while par is not None and child is not self.fn:
            for field in ('body', 'orelse'):
                blk = getattr(par, field, None)
                if isinstance(blk, list) and child in blk:
                    for s_ in blk[:blk.index(child)]:
                        if isinstance(s_, ast.If) and not s_.orelse and s_.body and isinstance(s_.body[-1], (ast.Break, ast.Continue, ast.Return, ast.Raise)):
                            tests = list(s_.test.values) if isinstance(s_.test, ast.BoolOp) and isinstance(s_.test.op, ast.Or) else [s_.test]
                            for t in tests:
                                if isinstance(t, ast.Compare) and len(t.ops) == 1 and isinstance(t.comparators[0], ast.Constant) and self._is_last_index(t.left, E):
                                    c_ = t.comparators[0].value
                                    if (isinstance(t.ops[0], ast.Lt) and c_ == 1) or (isinstance(t.ops[0], (ast.LtE, ast.Eq)) and c_ == 0):
                                        names = {n.id for n in ast.walk(t.left) if isinstance(n, ast.Name)} | {E}
                                        later = blk[blk.index(s_) + 1:blk.index(child) + 1]
                                        if not any(isinstance(n, ast.Name) and isinstance(n.ctx, ast.Store) and n.id in names for x in later for n in ast.walk(x)):
                                            return True
            child, par = par, getattr(par, '_parent', None)
        return False

    def _contract_two_entries(self, E):
        """Does the contract require len(R) >= 2 for E or the array E is derived from element by element?"""
        import re as _re
        for text, _ in self.contract.get('requires', []):
            m = _re.match(r'^len\((\w+)\) >= (\d+)$', text.strip())
            if m and int(m.group(2)) >= 2 and self._is_last_index(ast.parse(f'len({m.group(1)}) - 1', mode='eval').body, E):
                return True
        return False

    def _is_last_index(self, sl, E):
        """-1, or a name / expression that is len(R) - 1 for R = E or the array E was derived from element by element."""
        if isinstance(sl, ast.UnaryOp) and isinstance(sl.op, ast.USub) and isinstance(sl.operand, ast.Constant) and sl.operand.value == 1:
            return True
        defs = {}
        for n in walk_no_nested(self.fn):
            if isinstance(n, ast.Assign) and len(n.targets) == 1 and isinstance(n.targets[0], ast.Name):
                defs.setdefault(n.targets[0].id, []).append(n.value)

        params = self.contract.get('params', {})

        def scalar(e, depth=0):
            if isinstance(e, ast.Constant):
                return True
            if isinstance(e, ast.Attribute):
                return dotted(e) in ('np.pi', 'math.pi')
            if isinstance(e, ast.Name):
                if e.id in params and e.id not in defs:
                    return params[e.id] not in ('arr', 'optarr')
                ds = defs.get(e.id)
                return bool(ds) and depth < 5 and all(scalar(d, depth + 1) for d in ds)
            if isinstance(e, ast.BinOp):
                return scalar(e.left, depth) and scalar(e.right, depth)
            if isinstance(e, ast.UnaryOp):
                return scalar(e.operand, depth)
            if isinstance(e, ast.Call) and dotted(e.func) in ('dtype', 'float', 'int', 'len', 'np.float32', 'np.float64', 'np.int64') :
                return True
            return False

        def root(name, depth=0):
            """Array that `name` has the same length as (through element-wise definitions)."""
            out = {name}
            d = defs.get(name, [])
            if len(d) == 1 and depth < 5:
                v = d[0]
                while True:
                    if isinstance(v, ast.Call) and isinstance(v.func, ast.Attribute) and v.func.attr in ('astype', 'copy'):
                        v = v.func.value
                    elif isinstance(v, ast.BinOp) and isinstance(v.op, (ast.Pow, ast.Mult, ast.Div, ast.Add, ast.Sub)):
                        # one array operand, the other a scalar name / literal: element-wise
                        cands = [x for x in (v.left, v.right) if not isinstance(x, ast.Constant)]
                        arrs = [x for x in cands if not scalar(x)]
                        if len(arrs) != 1:
                            break
                        v = arrs[0]
                    else:
                        break
                if isinstance(v, ast.Name):
                    out |= root(v.id, depth + 1)
            return out
        e = sl
        if isinstance(e, ast.Name) and len(defs.get(e.id, [])) == 1:
            e = defs[e.id][0]
        if isinstance(e, ast.BinOp) and isinstance(e.op, ast.Sub) and isinstance(e.right, ast.Constant) and e.right.value == 1 \
                and isinstance(e.left, ast.Call) and dotted(e.left.func) == 'len' and len(e.left.args) == 1 and isinstance(e.left.args[0], ast.Name):
            return bool(root(E) & root(e.left.args[0].id))
        return False

    def _cursor_value(self, b, st):
        """Invariant of a qualified search cursor: 0 <= b <= len(E) - 2."""
        cur = self.cursors[b]
        E = st.env.get(cur['E'])
        s = Lin.sym(fresh(b))
        st.facts.add_ge(s)
        if isinstance(E, Arr):
            d = E.dim(0, st.facts)
            if d is not None:
                st.facts.add_le(s, d - 2)
                if not all(cur['guards']):
                    self.assumed_syms[next(iter(s.t))] = '__cursor_unguarded__:' + b
        return Int(s)

    def _cursor_assign(self, b, v, st, stmt, aug=False):
        cur = self.cursors[b]
        if not cur.get('ok'):
            return
        if not aug:
            # b = 0: the invariant needs len(E) >= 2
            E = st.env.get(cur['E'])
            if isinstance(E, Arr):
                d = E.dim(0, st.facts)
                if d is not None:
                    cur['init_ok'] = cur.get('init_ok', True) and prove.entails_ge(st, d - 2)
                    cur['init_assumed'] = any(s in self.assumed_syms for s in self._goal_cone_syms(st, d, Lin.const(2)))
            st.env[b] = self._cursor_value(b, st) if isinstance(E, Arr) else v
        else:
            st.env[b] = self._cursor_value(b, st)
