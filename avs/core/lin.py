"""Linear integer arithmetic: linear forms over named symbols with Fraction coefficients,
atoms for floor-div / mod / min / max with their axioms, and entailment by Fourier-Motzkin
refutation with integer tightening.  Exact; no floating point, no solver."""
from fractions import Fraction
from math import gcd, floor
import itertools


class Lin:
    __slots__ = ('t', 'c')

    def __init__(self, t=None, c=0):
        self.t = {k: Fraction(v) for k, v in (t or {}).items() if v != 0}
        self.c = Fraction(c)

    @staticmethod
    def sym(name):
        return Lin({name: 1}, 0)

    @staticmethod
    def const(c):
        return Lin({}, c)

    def is_const(self):
        return not self.t

    def __add__(self, o):
        o = _lin(o)
        t = dict(self.t)
        for k, v in o.t.items():
            t[k] = t.get(k, 0) + v
        return Lin(t, self.c + o.c)

    __radd__ = __add__

    def __neg__(self):
        return Lin({k: -v for k, v in self.t.items()}, -self.c)

    def __sub__(self, o):
        return self + (-_lin(o))

    def __rsub__(self, o):
        return _lin(o) - self

    def scale(self, k):
        k = Fraction(k)
        return Lin({s: v * k for s, v in self.t.items()}, self.c * k)

    def __mul__(self, o):
        o = _lin(o)
        if o.is_const():
            return self.scale(o.c)
        if self.is_const():
            return o.scale(self.c)
        raise ValueError('non-linear product')

    __rmul__ = __mul__

    def __eq__(self, o):
        if not isinstance(o, (Lin, int, Fraction)):
            return False
        o = _lin(o)
        return self.t == o.t and self.c == o.c

    def __hash__(self):
        return hash((frozenset(self.t.items()), self.c))

    def syms(self):
        return set(self.t)

    def subst(self, name, repl):
        if name not in self.t:
            return self
        k = self.t[name]
        t = dict(self.t)
        del t[name]
        return Lin(t, self.c) + repl.scale(k)

    def eval(self, env):
        v = self.c
        for k, c in self.t.items():
            v += c * env[k]
        return v

    def __repr__(self):
        parts = []
        for k in sorted(self.t):
            v = self.t[k]
            if v == 1:
                parts.append(f'+{k}')
            elif v == -1:
                parts.append(f'-{k}')
            else:
                parts.append(f'{"+" if v > 0 else ""}{v}*{k}')
        if self.c != 0 or not parts:
            parts.append(f'{"+" if self.c >= 0 else ""}{self.c}')
        s = ''.join(parts)
        return s[1:] if s.startswith('+') else s


def _lin(x):
    if isinstance(x, Lin):
        return x
    return Lin.const(x)


# --------------------------------------------------------------------------- FM
def _tighten(l, reals):
    """Normalise l >= 0; if all symbols are integers, tighten the constant."""
    if not l.t:
        return l
    den = 1
    for v in list(l.t.values()) + [l.c]:
        den = den * v.denominator // gcd(den, v.denominator)
    l = l.scale(den)
    if reals and (l.syms() & reals):
        g = 0
        for v in l.t.values():
            g = gcd(g, abs(int(v)))
        return l.scale(Fraction(1, g)) if g > 1 else l
    g = 0
    for v in l.t.values():
        g = gcd(g, abs(int(v)))
    if g > 1:
        return Lin({k: v / g for k, v in l.t.items()}, floor(l.c / g))
    return Lin(l.t, floor(l.c))


def infeasible(cons, eqs=(), reals=frozenset(), limit=6000):
    """True if the system {c >= 0 for c in cons} and {e == 0 for e in eqs} has no integer solution
    (sound: True is only returned when there is really no solution). None if the search was cut."""
    cons = [_lin(c) for c in cons]
    eqs = [_lin(e) for e in eqs]
    # Gaussian substitution of equalities
    eqs = list(eqs)
    while eqs:
        e = eqs.pop()
        if not e.t:
            if e.c != 0:
                return True
            continue
        # prefer a variable with |coef| == 1
        name = None
        for k, v in e.t.items():
            if abs(v) == 1:
                name = k
                break
        if name is None:
            # keep as two inequalities
            cons.append(e)
            cons.append(-e)
            continue
        k = e.t[name]
        rest = Lin({s: v for s, v in e.t.items() if s != name}, e.c)
        repl = rest.scale(Fraction(-1) / k)
        cons = [c.subst(name, repl) for c in cons]
        eqs = [x.subst(name, repl) for x in eqs]
    work = set()
    for c in cons:
        c = _tighten(c, reals)
        if not c.t:
            if c.c < 0:
                return True
            continue
        work.add(c)
    while True:
        vars_ = set()
        for c in work:
            vars_ |= c.syms()
        if not vars_:
            return False
        best, bestcost = None, None
        for v in vars_:
            p = sum(1 for c in work if c.t.get(v, 0) > 0)
            n = sum(1 for c in work if c.t.get(v, 0) < 0)
            cost = p * n - p - n
            if bestcost is None or cost < bestcost:
                best, bestcost = v, cost
        v = best
        pos = [c for c in work if c.t.get(v, 0) > 0]
        neg = [c for c in work if c.t.get(v, 0) < 0]
        rest = {c for c in work if v not in c.t}
        if len(pos) * len(neg) + len(rest) > limit:
            return None
        for p in pos:
            for n in neg:
                comb = p.scale(-n.t[v]) + n.scale(p.t[v])
                comb = _tighten(comb, reals)
                if not comb.t:
                    if comb.c < 0:
                        return True
                    continue
                rest.add(comb)
        work = _prune(rest)


def _prune(cons):
    """Drop constraints dominated by one with identical terms and a smaller constant."""
    best = {}
    for c in cons:
        key = frozenset(c.t.items())
        if key not in best or c.c < best[key].c:
            best[key] = c
    return set(best.values())


# ------------------------------------------------------------------- context
class Facts:
    """A set of linear facts (>= 0 and == 0) over integer symbols plus atom definitions."""

    def __init__(self, parent=None):
        self.ge = list(parent.ge) if parent else []
        self.eq = list(parent.eq) if parent else []
        self.atoms = dict(parent.atoms) if parent else {}    # name -> (kind, args)
        self.reals = set(parent.reals) if parent else set()
        self.even = set(parent.even) if parent else set()      # Lin known to be even
        self.lossy = parent.lossy if parent else False         # some fact is an over-approximation

    def copy(self):
        return Facts(self)

    def add_ge(self, l):            # l >= 0
        self.ge.append(_lin(l))

    def add_le(self, a, b):         # a <= b
        self.ge.append(_lin(b) - _lin(a))

    def add_lt(self, a, b):         # a < b  (integers)
        self.ge.append(_lin(b) - _lin(a) - 1)

    def add_eq(self, a, b=0):
        self.eq.append(_lin(a) - _lin(b))

    # atoms ---------------------------------------------------------------
    def fdiv(self, x, c):
        """Symbol for x // c (c positive int) with axioms c*q <= x <= c*q + c-1."""
        x = _lin(x)
        c = int(c)
        if x.is_const():
            return Lin.const(floor(x.c / c))
        name = f'fdiv[{x}]/{c}'
        if name not in self.atoms:
            self.atoms[name] = ('fdiv', x, c)
            q = Lin.sym(name)
            self.ge.append(x - q.scale(c))
            self.ge.append(q.scale(c) + (c - 1) - x)
        return Lin.sym(name)

    def mod(self, x, c):
        return _lin(x) - self.fdiv(x, c).scale(c)

    def minmax(self, kind, a, b):
        a, b = _lin(a), _lin(b)
        if (a - b).is_const():
            if kind == 'min':
                return a if (a - b).c <= 0 else b
            return a if (a - b).c >= 0 else b
        name = f'{kind}[{a};{b}]'
        if name not in self.atoms:
            self.atoms[name] = (kind, a, b)
            m = Lin.sym(name)
            if kind == 'min':
                self.ge.append(a - m)
                self.ge.append(b - m)
            else:
                self.ge.append(m - a)
                self.ge.append(m - b)
        return Lin.sym(name)

    # queries ---------------------------------------------------------------
    def _split_minmax(self):
        """Case splits for min/max atoms: list of extra equality sets (each atom equals one arm)."""
        mm = [(n, d) for n, d in self.atoms.items() if d[0] in ('min', 'max')]
        if not mm or len(mm) > 4:
            return [[]]
        cases = []
        for choice in itertools.product((1, 2), repeat=len(mm)):
            cases.append([Lin.sym(n) - d[ch] for (n, d), ch in zip(mm, choice)])
        return cases

    def entails_ge(self, l):
        """facts |= l >= 0 ?  (True / False=not proven)."""
        l = _lin(l)
        if l.is_const():
            return l.c >= 0
        neg = -l - 1
        for extra in self._split_minmax():
            r = infeasible(self.ge + [neg], self.eq + extra, frozenset(self.reals))
            if r is not True:
                return False
        return True

    def entails_le(self, a, b):
        return self.entails_ge(_lin(b) - _lin(a))

    def entails_lt(self, a, b):
        return self.entails_ge(_lin(b) - _lin(a) - 1)

    def entails_eq(self, a, b=0):
        d = _lin(a) - _lin(b)
        return self.entails_ge(d) and self.entails_ge(-d)

    def consistent(self):
        for extra in self._split_minmax():
            if infeasible(self.ge, self.eq + extra, frozenset(self.reals)) is not True:
                return True
        return False

    # witness search ---------------------------------------------------------------
    def base_syms(self):
        s = set()
        for l in self.ge + self.eq:
            s |= l.syms()
        return sorted(x for x in s if x not in self.atoms)

    def _eval_atoms(self, env):
        env = dict(env)
        pending = dict(self.atoms)
        for _ in range(len(pending) + 1):
            prog = False
            for n, d in list(pending.items()):
                try:
                    if d[0] == 'fdiv':
                        env[n] = Fraction(floor(d[1].eval(env) / d[2]))
                    elif d[0] == 'min':
                        env[n] = min(d[1].eval(env), d[2].eval(env))
                    elif d[0] == 'max':
                        env[n] = max(d[1].eval(env), d[2].eval(env))
                    del pending[n]
                    prog = True
                except KeyError:
                    pass
            if not pending or not prog:
                break
        return env if not pending else None

    def witness(self, goal, maxval=9, budget=200000, prefer_small=True):
        """Search a small integer assignment satisfying all facts and violating goal >= 0."""
        goal = _lin(goal)
        syms = sorted((set(self.base_syms()) | {s for s in goal.syms() if s not in self.atoms}))
        # atoms' arguments may mention further symbols
        for d in self.atoms.values():
            for a in d[1:]:
                if isinstance(a, Lin):
                    for s in a.syms():
                        if s not in self.atoms and s not in syms:
                            syms.append(s)
        if not syms:
            env = self._eval_atoms({})
            ok = env is not None and all(l.eval(env) >= 0 for l in self.ge) and all(l.eval(env) == 0 for l in self.eq)
            return ({} if ok and goal.eval(env) < 0 else None)
        n = len(syms)
        rng = list(range(0, maxval + 1)) + [-1]
        count = 0
        for total in range(0, (maxval + 1) * n + 1):
            for vals in _compositions(n, total, maxval):
                count += 1
                if count > budget:
                    return None
                env = self._eval_atoms(dict(zip(syms, map(Fraction, vals))))
                if env is None:
                    continue
                try:
                    if goal.eval(env) >= 0:
                        continue
                    if all(l.eval(env) >= 0 for l in self.ge) and all(l.eval(env) == 0 for l in self.eq):
                        return {k: int(v) for k, v in zip(syms, vals)}
                except KeyError:
                    return None
        return None


def _compositions(n, total, maxval):
    """All n-tuples of ints in [0,maxval] summing to total."""
    if n == 1:
        if 0 <= total <= maxval:
            yield (total,)
        return
    for first in range(0, min(total, maxval) + 1):
        for rest in _compositions(n - 1, total - first, maxval):
            yield (first,) + rest
