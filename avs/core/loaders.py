"""Extraction and partial evaluation of the regex-dispatched halo field loaders of
compaso_halo_catalog.py (shared by C02 and C05).  Nothing of the repository is executed: the
loader bodies are interpreted over strings (match groups of literal regexes on literal column
names) and exact polynomials in symbols raw:<key>, B (box conversion) and Z (velocity conversion)."""
import ast
import re

from .poly import Poly
from .srcmodel import dotted, unparse, walk_no_nested, AnalysisError, names_in

CAT = 'abacusnbody/data/compaso_halo_catalog.py'
SETUP = 'CompaSOHaloCatalog._setup_halo_field_loaders'


class Maybe:
    def __repr__(self):
        return 'Maybe'


MAYBE = Maybe()


class Opq:
    """Opaque value with a tag (kept so that reports can print it)."""
    def __init__(self, tag):
        self.tag = tag

    def __repr__(self):
        return f'Opq({self.tag})'


class Sqrt:
    """c * sqrt(p) with polynomials p, c (c defaults to 1)."""
    def __init__(self, p, c=None):
        self.p = p
        self.c = c if c is not None else Poly.const(1)

    def square(self):
        return self.p * self.c * self.c

    def __repr__(self):
        return f'sqrt({self.p})' if self.c == Poly.const(1) else f'({self.c}) * sqrt({self.p})'


def dtype_tables(src):
    """name -> ordered list of (field, dtype text, shape or None) for module-level np.dtype([...]) literals."""
    out = {}
    for name, val in src.module_assigns(CAT).items():
        if isinstance(val, ast.Call) and dotted(val.func) == 'np.dtype' and val.args and isinstance(val.args[0], ast.List):
            rows = []
            for e in val.args[0].elts:
                if isinstance(e, ast.Tuple) and e.elts and isinstance(e.elts[0], ast.Constant):
                    rows.append((e.elts[0].value, unparse(e.elts[1]) if len(e.elts) > 1 else '',
                                 unparse(e.elts[2]) if len(e.elts) > 2 else None))
            out[name] = rows
    return out


def _expand_filtered_dict(fn):
    """`return {k: v for k, v in D.items() if k in C}` as the last statement of a loader closure, D a local bound once to a dict display and
    read only here: the comprehension is the display filtered entry by entry, in display order --
    `out = {}; if k1 in C: out[k1] = v1; ...; return out`, the straight-line form the evaluator reads."""
    import copy
    if not fn.body or not isinstance(fn.body[-1], ast.Return) or not isinstance(fn.body[-1].value, ast.DictComp):
        return False
    dc = fn.body[-1].value
    if len(dc.generators) != 1:
        return False
    g = dc.generators[0]
    if not (isinstance(g.target, ast.Tuple) and len(g.target.elts) == 2 and all(isinstance(e, ast.Name) for e in g.target.elts) and isinstance(g.iter, ast.Call)
            and isinstance(g.iter.func, ast.Attribute) and g.iter.func.attr == 'items' and isinstance(g.iter.func.value, ast.Name) and not g.iter.args
            and isinstance(dc.key, ast.Name) and isinstance(dc.value, ast.Name)):
        return False
    kname, vname = g.target.elts[0].id, g.target.elts[1].id
    if dc.key.id != kname or dc.value.id != vname:
        return False
    D = g.iter.func.value.id
    defs = [(i, d) for i, d in enumerate(fn.body[:-1]) if isinstance(d, ast.Assign) and len(d.targets) == 1 and isinstance(d.targets[0], ast.Name) and d.targets[0].id == D]
    stores = sum(1 for x in ast.walk(fn) if isinstance(x, ast.Name) and x.id == D and isinstance(x.ctx, ast.Store))
    loads = sum(1 for x in ast.walk(fn) if isinstance(x, ast.Name) and x.id == D and isinstance(x.ctx, ast.Load))
    if len(defs) != 1 or stores != 1 or loads != 1 or not isinstance(defs[0][1].value, ast.Dict) or any(k is None for k in defs[0][1].value.keys):
        return False
    disp = defs[0][1].value
    out_name = f'{D}__kept'
    new = [ast.Assign(targets=[ast.Name(id=out_name, ctx=ast.Store())], value=ast.Dict(keys=[], values=[]), lineno=fn.body[-1].lineno)]
    for kx, vx in zip(disp.keys, disp.values):
        class Sub(ast.NodeTransformer):
            def visit_Name(s_, x):
                if isinstance(x.ctx, ast.Load) and x.id == kname:
                    return copy.deepcopy(kx)
                if isinstance(x.ctx, ast.Load) and x.id == vname:
                    return copy.deepcopy(vx)
                return x
        tests = [Sub().visit(copy.deepcopy(t)) for t in g.ifs]
        store = ast.Assign(targets=[ast.Subscript(value=ast.Name(id=out_name, ctx=ast.Load()), slice=copy.deepcopy(kx), ctx=ast.Store())], value=copy.deepcopy(vx), lineno=fn.body[-1].lineno)
        if tests:
            test = tests[0] if len(tests) == 1 else ast.BoolOp(op=ast.And(), values=tests)
            new.append(ast.If(test=test, body=[store], orelse=[]))
        else:
            new.append(store)
    new.append(ast.Return(value=ast.Name(id=out_name, ctx=ast.Load())))
    fn.body = fn.body[:defs[0][0]] + fn.body[defs[0][0] + 1:-1] + new
    ast.fix_missing_locations(fn)
    return True


def _unroll_zip_loops(fn):
    """`for a, b in zip((c1, .., cn), X): BODY` at the top level of a loader closure, X a local bound once to a call, a and b not re-bound in
    BODY: the loop is unrolled -- X's binding becomes the tuple unpacking `X__0, .., X__n-1 = <call>` (zip stops at the shorter operand, the
    literal has n entries; a call result of another length raises in both forms only if it is shorter -- the decoders return exactly n) and
    iteration i is BODY with a := ci, b := X__i.  Both operands may also be literal tuples.  The result is the straight-line form the
    evaluator reads."""
    import copy
    body = fn.body
    for k, st in enumerate(body):
        if not (isinstance(st, ast.For) and not st.orelse and isinstance(st.iter, ast.Call) and isinstance(st.iter.func, ast.Name) and st.iter.func.id == 'zip'
                and len(st.iter.args) == 2 and not st.iter.keywords and isinstance(st.target, ast.Tuple) and len(st.target.elts) == 2
                and all(isinstance(e, ast.Name) for e in st.target.elts)):
            continue
        A, B = st.iter.args
        if not isinstance(A, ast.Tuple):
            continue
        n = len(A.elts)
        ta, tb = st.target.elts[0].id, st.target.elts[1].id
        if any(isinstance(x, ast.Name) and x.id in (ta, tb) and isinstance(x.ctx, ast.Store) for b_ in st.body for x in ast.walk(b_)):
            continue
        if isinstance(B, ast.Tuple) and len(B.elts) == n:
            bvals = list(B.elts)
        elif isinstance(B, ast.Name):
            defs = [(i, d) for i, d in enumerate(body[:k]) if isinstance(d, ast.Assign) and len(d.targets) == 1 and isinstance(d.targets[0], ast.Name) and d.targets[0].id == B.id]
            stores = sum(1 for x in ast.walk(fn) if isinstance(x, ast.Name) and x.id == B.id and isinstance(x.ctx, ast.Store))
            loads = sum(1 for x in ast.walk(fn) if isinstance(x, ast.Name) and x.id == B.id and isinstance(x.ctx, ast.Load))
            if len(defs) != 1 or stores != 1 or loads != 1 or not isinstance(defs[0][1].value, ast.Call):
                continue
            names = [f'{B.id}__{i}' for i in range(n)]
            body[defs[0][0]] = ast.copy_location(ast.Assign(targets=[ast.Tuple(elts=[ast.Name(id=x, ctx=ast.Store()) for x in names], ctx=ast.Store())],
                                                            value=defs[0][1].value, lineno=defs[0][1].lineno), defs[0][1])
            bvals = [ast.Name(id=x, ctx=ast.Load()) for x in names]
        else:
            continue
        out = []
        for i in range(n):
            class Sub(ast.NodeTransformer):
                def visit_Name(s_, x):
                    if isinstance(x.ctx, ast.Load) and x.id == ta:
                        return ast.copy_location(copy.deepcopy(A.elts[i]), x)
                    if isinstance(x.ctx, ast.Load) and x.id == tb:
                        return ast.copy_location(copy.deepcopy(bvals[i]), x)
                    return x
            for b_ in st.body:
                c_ = copy.deepcopy(b_)
                # locals of the body get one name per iteration
                class Ren(ast.NodeTransformer):
                    def visit_Name(s_, x):
                        if x.id in loc:
                            return ast.copy_location(ast.Name(id=f'{x.id}__{i}', ctx=x.ctx), x)
                        return x
                loc = {x.id for bb in st.body for x in ast.walk(bb) if isinstance(x, ast.Name) and isinstance(x.ctx, ast.Store)}
                out.append(ast.fix_missing_locations(Ren().visit(Sub().visit(c_))))
        body[k:k + 1] = out
        ast.fix_missing_locations(fn)
        return True
    return False


class LoaderTable:
    def __init__(self, src):
        self.src = src
        self.fn = src.func(CAT, SETUP)
        self.entries = []        # (pattern text, loader node (Lambda|FunctionDef), assign node)
        self.units = {}          # local name -> 'B' | 'Z'
        self.unit_switch = None  # dict(test, true={name: expr text}, false={name: expr text}, node)
        self.passthrough_entries = 0
        c = src.module_assigns(CAT).get('INT16SCALE')
        self.int16scale_is_float = isinstance(c, ast.Constant) and isinstance(c.value, float)
        self._extract()

    def _extract(self):
        fn = self.fn
        for n in fn.body:
            if isinstance(n, ast.FunctionDef):
                _unroll_zip_loops(n)
                _expand_filtered_dict(n)
        localdefs = {n.name: n for n in fn.body if isinstance(n, ast.FunctionDef)}
        self.localdefs = localdefs
        self.moduledefs = {n.name: n for n in self.src.tree(CAT).body if isinstance(n, ast.FunctionDef)}
        # literal tables of the setup function (name -> value), bound once: a loader that looks a string up in one of them reads a constant
        self.consts = {}
        nstores = {}
        for n in ast.walk(fn):
            if isinstance(n, ast.Name) and isinstance(n.ctx, ast.Store):
                nstores[n.id] = nstores.get(n.id, 0) + 1
        for s in fn.body:
            if isinstance(s, ast.Assign) and len(s.targets) == 1 and isinstance(s.targets[0], ast.Name) and nstores.get(s.targets[0].id) == 1 \
                    and isinstance(s.value, (ast.Dict, ast.Tuple, ast.List, ast.Constant)):
                try:
                    val = ast.literal_eval(s.value)
                except (ValueError, SyntaxError):
                    continue
                if isinstance(val, str) or (isinstance(val, (tuple, list)) and all(isinstance(x, str) for x in val)) or \
                        (isinstance(val, dict) and all(isinstance(k, str) and isinstance(v, str) for k, v in val.items())):
                    self.consts[s.targets[0].id] = _ConstTable(val) if isinstance(val, dict) else (tuple(val) if isinstance(val, list) else val)
        pat = None
        for s in fn.body:
            if isinstance(s, ast.If) and unparse(s.test) == 'passthrough':
                self.passthrough_entries = sum(1 for n in walk_no_nested(s) if isinstance(n, ast.Assign)
                                               and 'halo_field_loaders' in unparse(n.targets[0]))
                continue
            if isinstance(s, ast.If) and 'convert_units' in unparse(s.test):
                def binds(block):
                    out = {}
                    for a in block:
                        if not isinstance(a, ast.Assign):
                            continue
                        tg, v = a.targets[0], a.value
                        if isinstance(tg, (ast.Tuple, ast.List)) and isinstance(v, (ast.Tuple, ast.List)) and len(tg.elts) == len(v.elts):
                            for e_, x_ in zip(tg.elts, v.elts):          # box, zspace_to_kms = (A, B)
                                out[unparse(e_)] = x_
                        else:
                            out[unparse(tg)] = v
                    return out
                t, f = binds(s.body), binds(s.orelse)
                test_txt = unparse(s.test)
                if isinstance(s.test, ast.UnaryOp) and isinstance(s.test.op, ast.Not):
                    t, f, test_txt = f, t, unparse(s.test.operand)         # `if not self.convert_units: <identity> else: <header factors>`
                self.unit_switch = dict(test=test_txt, true=t, false=f, node=s)
                for name, v in t.items():
                    txt = unparse(v)
                    if "'BoxSize'" in txt:
                        self.units[name] = 'B'
                    elif "'VelZSpace_to_kms'" in txt:
                        self.units[name] = 'Z'
                continue
            if isinstance(s, ast.Assign) and isinstance(s.targets[0], ast.Name) and isinstance(s.value, ast.Call) \
                    and dotted(s.value.func) == 're.compile' and s.value.args and isinstance(s.value.args[0], ast.Constant):
                pat = (s.targets[0].id, s.value.args[0].value)
                continue
            if isinstance(s, ast.Assign) and isinstance(s.targets[0], ast.Subscript) \
                    and 'halo_field_loaders' in unparse(s.targets[0].value) and isinstance(s.targets[0].slice, ast.Name):
                if pat is None or s.targets[0].slice.id != pat[0]:
                    raise AnalysisError(f'loader registered under an unknown pattern variable at line {s.lineno}')
                v = s.value
                if isinstance(v, ast.Name):
                    if v.id not in localdefs:
                        raise AnalysisError(f'loader {v.id} not defined locally')
                    v = localdefs[v.id]
                if not isinstance(v, (ast.Lambda, ast.FunctionDef)):
                    raise AnalysisError(f'unrecognised loader form at line {s.lineno}')
                self.entries.append((pat[1], v, s))
        if len(self.entries) < 5:
            raise AnalysisError(f'only {len(self.entries)} (regex, loader) pairs recognised')

    def matches(self, name):
        return [i for i, (p, _, _) in enumerate(self.entries) if re.fullmatch(p, name)]

    # ---------------------------------------------------------- evaluation
    def evaluate(self, name, colpoly=None, stack=()):
        """Partially evaluate the loader of column `name`.
        Returns dict(value, raw=set(), halos=set(), frees=set(), selfreads=bool, loader=index)."""
        idx = self.matches(name)
        if len(idx) != 1:
            raise AnalysisError(f'column {name} matches {len(idx)} loader patterns')
        patt, node, _ = self.entries[idx[0]]
        m = re.fullmatch(patt, name)
        ev = _LoaderEval(self, name, m, stack)
        params = [a.arg for a in node.args.args]
        nd = len(node.args.defaults)
        dflt = dict(zip(params[len(params) - nd:], node.args.defaults)) if nd else {}
        ev.bind_params(params, dflt)
        val = ev.ev(node.body) if isinstance(node, ast.Lambda) else ev.run_body(node.body)
        return dict(value=val, raw=ev.raw, halos=ev.halos, frees=ev.frees, loader=idx[0], requested=name,
                    impure=ev.impure, promo=ev.promo)


class Vec(list):
    """Several columns stacked along a new first axis (np.array([a, b], dtype=...)): arithmetic is element-wise, .sum(axis=0) adds them."""


class _ConstTable(dict):
    """A literal str -> str dict of the setup function."""


class _LocalHelper:
    """A function defined inside a loader body (closure over the loader's parameters and locals)."""
    def __init__(self, fdef):
        self.fdef = fdef


class _LoaderEval:
    def __init__(self, table, name, match, stack):
        self.table, self.name, self.m, self.stack = table, name, match, stack
        self.env = {}
        self.raw, self.halos, self.frees = set(), set(), set()
        self.impure = []
        self.promo = []          # integer-overflow risks: int16 raw data combined with a scalar before promotion to float
        self.pm = self.praw = self.phalos = None
        self.alias = {}          # local name -> the raw / halos column it is a view of
        self.depth = 0

    def origin(self, n):
        """The caller-owned column an expression is (a view of), or None for a fresh array."""
        if isinstance(n, ast.Name):
            return self.alias.get(n.id)
        if isinstance(n, ast.Subscript):
            b = n.value
            if isinstance(b, ast.Name) and b.id in (self.praw, self.phalos) and b.id not in self.env:
                return unparse(n)
            return self.origin(b)
        if isinstance(n, ast.Call) and isinstance(n.func, ast.Attribute) and n.func.attr in ('reshape', 'view', 'ravel', 'squeeze', 'T'):
            return self.origin(n.func.value)
        if isinstance(n, ast.Call) and dotted(n.func) in ('np.asarray', 'np.atleast_2d', 'np.atleast_1d') and n.args:
            return self.origin(n.args[0])
        if isinstance(n, ast.Attribute) and n.attr == 'T':
            return self.origin(n.value)
        return None

    def inline(self, fdef, call, closure=False):
        a = fdef.args
        if a.vararg or a.kwarg or a.kwonlyargs or self.depth >= 3:
            return None
        params = [x.arg for x in a.posonlyargs + a.args]
        if len(call.args) > len(params) or any(isinstance(x, ast.Starred) for x in call.args):
            return None
        vals, al = {}, {}
        for p_, x in zip(params, call.args):
            vals[p_] = self.ev(x)
            o = self.origin(x)
            if o:
                al[p_] = o
        for k in call.keywords:
            if k.arg not in params or k.arg in vals:
                return None
            vals[k.arg] = self.ev(k.value)
            o = self.origin(k.value)
            if o:
                al[k.arg] = o
        ndef = len(a.defaults)
        for p_, d in zip(params[len(params) - ndef:], a.defaults):
            if p_ not in vals:
                vals[p_] = self.ev(d)
        if set(vals) != set(params):
            return None
        saved = (self.env, self.alias, self.pm, self.praw, self.phalos)
        if closure:
            # a helper defined inside the loader body: it sees the loader's parameters and the locals bound so far
            self.env, self.alias = dict(self.env, **vals), dict(self.alias, **al)
            for p_ in params:
                if p_ not in al:
                    self.alias.pop(p_, None)
        else:
            # the helper is defined outside the loader: it sees its own parameters only
            self.env, self.alias = vals, al
            self.pm = self.praw = self.phalos = None
        self.depth += 1
        try:
            r = self.run_body(fdef.body)
        finally:
            self.depth -= 1
            self.env, self.alias, self.pm, self.praw, self.phalos = saved
        return (r,)

    def bind_params(self, params, defaults=None):
        """(m, raw, halos) plus optional parameters with defaults (lambda m, raw, halos, unit=box: ...):
        the loaders are called with three arguments, so extra parameters always take their default."""
        defaults = defaults or {}
        if len(params) < 3 or any(p not in defaults for p in params[3:]):
            raise AnalysisError('loader does not take (m, raw, halos)')
        self.pm, self.praw, self.phalos = params[:3]
        for p in params[3:]:
            self.env[p] = self.ev(defaults[p])

    def kind(self, n):
        if isinstance(n, ast.Constant):
            return 'N' if isinstance(n.value, int) and not isinstance(n.value, bool) else ('F' if isinstance(n.value, float) else 'X')
        if isinstance(n, ast.Name):
            if n.id in self.table.units:
                return 'U'
            if n.id == 'INT16SCALE':
                return 'F' if self.table.int16scale_is_float else 'N'
            return 'X'
        if isinstance(n, ast.Subscript) and isinstance(n.value, ast.Name) and n.value.id == self.praw:
            k = self.ev_quiet(n.slice)
            return 'I16' if isinstance(k, str) and k.endswith('_i16') else 'F'
        if isinstance(n, ast.Subscript) and isinstance(n.value, ast.Name) and n.value.id == self.phalos:
            return 'F'
        if isinstance(n, ast.BinOp):
            return _kind_join(n.op, self.kind(n.left), self.kind(n.right), n, self._promo_sink(n))
        if isinstance(n, ast.Call):
            if isinstance(n.func, ast.Attribute) and n.func.attr in ('reshape', 'copy', 'view') :
                return self.kind(n.func.value)
            if isinstance(n.func, ast.Attribute) and n.func.attr == 'astype':
                return 'F' if n.args and 'float' in unparse(n.args[0]) else 'X'
            if dotted(n.func) in ('np.float32', 'np.float64', 'float', 'np.sqrt'):
                return 'F'
            return 'X'
        if isinstance(n, ast.UnaryOp):
            return self.kind(n.operand)
        return 'X'

    def _promo_sink(self, n):
        class _S(list):
            def append(s_, x, outer=self):
                if x not in outer.promo:
                    outer.promo.append(x)
        return _S()

    def ev_quiet(self, n):
        saved = (set(self.raw), set(self.halos), set(self.frees), list(self.impure))
        v = self.ev(n)
        self.raw, self.halos, self.frees, self.impure = saved[0], saved[1], saved[2], saved[3]
        return v

    def run_body(self, body):
        ret = None
        for s in body:
            r = self.stmt(s)
            if r is not None:
                return r[0]
        return ret

    def stmt(self, s, maybe=False):
        if isinstance(s, ast.Return):
            return (self.ev(s.value),)
        if isinstance(s, ast.Assign) and isinstance(s.value, ast.Lambda) and len(s.targets) == 1 and isinstance(s.targets[0], ast.Name):
            lam = s.value
            self.env[s.targets[0].id] = _LocalHelper(ast.FunctionDef(name=s.targets[0].id, args=lam.args, body=[ast.Return(value=lam.body)], decorator_list=[]))
            return None
        if isinstance(s, ast.Assign):
            v = self.ev(s.value)
            t = s.targets[0]
            if isinstance(t, ast.Name):
                self.env[t.id] = v
                o = self.origin(s.value)
                if o:
                    self.alias[t.id] = o
                else:
                    self.alias.pop(t.id, None)
            elif isinstance(t, ast.Subscript) and self.origin(t.value):
                self.impure.append(f'writes into {self.origin(t.value)} ({unparse(t)} = ...)')
            elif isinstance(t, ast.Tuple) and isinstance(v, tuple) and len(v) == len(t.elts):
                for e, x in zip(t.elts, v):
                    if isinstance(e, ast.Name):
                        self.env[e.id] = x
            elif isinstance(t, ast.Subscript) and isinstance(t.value, ast.Name) and isinstance(self.env.get(t.value.id), dict):
                k = self.ev(t.slice)
                self.env[t.value.id][k if isinstance(k, str) else repr(k)] = (v, 'maybe' if maybe else 'always')
            return None
        if isinstance(s, ast.If):
            c = self.ev(s.test)
            if c is True:
                for b in s.body:
                    r = self.stmt(b, maybe)
                    if r is not None:
                        return r
            elif c is False:
                for b in s.orelse:
                    r = self.stmt(b, maybe)
                    if r is not None:
                        return r
            else:
                for b in s.body + s.orelse:
                    r = self.stmt(b, True)
                    if r is not None:
                        return r
            return None
        if isinstance(s, ast.AugAssign):
            o = self.origin(s.target)
            if o:
                self.impure.append(f'in-place update of {o} ({unparse(s)}): the caller\'s column is changed for every later reader')
            if isinstance(s.target, ast.Name):
                fake = ast.BinOp(left=ast.Name(id=s.target.id, ctx=ast.Load()), op=s.op, right=s.value)
                ast.copy_location(fake, s)
                ast.fix_missing_locations(fake)
                self.env[s.target.id] = self.ev(fake)
            return None
        if isinstance(s, ast.Expr):
            self.ev(s.value)
        if isinstance(s, ast.FunctionDef) and not s.decorator_list:
            self.env[s.name] = _LocalHelper(s)
        return None

    def ev(self, n):
        if isinstance(n, ast.Constant):
            if isinstance(n.value, (int, float)) and not isinstance(n.value, bool):
                return Poly.const(n.value) if isinstance(n.value, int) else Poly.from_float_literal(n.value)
            return n.value
        if isinstance(n, ast.Name):
            if n.id in self.env:
                return self.env[n.id]
            if n.id in self.table.consts:
                return self.table.consts[n.id]
            if n.id in self.table.units:
                self.frees.add(n.id)
                return Poly.sym(self.table.units[n.id])
            if n.id == 'INT16SCALE':
                self.frees.add(n.id)
                return Poly.sym('INT16SCALE')
            if n.id in (self.pm, self.praw, self.phalos):
                return Opq(n.id)
            self.frees.add(n.id)
            return Opq(n.id)
        if isinstance(n, ast.Dict):
            if n.keys and all(isinstance(k, ast.Constant) and isinstance(k.value, str) for k in n.keys) \
                    and all(isinstance(v, ast.Constant) and isinstance(v.value, str) for v in n.values):
                return _ConstTable({k.value: v.value for k, v in zip(n.keys, n.values)})
            return {}
        if isinstance(n, ast.Subscript):
            base = n.value
            if isinstance(base, ast.Name) and base.id == self.pm:
                k = self.ev(n.slice)
                if isinstance(k, Poly) and k.is_const():
                    k = int(k.const_value())
                try:
                    return self.m[k]
                except (IndexError, KeyError):
                    raise AnalysisError(f'loader of {self.name} reads match group {k!r} that the pattern lacks')
            if isinstance(base, ast.Name) and base.id == self.praw:
                k = self.ev(n.slice)
                if not isinstance(k, str):
                    self.impure.append(f'raw key not a string: {unparse(n)}')
                    return Opq('raw?')
                self.raw.add(k)
                return Poly.sym('raw:' + k)
            if isinstance(base, ast.Name) and base.id == self.phalos:
                k = self.ev(n.slice)
                if not isinstance(k, str):
                    self.impure.append(f'halos key not a string: {unparse(n)}')
                    return Opq('halos?')
                self.halos.add(k)
                if k in self.stack or k == self.name:
                    raise AnalysisError(f'cyclic halo column dependency through {k}')
                sub = self.table.evaluate(k, stack=self.stack + (self.name,))
                self.raw |= {f'via:{k}:{r}' for r in ()}
                v = sub['value']
                if isinstance(v, dict):
                    v = v.get(k, (Opq('missing'), 'maybe'))[0]
                return _as_col(v, k)
            v = self.ev(base)
            k = self.ev(n.slice) if not isinstance(n.slice, ast.Slice) else None
            if isinstance(v, _ConstTable):
                if isinstance(k, str):
                    if k not in v:
                        raise AnalysisError(f'loader of {self.name} looks up {k!r} in a table that lacks it')
                    return v[k]
                return Opq('table?')
            return v if isinstance(v, (Poly, Opq, Sqrt)) else Opq('sub')
        if isinstance(n, ast.Slice):
            return Opq('slice')
        if isinstance(n, ast.Tuple):
            return tuple(self.ev(e) for e in n.elts)
        if isinstance(n, ast.Attribute):
            v = n.value
            if isinstance(v, ast.Name) and v.id == self.phalos and n.attr == 'colnames':
                return Opq('colnames')
            if isinstance(v, ast.Name) and v.id == 'self':
                self.impure.append(f'reads {unparse(n)}')
                return Opq('self.' + n.attr)
            d = dotted(n)
            if d.startswith('np.'):
                return Opq(d)
            return Opq(unparse(n))
        if isinstance(n, ast.BinOp):
            a, b = self.ev(n.left), self.ev(n.right)
            if isinstance(a, str) and isinstance(b, str) and isinstance(n.op, ast.Add):
                return a + b
            if isinstance(a, Vec) and isinstance(b, Poly) and all(isinstance(x, Poly) for x in a):
                try:
                    if isinstance(n.op, ast.Pow):
                        return Vec([x ** b for x in a])
                    if isinstance(n.op, ast.Mult):
                        return Vec([x * b for x in a])
                except ValueError:
                    pass
            if isinstance(a, Vec) and isinstance(b, Vec) and len(a) == len(b) and isinstance(n.op, ast.Mult) and all(isinstance(x, Poly) for x in list(a) + list(b)):
                return Vec([x * y for x, y in zip(a, b)])
            self.kind(n)
            if isinstance(a, Poly) and isinstance(b, Poly):
                try:
                    if isinstance(n.op, ast.Add):
                        return a + b
                    if isinstance(n.op, ast.Sub):
                        return a - b
                    if isinstance(n.op, ast.Mult):
                        return a * b
                    if isinstance(n.op, ast.Div):
                        return a / b
                    if isinstance(n.op, ast.Pow):
                        return a ** b
                except ValueError:
                    pass
            if isinstance(a, Sqrt) and isinstance(b, Poly) and isinstance(n.op, ast.Pow) and b == Poly.const(2):
                return a.square()
            # sqrt(p) * q, q * sqrt(p), sqrt(p) / q
            try:
                if isinstance(a, Sqrt) and isinstance(b, Poly) and isinstance(n.op, ast.Mult):
                    return Sqrt(a.p, a.c * b)
                if isinstance(b, Sqrt) and isinstance(a, Poly) and isinstance(n.op, ast.Mult):
                    return Sqrt(b.p, b.c * a)
                if isinstance(a, Sqrt) and isinstance(b, Poly) and isinstance(n.op, ast.Div):
                    return Sqrt(a.p, a.c / b)
            except ValueError:
                pass
            return Opq(f'({_s(a)} {type(n.op).__name__} {_s(b)})')
        if isinstance(n, ast.UnaryOp) and isinstance(n.op, ast.USub):
            a = self.ev(n.operand)
            return -a if isinstance(a, Poly) else Opq('-' + _s(a))
        if isinstance(n, ast.Compare) and len(n.ops) == 1:
            a, b = self.ev(n.left), self.ev(n.comparators[0])
            if isinstance(n.ops[0], ast.Eq) and isinstance(a, str) and isinstance(b, str):
                return a == b
            if isinstance(n.ops[0], ast.NotEq) and isinstance(a, str) and isinstance(b, str):
                return a != b
            if isinstance(n.ops[0], (ast.In, ast.NotIn)) and isinstance(a, str) and isinstance(b, (tuple, _ConstTable)) and all(isinstance(x, str) for x in b):
                return (a in b) == isinstance(n.ops[0], ast.In)
            if isinstance(n.ops[0], ast.In) and isinstance(a, str) and isinstance(b, Opq) and b.tag == 'colnames':
                return True if a == self.name else MAYBE
            return MAYBE
        if isinstance(n, ast.BoolOp):
            vals = [self.ev(v) for v in n.values]
            if isinstance(n.op, ast.Or):
                if any(v is True for v in vals):
                    return True
                return False if all(v is False for v in vals) else MAYBE
            if any(v is False for v in vals):
                return False
            return True if all(v is True for v in vals) else MAYBE
        if isinstance(n, ast.Call):
            cn = dotted(n.func)
            if isinstance(n.func, ast.Attribute) and n.func.attr == 'replace' and len(n.args) == 2:
                recv = self.ev(n.func.value)
                a, b = self.ev(n.args[0]), self.ev(n.args[1])
                if isinstance(recv, str) and isinstance(a, str) and isinstance(b, str):
                    return recv.replace(a, b)
            if cn in ('np.array', 'np.stack', 'np.asarray') and n.args and isinstance(n.args[0], (ast.List, ast.Tuple)) and len(n.args) == 1 \
                    and all(k.arg in ('dtype', 'axis') for k in n.keywords) and not any(k.arg == 'axis' and unparse(k.value) != '0' for k in n.keywords):
                elts = [self.ev(e) for e in n.args[0].elts]
                if elts and all(isinstance(e, Poly) for e in elts):
                    return Vec(elts)
            if isinstance(n.func, ast.Attribute) and n.func.attr == 'sum' and not n.args and [unparse(k.value) for k in n.keywords if k.arg == 'axis'] == ['0'] and len(n.keywords) == 1:
                recv = self.ev(n.func.value)
                if isinstance(recv, Vec) and all(isinstance(x, Poly) for x in recv):
                    tot = recv[0]
                    for x in recv[1:]:
                        tot = tot + x
                    return tot
            if isinstance(n.func, ast.Attribute) and n.func.attr in ('reshape', 'astype', 'copy', 'view'):
                for a in n.args:
                    self.ev(a)
                return self.ev(n.func.value)
            if cn in ('np.atleast_2d', 'np.asarray', 'np.float32', 'np.float64', 'np.array', 'np.int64', 'int', 'float'):
                # conversions of a value to another numeric type: the value (as an exact polynomial) is unchanged; a truncating int()
                # of a non-integer is not modelled and only accepted for module constants and integer raw columns
                for k in n.keywords:
                    self.ev(k.value)
                return self.ev(n.args[0])
            if cn == 'np.sqrt' and len(n.args) == 1:
                a = self.ev(n.args[0])
                return Sqrt(a) if isinstance(a, Poly) else Opq(f'sqrt({_s(a)})')
            if cn == '_unpack_euler16' and len(n.args) == 1:
                a = self.ev(n.args[0])
                self.frees.add('_unpack_euler16')
                return tuple(Opq(f'euler16.{w}({_s(a)})') for w in ('minor', 'middle', 'major'))
            if isinstance(n.func, ast.Name) and isinstance(self.env.get(n.func.id), _LocalHelper):
                if any(p_ in (self.pm, self.praw, self.phalos) for p_ in [x.arg for x in self.env[n.func.id].fdef.args.args]):
                    r = None            # a parameter shadowing m / raw / halos: not modelled
                else:
                    r = self.inline(self.env[n.func.id].fdef, n, closure=True)
                if r is not None and r[0] is not None:
                    return r[0]
            fdef = None
            if isinstance(n.func, ast.Name) and n.func.id not in self.env:
                fdef = self.table.localdefs.get(n.func.id) or self.table.moduledefs.get(n.func.id)
            if fdef is not None and not fdef.decorator_list:
                r = self.inline(fdef, n)
                if r is not None:
                    self.frees.add(n.func.id)
                    return r[0] if r[0] is not None else Opq(f'call {cn}')
            args = [self.ev(a) for a in n.args]
            for k in n.keywords:
                self.ev(k.value)
            if cn.startswith('np.'):
                return Opq(f'{cn}({", ".join(_s(a) for a in args)})')
            self.impure.append(f'calls {cn or unparse(n.func)}')
            return Opq(f'call {cn}')
        if isinstance(n, ast.IfExp):
            c = self.ev(n.test)
            if c is True:
                return self.ev(n.body)
            if c is False:
                return self.ev(n.orelse)
            return Opq('ifexp')
        return Opq(type(n).__name__)


def _kind_join(op, ka, kb, node, sink):
    """Numeric kind of a binary operation. Kinds: I16 (int16 array straight from the file), F (float array
    or float scalar), U (unit scalar from the header: may be a Python int), N (integer literal), X (other)."""
    if 'F' in (ka, kb):
        return 'F'
    if isinstance(op, ast.Div):
        return 'F'                      # true division always yields floats
    if 'I16' in (ka, kb):
        other = kb if ka == 'I16' else ka
        if other in ('U', 'N', 'I16') and isinstance(op, (ast.Mult, ast.Add, ast.Sub, ast.Pow)):
            sink.append(f'{unparse(node)}: int16 data combined with {"a header scalar" if other == "U" else "an integer"} before promotion to float '
                        '(stays int16 and wraps when the scalar is an integer)')
        return 'I16'
    if 'U' in (ka, kb):
        return 'U'
    return ka if ka == kb else 'X'


def _as_col(v, k):
    return v if isinstance(v, (Poly, Sqrt)) else (v if isinstance(v, Opq) else Opq(f'col:{k}'))


def _s(v):
    return repr(v) if not isinstance(v, Opq) else v.tag
