"""Symbolic evaluation of a vectorised numpy decoder for ONE value of a small integer selector (the `cap`
of _unpack_euler16): boolean masks built from the selector are evaluated concretely, per-row scalars are
exact polynomials (Laurent, Fraction coefficients) over named symbols, (N,3) arrays are triples of such
polynomials.  Square roots, reciprocals of non-monomials, cos/sin and row norms become symbols with a
recorded defining relation; `ident_zero` decides polynomial identities modulo those relations
(s^2 = radicand, u*Q = 1).  Nothing of the repository is executed."""
import ast
from fractions import Fraction

from .poly import Poly
from .srcmodel import dotted, unparse, AnalysisError


class V3:
    def __init__(self, comps=None):
        self.c = list(comps) if comps else [Poly(), Poly(), Poly()]
        self.normalised = False
        self.raw = None          # components before the normalising scale, when normalised
        self.written = [False, False, False]

    def copy(self):
        v = V3(self.c)
        v.normalised, v.written = self.normalised, list(self.written)
        v.raw = list(self.raw) if self.raw else None
        return v


class Opaque:
    def __init__(self, tag):
        self.tag = tag

    def __repr__(self):
        return f'<{self.tag}>'


EMPTY = Opaque('empty selection')


class Algebra:
    """Registry of defined symbols and the identity checker."""
    def __init__(self):
        self.sqrt = {}      # symbol -> radicand Poly
        self.sqrt_pos = {}  # symbol -> True when the radicand is syntactically  positive const + squares
        self.inv = {}       # symbol -> Q  (symbol * Q = 1)
        self.norm = {}      # symbol -> tuple of 3 Polys (row norm of that triple)
        self.trig = {}      # symbol -> ('cos'|'sin', arg Poly)

    def sym_sqrt(self, p, positive):
        for k, v in self.sqrt.items():
            if v == p:
                self.sqrt_pos[k] = self.sqrt_pos[k] or positive
                return Poly.sym(k)
        k = f'sqrt#{len(self.sqrt)}'
        self.sqrt[k] = p
        self.sqrt_pos[k] = positive
        return Poly.sym(k)

    def sym_inv(self, q):
        for k, v in self.inv.items():
            if v == q:
                return Poly.sym(k)
        k = f'inv#{len(self.inv)}'
        self.inv[k] = q
        return Poly.sym(k)

    def sym_norm(self, comps):
        for k, v in self.norm.items():
            if all(a == b for a, b in zip(v, comps)):
                return Poly.sym(k)
        k = f'norm#{len(self.norm)}'
        self.norm[k] = tuple(comps)
        self.sqrt[k] = comps[0] * comps[0] + comps[1] * comps[1] + comps[2] * comps[2]
        self.sqrt_pos[k] = False
        return Poly.sym(k)

    def sym_trig(self, fn, arg):
        for k, v in self.trig.items():
            if v[0] == fn and v[1] == arg:
                return Poly.sym(k)
        k = f'{fn}#{len(self.trig)}'
        self.trig[k] = (fn, arg)
        return Poly.sym(k)

    def div(self, a, b):
        if not b.t:
            raise AnalysisError('division by the zero polynomial')
        if len(b.t) == 1:
            return a / b
        return a * self.sym_inv(b)

    # -------------------------------------------------------------------------------- identities
    @staticmethod
    def _exps(p, s):
        return [dict(m).get(s, 0) for m in p.t]

    def ident_zero(self, e, fuel=40):
        key = frozenset(e.t.items())
        if not hasattr(self, '_memo'):
            self._memo = {}
        if key not in self._memo:
            self._memo[key] = self._ident_zero(e, fuel)
        return self._memo[key]

    def _ident_zero(self, e, fuel=40):
        """Is e == 0 for all values of the free symbols, given s^2 = radicand (s > 0 real) and u*Q = 1?
        Only multiplications by non-zero quantities are used, so True is sound; False means 'not shown'."""
        for _ in range(fuel):
            if not e.t:
                return True
            changed = False
            for s, q in self.sqrt.items():
                ex = self._exps(e, s)
                if not any(ex):
                    continue
                lo = min(ex)
                if lo < 0:
                    k = -lo + ((-lo) % 2)
                    e = e * (Poly.sym(s) ** k)
                    ex = self._exps(e, s)
                    changed = True
                if max(ex) >= 2:
                    groups = {}
                    for m, c in e.t.items():
                        d = dict(m)
                        k = d.pop(s, 0)
                        groups.setdefault(k, {})[tuple(sorted(d.items()))] = c
                    out = Poly()
                    qp = {}
                    for k, t_ in groups.items():
                        if k // 2 not in qp:
                            qp[k // 2] = q ** (k // 2)
                        term = Poly._mk(t_) * qp[k // 2]
                        if k % 2:
                            term = term * Poly.sym(s)
                        out = out + term
                    e = out
                    changed = True
                if changed:
                    break
            if changed:
                continue
            for u, q in self.inv.items():
                ex = self._exps(e, u)
                if not any(ex):
                    continue
                hi, lo = max(ex), min(ex)
                groups = {}
                for m, c in e.t.items():
                    d = dict(m)
                    k = d.pop(u, 0)
                    groups.setdefault(k, {})[tuple(sorted(d.items()))] = c
                out = Poly()
                for k, t_ in groups.items():
                    # u^k * Q^hi = Q^(hi-k)   (k may be negative: u^-1 = Q)
                    out = out + Poly._mk(t_) * (q ** (max(hi, 0) - k))
                e = out
                changed = True
                break
            if not changed:
                return not e.t
        return not e.t

    def positive(self, p):
        """p is a product of a positive constant and (inverse) powers of positive square roots."""
        if len(p.t) != 1:
            return None
        (m, c), = p.t.items()
        for s, _ in m:
            if not self.sqrt_pos.get(s, False):
                return None
        return 1 if c > 0 else -1


def _is_square(n):
    if isinstance(n, ast.BinOp) and isinstance(n.op, ast.Mult) and unparse(n.left) == unparse(n.right):
        return True
    if isinstance(n, ast.BinOp) and isinstance(n.op, ast.Pow) and isinstance(n.right, ast.Constant) and n.right.value in (2, 2.0):
        return True
    return False


def _positive_sum(n):
    """positive literal + squares (syntactic)."""
    terms = []

    def flat(x):
        if isinstance(x, ast.BinOp) and isinstance(x.op, ast.Add):
            flat(x.left)
            flat(x.right)
        else:
            terms.append(x)
    flat(n)
    has_const = any(isinstance(t, ast.Constant) and isinstance(t.value, (int, float)) and t.value > 0 for t in terms)
    rest = [t for t in terms if not (isinstance(t, ast.Constant) and isinstance(t.value, (int, float)) and t.value > 0)]
    return has_const and all(_is_square(t) for t in rest)


class CapEval:
    def __init__(self, alg, consts, selector_names, sel):
        self.alg, self.consts = alg, consts
        self.env = {}
        self.sel = sel
        self.selector_names = selector_names
        self.problems = []       # (node, text)
        self.divisions = []      # (node, divisor Poly, text)
        self.ret = None
        self.alias = {}          # name -> set of names bound to the same array object
        self.cur = None          # statement being executed
        self.v3_divisions = []   # (stmt, divisor Poly, text) for divisions in statements that update a triple

    # ---------------------------------------------------------------- expressions
    def problem(self, node, text):
        self.problems.append((node, text))

    def ev(self, n):
        if isinstance(n, ast.Constant):
            if isinstance(n.value, bool):
                return n.value
            if isinstance(n.value, int):
                return Poly.const(n.value)
            if isinstance(n.value, float):
                return Poly.from_float_literal(n.value)
            return Opaque(repr(n.value))
        if isinstance(n, ast.Name):
            if n.id in self.env:
                return self.env[n.id]
            if n.id in self.consts:
                return self.consts[n.id]
            return Opaque(n.id)
        if isinstance(n, ast.Attribute):
            d = dotted(n)
            if d in ('np.pi', 'math.pi', 'numpy.pi'):
                return Poly.sym('PI')
            if n.attr == 'T':
                return self.ev(n.value)
            return Opaque(unparse(n))
        if isinstance(n, ast.UnaryOp):
            v = self.ev(n.operand)
            if isinstance(n.op, ast.USub):
                return -v if isinstance(v, Poly) else (V3([-c for c in v.c]) if isinstance(v, V3) else Opaque('neg'))
            if isinstance(n.op, (ast.Invert, ast.Not)) and isinstance(v, bool):
                return not v
            if isinstance(n.op, ast.UAdd):
                return v
            return Opaque('unary')
        if isinstance(n, ast.BoolOp):
            vals = [self.ev(v) for v in n.values]
            if all(isinstance(v, bool) for v in vals):
                return all(vals) if isinstance(n.op, ast.And) else any(vals)
            return Opaque('boolop')
        if isinstance(n, ast.Compare) and len(n.ops) == 1:
            a, b = self.ev(n.left), self.ev(n.comparators[0])
            if isinstance(a, Poly) and isinstance(b, Poly) and a.is_const() and b.is_const():
                x, y = a.const_value(), b.const_value()
                op = n.ops[0]
                table = {ast.Eq: x == y, ast.NotEq: x != y, ast.Lt: x < y, ast.LtE: x <= y, ast.Gt: x > y, ast.GtE: x >= y}
                for k, v in table.items():
                    if isinstance(op, k):
                        return v
            if isinstance(n.ops[0], ast.In) and isinstance(a, Poly) and a.is_const() and isinstance(b, tuple):
                return any(isinstance(x, Poly) and x == a for x in b)
            return Opaque('compare')
        if isinstance(n, (ast.Tuple, ast.List)):
            return tuple(self.ev(e) for e in n.elts)
        if isinstance(n, ast.BinOp):
            a, b = self.ev(n.left), self.ev(n.right)
            if isinstance(a, bool) and isinstance(b, bool):
                if isinstance(n.op, ast.BitAnd):
                    return a and b
                if isinstance(n.op, ast.BitOr):
                    return a or b
                if isinstance(n.op, ast.BitXor):
                    return a != b
            if isinstance(a, V3) or isinstance(b, V3):
                return self._v3op(n, a, b)
            if isinstance(a, Poly) and isinstance(b, Poly):
                op = n.op
                if isinstance(op, ast.Add):
                    return a + b
                if isinstance(op, ast.Sub):
                    return a - b
                if isinstance(op, ast.Mult):
                    return a * b
                if isinstance(op, ast.Div):
                    self.divisions.append((n, b, unparse(n.right)))
                    return self.alg.div(a, b)
                if isinstance(op, ast.Pow) and b.is_const() and b.const_value().denominator == 1:
                    k = int(b.const_value())
                    if k >= 0:
                        return a ** k
                    self.divisions.append((n, a, unparse(n.left)))
                    return self.alg.div(Poly.const(1), a ** (-k))
                if isinstance(op, ast.Pow) and b.is_const() and b.const_value() == Fraction(1, 2):
                    return self.alg.sym_sqrt(a, _positive_sum(n.left))
                if isinstance(op, (ast.FloorDiv, ast.Mod)) and a.is_const() and b.is_const() and b.const_value() != 0 \
                        and a.const_value().denominator == 1 and b.const_value().denominator == 1:
                    x, y = int(a.const_value()), int(b.const_value())
                    return Poly.const(x // y if isinstance(op, ast.FloorDiv) else x % y)
            return Opaque(f'({unparse(n)})')
        if isinstance(n, ast.Subscript):
            return self._load_sub(n)
        if isinstance(n, ast.Call):
            return self._call(n)
        if isinstance(n, ast.IfExp):
            c = self._truth(self.ev(n.test))
            if isinstance(c, bool):
                return self.ev(n.body if c else n.orelse)
            return Opaque('conditional expression on a non-constant test')
        return Opaque(type(n).__name__)

    @staticmethod
    def _truth(v):
        if isinstance(v, bool):
            return v
        if isinstance(v, Poly) and v.is_const():
            return v.const_value() != 0
        return None

    def _iter_values(self, it):
        """Concrete values of a constant iterable (range of constants, literal tuple/list), or None."""
        if isinstance(it, ast.Call) and dotted(it.func) == 'range' and 1 <= len(it.args) <= 3 and not it.keywords:
            a = [self.ev(x) for x in it.args]
            if all(isinstance(x, Poly) and x.is_const() and x.const_value().denominator == 1 for x in a):
                k = [int(x.const_value()) for x in a]
                r = range(*k) if not (len(k) == 3 and k[2] == 0) else None
                if r is not None and len(r) <= 256:
                    return [Poly.const(i) for i in r]
            return None
        if isinstance(it, (ast.Tuple, ast.List)):
            v = self.ev(it)
            return list(v)
        return None

    def _v3op(self, n, a, b):
        if isinstance(a, V3) and isinstance(b, V3):
            f = {ast.Add: lambda x, y: x + y, ast.Sub: lambda x, y: x - y, ast.Mult: lambda x, y: x * y}.get(type(n.op))
            return V3([f(x, y) for x, y in zip(a.c, b.c)]) if f else Opaque('v3op')
        v, s, left = (a, b, True) if isinstance(a, V3) else (b, a, False)
        if not isinstance(s, Poly):
            return Opaque('v3 with opaque')
        if isinstance(n.op, ast.Mult):
            out = V3([x * s for x in v.c])
            out.normalised = self._is_own_norm_inverse(v, s)
            out.raw = list(v.c) if out.normalised else None
            return out
        if isinstance(n.op, ast.Div) and left:
            self.divisions.append((n, s, unparse(n.right)))
            out = V3([self.alg.div(x, s) for x in v.c])
            out.normalised = self._is_own_norm(v, s)
            out.raw = list(v.c) if out.normalised else None
            return out
        return Opaque('v3 scalar op')

    def _is_own_norm(self, v, s):
        if len(s.t) != 1:
            return False
        (m, c), = s.t.items()
        return c == 1 and len(m) == 1 and m[0][1] == 1 and m[0][0] in self.alg.norm and all(x == y for x, y in zip(self.alg.norm[m[0][0]], v.c))

    def _is_own_norm_inverse(self, v, s):
        if len(s.t) != 1:
            return False
        (m, c), = s.t.items()
        return c == 1 and len(m) == 1 and m[0][1] == -1 and m[0][0] in self.alg.norm and all(x == y for x, y in zip(self.alg.norm[m[0][0]], v.c))

    def _index(self, sl):
        """Subscript index -> (row selector True/False/'all', axis or None)."""
        items = list(sl.elts) if isinstance(sl, ast.Tuple) else [sl]
        rows = items[0]
        if isinstance(rows, ast.Slice) and rows.lower is None and rows.upper is None and rows.step is None:
            r = 'all'
        else:
            r = self.ev(rows)
            if not isinstance(r, bool):
                return None
        axis = None
        if len(items) == 2:
            a = self.ev(items[1])
            if isinstance(a, Poly) and a.is_const() and a.const_value() in (0, 1, 2):
                axis = int(a.const_value())
            elif isinstance(items[1], ast.Slice) and items[1].lower is None and items[1].upper is None:
                axis = None
            else:
                return None
        elif len(items) > 2:
            return None
        return r, axis

    def _load_sub(self, n):
        base = self.ev(n.value)
        if isinstance(base, Opaque) and unparse(n).endswith('.shape[0]'):
            return Opaque('N')
        ix = self._index(n.slice)
        if ix is None:
            return Opaque(f'index {unparse(n)}')
        r, axis = ix
        if r is False:
            return EMPTY
        if isinstance(base, V3):
            return base.c[axis] if axis is not None else base.copy()
        if isinstance(base, Poly) and axis is None:
            return base
        return Opaque(f'sub {unparse(n)}')

    def _call(self, n):
        cn = dotted(n.func)
        args = n.args
        if isinstance(n.func, ast.Attribute) and n.func.attr == 'astype' and args and unparse(args[0]).replace('np.', '') in ('int', 'int64', 'int32', 'intp'):
            return self._floor(self.ev(n.func.value))
        if isinstance(n.func, ast.Attribute) and n.func.attr in ('astype', 'reshape', 'copy', 'view', 'ravel', 'squeeze'):
            return self.ev(n.func.value)
        if cn in ('np.zeros', 'np.empty', 'np.zeros_like', 'np.empty_like', 'np.ones'):
            txt = unparse(args[0]) if args else ''
            if txt.replace(' ', '').endswith(',3)') or (cn.endswith('_like') and isinstance(self.ev(args[0]), V3)):
                return V3()
            return Opaque('array')
        if cn in ('np.sqrt', 'math.sqrt') and len(args) == 1:
            a = self.ev(args[0])
            if isinstance(a, Poly):
                return self.alg.sym_sqrt(a, _positive_sum(args[0]))
            return Opaque('sqrt')
        if cn in ('np.cos', 'np.sin', 'math.cos', 'math.sin') and len(args) == 1:
            a = self.ev(args[0])
            if isinstance(a, Poly):
                return self.alg.sym_trig(cn.split('.')[-1], a)
            return Opaque('trig')
        if cn in ('np.floor', 'np.trunc', 'np.int64', 'np.int32', 'int') and len(args) == 1:
            return self._floor(self.ev(args[0]))
        if cn in ('np.float64', 'np.float32', 'float', 'np.asarray', 'np.array', 'np.ascontiguousarray') and len(args) >= 1:
            return self.ev(args[0])
        if cn == 'np.linalg.norm' and args:
            a = self.ev(args[0])
            ax = [k for k in n.keywords if k.arg == 'axis']
            if isinstance(a, V3) and ax and unparse(ax[0].value) in ('1', '-1'):
                return self.alg.sym_norm(a.c)
            return Opaque('norm')
        if cn in ('np.logical_and', 'np.logical_or') and len(args) == 2:
            a, b = self.ev(args[0]), self.ev(args[1])
            if isinstance(a, bool) and isinstance(b, bool):
                return (a and b) if cn.endswith('and') else (a or b)
        if cn == 'np.logical_not' and len(args) == 1 and isinstance(self.ev(args[0]), bool):
            return not self.ev(args[0])
        if cn == 'np.isin' and len(args) == 2:
            a, b = self.ev(args[0]), self.ev(args[1])
            if isinstance(a, Poly) and a.is_const() and isinstance(b, tuple):
                return any(isinstance(x, Poly) and x == a for x in b)
        if cn == 'np.where' and len(args) == 3:
            c = self.ev(args[0])
            if isinstance(c, bool):
                return self.ev(args[1] if c else args[2])
        if cn == 'np.cross' and len(args) == 2:
            a, b = self.ev(args[0]), self.ev(args[1])
            if isinstance(a, V3) and isinstance(b, V3):
                return V3([a.c[(i + 1) % 3] * b.c[(i + 2) % 3] - a.c[(i + 2) % 3] * b.c[(i + 1) % 3] for i in range(3)])
        if cn in ('np.stack', 'np.column_stack') and args and isinstance(args[0], (ast.Tuple, ast.List)) and len(args[0].elts) == 3:
            cs = [self.ev(e) for e in args[0].elts]
            if all(isinstance(c, Poly) for c in cs):
                return V3(cs)
        return Opaque(f'call {cn or unparse(n.func)}')

    @staticmethod
    def _floor(a):
        if not isinstance(a, Poly):
            return Opaque('floor')
        if len(a.t) == 1:
            (m, c), = a.t.items()
            if c == 1 and len(m) == 1 and m[0][1] == 1 and m[0][0].startswith('floor<'):
                return a
            if m == ():
                return Poly.const(c.numerator // c.denominator)
        return Poly.sym(f'floor<{a!r}>')

    # ----------------------------------------------------------------- statements
    def run(self, stmts):
        for s in stmts:
            self.stmt(s)
            if self.ret is not None:
                break

    def stmt(self, s):
        self.cur = s
        if isinstance(s, ast.Expr):
            return
        if isinstance(s, ast.Return):
            self.ret = (s, self.ev(s.value) if s.value is not None else None)
            return
        if isinstance(s, ast.Assign) and len(s.targets) == 1:
            t = s.targets[0]
            if isinstance(t, ast.Name):
                v = self.ev(s.value)
                for grp in self.alias.values():
                    grp.discard(t.id)
                self.alias.pop(t.id, None)
                if isinstance(s.value, ast.Name) and isinstance(v, (Poly, V3)) and not (isinstance(v, Poly) and v.is_const()):
                    grp = self.alias.setdefault(s.value.id, {s.value.id})
                    grp.add(t.id)
                    self.alias[t.id] = grp
                self.env[t.id] = v
                return
            if isinstance(t, ast.Tuple) and all(isinstance(e, ast.Name) for e in t.elts):
                v = self.ev(s.value)
                if isinstance(v, tuple) and len(v) == len(t.elts):
                    for e, x in zip(t.elts, v):
                        self.env[e.id] = x
                    return
            if isinstance(t, ast.Subscript) and isinstance(t.value, ast.Name):
                return self._store(s, t, s.value, None)
        if isinstance(s, ast.AugAssign):
            fake = ast.BinOp(left=s.target, op=s.op, right=s.value)
            ast.copy_location(fake, s)
            if isinstance(s.target, ast.Name):
                old = self.env.get(s.target.id)
                n0 = len(self.divisions)
                new = self.ev(fake)
                if isinstance(old, V3):
                    self.v3_divisions += [(s,) + d[1:] for d in self.divisions[n0:]]
                    if isinstance(new, V3) and new.normalised:
                        new.raw = list(old.c)
                # numpy updates the array object in place: every name bound to it sees the new values
                for nm in self.alias.get(s.target.id, {s.target.id}):
                    self.env[nm] = new
                return
            if isinstance(s.target, ast.Subscript) and isinstance(s.target.value, ast.Name):
                return self._store(s, s.target, fake, None)
        if isinstance(s, ast.If):
            c = self._truth(self.ev(s.test))
            if isinstance(c, bool):
                for b in (s.body if c else s.orelse):
                    self.stmt(b)
                return
        if isinstance(s, ast.For) and not s.orelse and not any(isinstance(x, (ast.Break, ast.Continue, ast.Return)) for x in ast.walk(s)):
            vals = self._iter_values(s.iter)
            tg = s.target
            names = [tg] if isinstance(tg, ast.Name) else (list(tg.elts) if isinstance(tg, ast.Tuple) and all(isinstance(e, ast.Name) for e in tg.elts) else None)
            if vals is not None and names is not None:
                for v in vals:
                    if isinstance(tg, ast.Name):
                        self.env[tg.id] = v
                    elif isinstance(v, tuple) and len(v) == len(names):
                        for e, x in zip(names, v):
                            self.env[e.id] = x
                    else:
                        self.problem(s, f'loop target does not match the iterated value: {unparse(s)[:80]}')
                        return
                    for b in s.body:
                        self.stmt(b)
                return
        if isinstance(s, ast.Pass):
            return
        self.problem(s, f'statement not understood: {unparse(s)[:80]}')

    def _store(self, s, t, value_node, _):
        base = self.env.get(t.value.id)
        ix = self._index(t.slice)
        if not isinstance(base, V3) or ix is None:
            self.problem(s, f'store not understood: {unparse(t)}')
            return
        r, axis = ix
        n0 = len(self.divisions)
        v = self.ev(value_node)
        if r is not False:
            self.v3_divisions += [(s,) + d[1:] for d in self.divisions[n0:]]
        if r is False:
            if v is not EMPTY and not isinstance(v, Opaque) and self._selects_rows(value_node):
                self.problem(s, f'{unparse(s)[:90]}: the value selects rows for selector {self.sel} but the target does not (shape mismatch)')
            return
        if v is EMPTY:
            self.problem(s, f'{unparse(s)[:90]}: for selector {self.sel} the target selects rows but the value selects none (mask mismatch)')
            return
        if axis is None:
            if isinstance(v, V3):
                base.c = list(v.c)
                base.written = [True] * 3
                base.normalised = v.normalised
            else:
                self.problem(s, f'whole-row store of a non-triple: {unparse(s)[:80]}')
            return
        if not isinstance(v, Poly):
            self.problem(s, f'{unparse(s)[:90]}: stored value not understood ({v!r})')
            return
        base.c[axis] = v
        base.written[axis] = True
        base.normalised = False

    def _selects_rows(self, n):
        for x in ast.walk(n):
            if isinstance(x, ast.Subscript):
                ix = self._index(x.slice)
                if ix is not None and ix[0] is True:
                    return True
        return False
