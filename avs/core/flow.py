"""Dependence (information-flow) analysis with shape/value separation, interprocedural by
function summaries.  For every variable two sets of sources are tracked:
  V  sources its *values* may depend on (explicit data flow + control dependence)
  S  sources its *shape* may depend on (for scalars S == V)
x.shape / len(x) / x.ndim / x.size / x.dtype / `x is None` read S(x), not V(x).
Arrays are tracked whole; dict literals with constant keys are tracked per key.
Parameters stored into (directly or by a callee) are recorded as mutated, with the sources."""
import ast

from .srcmodel import dotted, unparse, walk_no_nested

SHAPE_ATTRS = {'shape', 'ndim', 'size', 'dtype', 'itemsize', 'nbytes'}
EMPTY = frozenset()


class Val:
    __slots__ = ('V', 'S', 'keys')

    def __init__(self, V=EMPTY, S=EMPTY, keys=None):
        self.V, self.S, self.keys = frozenset(V), frozenset(S), keys

    def join(self, o):
        keys = None
        if self.keys is not None or o.keys is not None:
            keys = dict(self.keys or {})
            for k, v in (o.keys or {}).items():
                keys[k] = keys[k].join(v) if k in keys else v
        return Val(self.V | o.V, self.S | o.S, keys)

    def with_ctrl(self, c):
        return Val(self.V | c, self.S | c, {k: v.with_ctrl(c) for k, v in self.keys.items()} if self.keys is not None else None)

    def __eq__(self, o):
        return isinstance(o, Val) and self.V == o.V and self.S == o.S and (self.keys or {}) == (o.keys or {})

    def __repr__(self):
        return f'Val(V={sorted(self.V)}, S={sorted(self.S)}' + (f', keys={self.keys}' if self.keys else '') + ')'


def scalar(srcs):
    return Val(srcs, srcs)


class Summary:
    def __init__(self, params):
        self.params = params
        self.ret = None            # Val over sources 'p:<param>' (tuple returns: keys '0','1',... ; dict returns: keys by name)
        self.mut = {}              # param -> Val (what flows into the param array by stores)
        self.sites = {}            # param -> set of (file, function, line, text): in-place stores into the argument (transitive)


class Flow:
    def __init__(self, src, resolver):
        """resolver(call node, caller file) -> (file, qualname) of an in-package callee or None."""
        self.src, self.resolver = src, resolver
        self.summaries = {}
        self.stack = []

    # ---------------------------------------------------------------- summaries
    def summary(self, rel, q):
        key = (rel, q)
        if key in self.summaries:
            return self.summaries[key]
        if key in self.stack:
            return None
        self.stack.append(key)
        fn = self.src.func(rel, q)
        params = [a.arg for a in fn.args.posonlyargs + fn.args.args + fn.args.kwonlyargs]
        env = {p: Val({f'p:{p}'}, {f's:{p}'}) for p in params}
        fa = _FnAnalysis(self, rel, fn, env)
        fa.run()
        s = Summary(params)
        s.ret = fa.ret
        s.sites = {p: set(v) for p, v in fa.sites.items() if p in params}
        for p in params:
            v = fa.env.get(p)
            if v is not None and (v.V - {f'p:{p}'} or v.S - {f's:{p}'}):
                s.mut[p] = v
        self.stack.pop()
        self.summaries[key] = s
        return s


def _subst(val, argmap):
    """Replace summary sources p:<param>/s:<param> by the caller's argument values."""
    def conv(srcs, want_shape_of_value):
        out = set()
        for x in srcs:
            kind, _, name = x.partition(':')
            a = argmap.get(name)
            if a is None:
                continue
            if kind == 'n':
                out |= {'n:' + y.split(':', 1)[1] for y in (a.V | a.S)}
            else:
                out |= (a.V if kind == 'p' else a.S)
        return out
    if val is None:
        return Val()
    keys = {k: _subst(v, argmap) for k, v in val.keys.items()} if val.keys is not None else None
    return Val(conv(val.V, False), conv(val.S, True), keys)


class _FnAnalysis:
    def __init__(self, flow, rel, fn, env):
        self.flow, self.rel, self.fn = flow, rel, fn
        self.env = dict(env)
        self.ret = None
        self.sites = {}
        self.params = set(env)
        self.fn_ctrl = frozenset()       # control sources that persist to the end of the function (early raise/return)

    def run(self):
        for _ in range(3):
            before = dict(self.env)
            self.block(self.fn.body, self.fn_ctrl)
            if before == self.env:
                break

    # ---------------------------------------------------------------- values
    def ev(self, n):
        if n is None:
            return Val()
        if isinstance(n, ast.Constant):
            return Val()
        if isinstance(n, ast.Name):
            return self.env.get(n.id, Val())
        if isinstance(n, ast.Attribute):
            base = self.ev(n.value)
            if n.attr in SHAPE_ATTRS:
                return scalar(base.S)
            if n.attr in ('T', 'real', 'imag'):
                return base
            return base
        if isinstance(n, ast.Subscript):
            base = self.ev(n.value)
            # shape element: x.shape[0]
            if isinstance(n.value, ast.Attribute) and n.value.attr in SHAPE_ATTRS:
                return scalar(base.V | self.ev(n.slice).V)
            if base.keys is not None and isinstance(n.slice, ast.Constant) and n.slice.value in base.keys:
                return base.keys[n.slice.value]
            items = n.slice.elts if isinstance(n.slice, ast.Tuple) else [n.slice]
            iv = Val()
            arrayish = False
            for it in items:
                if isinstance(it, ast.Slice):
                    arrayish = True
                    for p in (it.lower, it.upper, it.step):
                        iv = iv.join(self.ev(p))
                elif isinstance(it, ast.Constant) and it.value is None or (isinstance(it, ast.Attribute) and it.attr == 'newaxis'):
                    arrayish = True
                else:
                    iv = iv.join(self.ev(it))
            if arrayish:
                return Val(base.V | iv.V, base.S | iv.V)
            return Val(base.V | iv.V, base.S | base.V | iv.V)
        if isinstance(n, (ast.Tuple, ast.List)):
            vals = [self.ev(e) for e in n.elts]
            out = Val()
            for v in vals:
                out = out.join(Val(v.V, v.S))
            return Val(out.V, out.S, {str(i): v for i, v in enumerate(vals)})
        if isinstance(n, ast.Dict):
            out = Val()
            keys = {}
            for k, v in zip(n.keys, n.values):
                vv = self.ev(v)
                out = out.join(Val(vv.V, vv.S))
                if isinstance(k, ast.Constant):
                    keys[k.value] = vv
            return Val(out.V, out.S, keys)
        if isinstance(n, ast.Compare):
            # identity tests read only the "presence" of a value
            if any(isinstance(o, (ast.Is, ast.IsNot)) for o in n.ops):
                # presence test: depends only on whether the operands are given (kind 'n:'), not on their contents
                srcs = set()
                for e in [n.left] + n.comparators:
                    v = self.ev(e)
                    srcs |= {'n:' + x.split(':', 1)[1] for x in (v.V | v.S)}
                return scalar(srcs)
            out = Val()
            for e in [n.left] + n.comparators:
                v = self.ev(e)
                out = out.join(Val(v.V, v.V))
            return out
        if isinstance(n, ast.Call):
            return self.call(n)
        if isinstance(n, ast.IfExp):
            c = self.ev(n.test)
            return self.ev(n.body).join(self.ev(n.orelse)).with_ctrl(c.V)
        if isinstance(n, (ast.ListComp, ast.GeneratorExp, ast.SetComp, ast.DictComp)):
            out = Val()
            for g in n.generators:
                out = out.join(self.ev(g.iter))
            return Val(out.V | out.S, out.S | out.V)
        if isinstance(n, ast.Lambda):
            return Val()
        out = Val()
        for ch in ast.iter_child_nodes(n):
            if isinstance(ch, ast.expr):
                out = out.join(Val(self.ev(ch).V, self.ev(ch).S))
        return out

    def call(self, n):
        cn = dotted(n.func)
        if any(isinstance(a, ast.Starred) and isinstance(a.value, (ast.Tuple, ast.List)) for a in n.args):
            # f(x, *(a, b, c), y): the display is spliced in, so that every argument meets the parameter of its position
            import copy
            n = copy.copy(n)
            ex = []
            for a in n.args:
                if isinstance(a, ast.Starred) and isinstance(a.value, (ast.Tuple, ast.List)) and not any(isinstance(e_, ast.Starred) for e_ in a.value.elts):
                    ex.extend(a.value.elts)
                else:
                    ex.append(a)
            n.args = ex
        args = [self.ev(a) for a in n.args]
        kws = {k.arg: self.ev(k.value) for k in n.keywords if k.arg}
        if cn == 'len' and args:
            return scalar(args[0].S)
        if cn == 'dict':
            out = Val()
            for v in kws.values():
                out = out.join(Val(v.V, v.S))
            return Val(out.V, out.S, dict(kws))
        if cn in ('isinstance',):
            return scalar(args[0].S) if args else Val()
        # library calls that write into one of their arguments: out=<param>, np.copyto(<param>, ..), <param>.sort() ...
        written = [k.value for k in n.keywords if k.arg == 'out']
        if cn in ('np.copyto', 'np.put', 'np.place', 'np.putmask', 'np.fill_diagonal', 'np.random.shuffle') and n.args:
            written.append(n.args[0])
        if isinstance(n.func, ast.Attribute) and n.func.attr in ('sort', 'fill', 'resize', 'itemset', 'partition', 'byteswap', 'setfield', 'put') \
                and not cn.startswith(('np.', 'numba.')):
            written.append(n.func.value)
        for wn in written:
            for e in (wn.elts if isinstance(wn, (ast.Tuple, ast.List)) else [wn]):
                b = e
                while isinstance(b, ast.Subscript):
                    b = b.value
                if isinstance(b, ast.Name) and b.id in self.params:
                    self.sites.setdefault(b.id, set()).add((self.rel, self.fn.name, getattr(n, 'lineno', 0), unparse(n)[:80]))
                if isinstance(b, ast.Name):
                    cur = self.env.get(b.id, Val())
                    addv = Val()
                    for a in list(args) + list(kws.values()):
                        addv = addv.join(Val(a.V, a.S))
                    self.env[b.id] = Val(cur.V | addv.V | self.cur_ctrl, cur.S, cur.keys)
        target = self.flow.resolver(n, self.rel)
        if target is not None:
            s = self.flow.summary(*target)
            if s is not None:
                argmap = {}
                for p, a in zip(s.params, args):
                    argmap[p] = a
                for k, a in kws.items():
                    argmap[k] = a
                # **mapping: its contents can reach every parameter that is not bound otherwise
                starkw = Val()
                for k_ in n.keywords:
                    if k_.arg is None:
                        v_ = self.ev(k_.value)
                        starkw = starkw.join(Val(v_.V, v_.S))
                for p in s.params:
                    argmap.setdefault(p, starkw)
                # in-place mutation of array arguments
                for p, mv in s.mut.items():
                    node = None
                    if p in s.params and s.params.index(p) < len(n.args):
                        node = n.args[s.params.index(p)]
                    for k in n.keywords:
                        if k.arg == p:
                            node = k.value
                    if isinstance(node, ast.Name):
                        cur = self.env.get(node.id, Val())
                        if node.id in self.params and s.sites.get(p):
                            self.sites.setdefault(node.id, set()).update(s.sites[p])
                        add = _subst(mv, argmap)
                        # an in-place store changes the caller's values, never its shape
                        self.env[node.id] = Val(cur.V | add.V | self.cur_ctrl, cur.S, cur.keys)
                for p_, st_ in s.sites.items():
                    node_ = None
                    if p_ in s.params and s.params.index(p_) < len(n.args):
                        node_ = n.args[s.params.index(p_)]
                    for k_ in n.keywords:
                        if k_.arg == p_:
                            node_ = k_.value
                    if isinstance(node_, ast.Name) and node_.id in self.params and st_:
                        self.sites.setdefault(node_.id, set()).update(st_)
                return _subst(s.ret, argmap)
        # method call on a tracked value: x.astype(..), x.sum(..), x.reshape(..), x.upper() ...
        recv = Val()
        if isinstance(n.func, ast.Attribute) and not cn.startswith(('np.', 'numba.', 'warnings.', 'gc.')):
            recv = self.ev(n.func.value)
            if n.func.attr in ('update',) and isinstance(n.func.value, ast.Name) and recv.keys is not None:
                keys = dict(recv.keys)
                add = Val()
                for k, v in kws.items():
                    keys[k] = v.with_ctrl(self.cur_ctrl)
                    add = add.join(Val(v.V, v.S))
                for a, an in zip(args, n.args):
                    if a.keys:
                        for k, v in a.keys.items():
                            keys[k] = v.with_ctrl(self.cur_ctrl)
                    add = add.join(Val(a.V, a.S))
                self.env[n.func.value.id] = Val(recv.V | add.V, recv.S | add.S, keys)
                return Val()
        out = recv
        for a in list(args) + list(kws.values()):
            out = out.join(Val(a.V, a.S))
        if cn in ('np.broadcast_to',) and len(args) == 2:
            return Val(args[0].V | args[1].V, args[0].S | args[1].V)
        return Val(out.V, out.S)

    # ---------------------------------------------------------------- statements
    cur_ctrl = frozenset()

    def block(self, stmts, ctrl):
        for s in stmts:
            self.cur_ctrl = ctrl
            extra = self.stmt(s, ctrl)
            if extra:
                ctrl = ctrl | extra          # a conditional exit taints everything after it
        return ctrl

    def _exits(self, body):
        # termination-insensitive: a conditional raise does not taint what follows
        return any(isinstance(x, (ast.Break, ast.Continue, ast.Return)) for st in body for x in walk_no_nested(st))

    def assign(self, t, v, ctrl):
        v = v.with_ctrl(ctrl)
        if isinstance(t, ast.Name):
            self.env[t.id] = v
        elif isinstance(t, (ast.Tuple, ast.List)):
            for i, e in enumerate(t.elts):
                sub = v.keys.get(str(i)) if v.keys is not None and str(i) in v.keys else Val(v.V, v.S)
                self.assign(e, sub.with_ctrl(ctrl) if sub is not v else v, ctrl)
        elif isinstance(t, ast.Subscript):
            base = t.value
            while isinstance(base, ast.Subscript):
                base = base.value
            iv = self.ev(t.slice)
            if isinstance(base, ast.Name) and base.id in self.params:
                self.sites.setdefault(base.id, set()).add((self.rel, self.fn.name, getattr(t, 'lineno', 0), unparse(t)))
            if isinstance(base, ast.Name):
                cur = self.env.get(base.id, Val())
                if cur.keys is not None and isinstance(t.slice, ast.Constant) and isinstance(t.value, ast.Name):
                    keys = dict(cur.keys)
                    keys[t.slice.value] = v
                    self.env[base.id] = Val(cur.V | v.V, cur.S | v.S, keys)
                else:
                    self.env[base.id] = Val(cur.V | v.V | iv.V, cur.S, cur.keys)
        elif isinstance(t, ast.Attribute):
            pass

    def stmt(self, s, ctrl):
        if isinstance(s, ast.Assign):
            v = self.ev(s.value)
            for t in s.targets:
                self.assign(t, v, ctrl)
            return None
        if isinstance(s, ast.AugAssign):
            if isinstance(s.target, ast.Name) and s.target.id in self.params:
                # `param += x` updates an ndarray argument in place
                self.sites.setdefault(s.target.id, set()).add((self.rel, self.fn.name, s.lineno, unparse(s)))
            v = self.ev(s.value).join(self.ev(s.target))
            self.assign(s.target, v, ctrl)
            return None
        if isinstance(s, ast.AnnAssign) and s.value is not None:
            self.assign(s.target, self.ev(s.value), ctrl)
            return None
        if isinstance(s, ast.Expr):
            self.ev(s.value)
            return None
        if isinstance(s, ast.Return):
            v = self.ev(s.value).with_ctrl(ctrl) if s.value is not None else Val()
            self.ret = v if self.ret is None else self.ret.join(v)
            return None
        if isinstance(s, ast.If):
            c = self.ev(s.test)
            inner = ctrl | c.V
            self.block(s.body, inner)
            self.block(s.orelse, inner)
            if self._exits(s.body) or self._exits(s.orelse):
                return c.V
            return None
        if isinstance(s, ast.For):
            it = self.ev(s.iter)
            inner = ctrl | it.V | it.S
            for _ in range(2):
                self.assign(s.target, Val(it.V | it.S, it.V | it.S), inner)
                inner = self.block(s.body, inner)
            self.block(s.orelse, inner)
            return None
        if isinstance(s, ast.While):
            inner = ctrl
            for _ in range(2):
                c = self.ev(s.test)
                inner = inner | c.V
                inner = self.block(s.body, inner)
            return None
        if isinstance(s, (ast.With,)):
            for it in s.items:
                self.ev(it.context_expr)
            self.block(s.body, ctrl)
            return None
        if isinstance(s, ast.Try):
            self.block(s.body, ctrl)
            for h in s.handlers:
                self.block(h.body, ctrl)
            self.block(s.finalbody, ctrl)
            return None
        if isinstance(s, ast.Assert):
            self.ev(s.test)
            return None
        if isinstance(s, ast.Delete):
            return None
        if isinstance(s, ast.Raise):
            return None
        return None
