"""Element types of buffers (differential rule).  The rules of the individual properties follow names, indices and
values; the element type of the arrays they travel through is a separate necessary condition: a buffer that silently
becomes float64 (ids above 2**53 collapse), float32 (weights rounded), a narrower integer (offsets wrap) or gets the
type of another input changes the values that come out, for some inputs, while every index rule still holds.

The instances are the numpy constructor calls (np.empty / zeros / ones / full / *_like / arange) bound to a name in the
functions on a property's path.  The reference for "the right element type" is the reviewed snapshot: for each
(function, bound name) present in both trees the normalised element kind must be the same.  Kinds are normalised
(int == np.int64 == 'i8', no dtype == float64 for empty/zeros/ones, `x.dtype` == like:x, *_like(x) == like:x), so
respelling a type is not a change; a name that exists on one side only gives no verdict (refactoring)."""
import ast
import os

from .canon import REFDIR, _functions
from .srcmodel import unparse, dotted, clone

KINDS = {
    'int': 'i8', 'np.int64': 'i8', 'np.int_': 'i8', 'np.intp': 'i8', 'np.longlong': 'i8', 'numpy.int64': 'i8', 'nb.int64': 'i8', 'numba.int64': 'i8',
    'np.int32': 'i4', 'np.intc': 'i4', 'np.int16': 'i2', 'np.int8': 'i1',
    'np.uint64': 'u8', 'np.uintp': 'u8', 'np.uint32': 'u4', 'np.uint16': 'u2', 'np.uint8': 'u1', 'np.ubyte': 'u1',
    'float': 'f8', 'np.float64': 'f8', 'np.double': 'f8', 'np.float_': 'f8', 'np.float32': 'f4', 'np.single': 'f4', 'np.float16': 'f2',
    'bool': 'b1', 'np.bool_': 'b1', 'np.bool8': 'b1',
    'complex': 'c16', 'np.complex128': 'c16', 'np.complex64': 'c8',
}
STR = {'i8': 'i8', 'i4': 'i4', 'i2': 'i2', 'i1': 'i1', 'u8': 'u8', 'u4': 'u4', 'u2': 'u2', 'u1': 'u1', 'f8': 'f8', 'f4': 'f4', 'f2': 'f2',
       'c16': 'c16', 'c8': 'c8', 'b1': 'b1', '?': 'b1', 'int64': 'i8', 'int32': 'i4', 'uint64': 'u8', 'uint32': 'u4', 'uint8': 'u1',
       'float64': 'f8', 'float32': 'f4', 'bool': 'b1', 'int': 'i8', 'float': 'f8', 'complex128': 'c16', 'complex64': 'c8'}
CTORS = {'np.empty': 1, 'np.zeros': 1, 'np.ones': 1, 'np.full': 2, 'np.arange': None,
         'np.empty_like': 1, 'np.zeros_like': 1, 'np.ones_like': 1, 'np.full_like': 2}


def kind_of_dtype(d):
    if d is None:
        return None
    t = dotted(d) or unparse(d)
    if isinstance(d, ast.Constant) and isinstance(d.value, str):
        return STR.get(d.value.lstrip('<>=|'), 'str:' + d.value)
    if isinstance(d, ast.Constant) and d.value is None:
        return None
    if t in KINDS:
        return KINDS[t]
    if isinstance(d, ast.Attribute) and d.attr == 'dtype':
        return 'like:' + unparse(d.value)
    if isinstance(d, ast.Attribute) and d.attr == 'type' and isinstance(d.value, ast.Attribute) and d.value.attr == 'dtype':
        return 'like:' + unparse(d.value.value)
    return 'expr:' + unparse(d)


def kind_of_alloc(call):
    cn = dotted(call.func)
    if cn not in CTORS:
        return None
    npos = CTORS[cn]
    dt = [k.value for k in call.keywords if k.arg == 'dtype']
    if not dt and npos is not None and len(call.args) > npos:
        dt = [call.args[npos]]
    k = kind_of_dtype(dt[0]) if dt else None
    if k is not None:
        return k
    if cn.endswith('_like'):
        return 'like:' + (unparse(call.args[0]) if call.args else '?')
    if cn in ('np.empty', 'np.zeros', 'np.ones'):
        return 'f8'
    if cn == 'np.full':
        f = call.args[1] if len(call.args) > 1 else None
        if isinstance(f, ast.Constant) and isinstance(f.value, bool):
            return 'b1'
        if isinstance(f, ast.Constant) and isinstance(f.value, int):
            return 'i8'
        if isinstance(f, ast.Constant) and isinstance(f.value, float) or (f is not None and unparse(f) in ('np.nan', 'np.inf', '-np.inf')):
            return 'f8'
        return 'fill:' + (unparse(f) if f is not None else '?')
    if cn == 'np.arange':
        ints = all(isinstance(a, ast.Constant) and isinstance(a.value, int) or not isinstance(a, ast.Constant) for a in call.args)
        return 'arange:int' if ints else 'arange:float'
    return None


def allocations(fn):
    """(target text) -> [kind, ...] in source order, for the function's own body (nested defs are separate functions)."""
    out = {}
    stack = list(fn.body)
    nodes = []
    while stack:
        n = stack.pop(0)
        nodes.append(n)
        for c in ast.iter_child_nodes(n):
            if isinstance(c, (ast.FunctionDef, ast.AsyncFunctionDef, ast.Lambda, ast.ClassDef)):
                continue
            stack.append(c)
    for n in sorted([x for x in nodes if isinstance(x, ast.Assign)], key=lambda x: (x.lineno, x.col_offset)):
        v = n.value
        # x = np.empty(...)   or   x = np.empty(...).reshape(...) / .astype is a different thing: only direct constructor calls
        if isinstance(v, ast.Call):
            k = kind_of_alloc(v)
            if k is not None:
                for t in n.targets:
                    if isinstance(t, (ast.Name, ast.Attribute, ast.Subscript)):
                        out.setdefault(unparse(t), []).append((k, n))
    # constructor calls used directly as an argument:  T.add_column(np.empty(n, dtype=...), name=...)
    bound = {id(n.value) for n in nodes if isinstance(n, ast.Assign)}
    parent = {}
    for n in nodes:
        for c in ast.iter_child_nodes(n):
            parent[id(c)] = n
    for n in sorted([x for x in nodes if isinstance(x, ast.Call) and id(x) not in bound], key=lambda x: (x.lineno, x.col_offset)):
        k = kind_of_alloc(n)
        if k is not None:
            par = parent.get(id(n))
            where = (dotted(par.func) or unparse(par.func)).split('.')[-1] if isinstance(par, ast.Call) else 'expression'
            fake = ast.Assign(targets=[ast.Name(id='_', ctx=ast.Store())], value=n, lineno=n.lineno, col_offset=n.col_offset)
            out.setdefault(f'<argument of {where}>', []).append((k, fake))
    return out


def _local_defs(fn, lineno):
    """name -> value for names whose reaching definition at `lineno` is an earlier sibling statement `name = value` of the innermost
    block containing that line, with no other store to the name in between."""
    out = {}

    def blocks(node):
        for f in ('body', 'orelse', 'finalbody'):
            b = getattr(node, f, None)
            if isinstance(b, list) and b and isinstance(b[0], ast.stmt):
                yield b
        for h in getattr(node, 'handlers', []) or []:
            yield h.body

    def find(stmts):
        for i, st in enumerate(stmts):
            if st.lineno <= lineno <= getattr(st, 'end_lineno', st.lineno):
                for b in blocks(st):
                    if b[0].lineno <= lineno <= getattr(b[-1], 'end_lineno', b[-1].lineno):
                        r = find(b)
                        if r is not None:
                            return r
                return stmts, i
        return None
    hit = find(fn.body)
    if hit is None:
        return out
    stmts, i = hit
    killed = set()
    for st in reversed(stmts[:i]):
        st_stores = {n.id for n in ast.walk(st) if isinstance(n, ast.Name) and isinstance(n.ctx, ast.Store)}
        if isinstance(st, ast.Assign) and len(st.targets) == 1 and isinstance(st.targets[0], ast.Name):
            k = st.targets[0].id
            if k not in killed and k not in out:
                out[k] = st.value
        killed |= st_stores
    return out


def _norm_expr(text, fn, lineno=None):
    """Normal form of a data-dependent dtype expression, so that two spellings of the same lookup compare equal: local names
    assigned exactly once in the function are replaced by their value, `{k: v(k) for k in X}[i]` becomes v(i) and
    `(A if c else B)[i]` becomes `A[i] if c else B[i]`."""
    try:
        node = ast.parse(text, mode='eval').body
    except SyntaxError:
        return text
    stores, vals = {}, {}
    for n in ast.walk(fn):
        if isinstance(n, ast.Name) and isinstance(n.ctx, ast.Store):
            stores[n.id] = stores.get(n.id, 0) + 1
        if isinstance(n, ast.Assign) and len(n.targets) == 1 and isinstance(n.targets[0], ast.Name):
            vals.setdefault(n.targets[0].id, []).append(n.value)
    for c in ast.walk(fn):
        if isinstance(c, (ast.ListComp, ast.SetComp, ast.GeneratorExp, ast.DictComp)):
            for g in c.generators:
                for t in ast.walk(g.target):
                    if isinstance(t, ast.Name):
                        stores[t.id] = stores.get(t.id, 0) - 1       # comprehension variables are not function locals
    defs = {k: v[0] for k, v in vals.items() if len(v) == 1 and stores.get(k) == 1}
    if lineno is not None:
        for k, v in _local_defs(fn, lineno).items():
            defs.setdefault(k, v)

    class N(ast.NodeTransformer):
        depth = 0

        def visit_Name(self, n):
            if isinstance(n.ctx, ast.Load) and n.id in defs and self.depth < 8:
                self.depth += 1
                r = self.visit(clone(defs[n.id]))
                self.depth -= 1
                return r
            return n

        def visit_Subscript(self, n):
            n = self.generic_visit(n)
            v = n.value
            if isinstance(v, ast.DictComp) and len(v.generators) == 1 and not v.generators[0].ifs and isinstance(v.generators[0].target, ast.Name) \
                    and isinstance(v.key, ast.Name) and v.key.id == v.generators[0].target.id:
                k = v.key.id
                idx = n.slice

                class S(ast.NodeTransformer):
                    def visit_Name(s_, m):
                        return clone(idx) if m.id == k and isinstance(m.ctx, ast.Load) else m
                return S().visit(clone(v.value))
            if isinstance(v, ast.IfExp):
                return ast.IfExp(test=v.test, body=ast.Subscript(value=v.body, slice=n.slice, ctx=ast.Load()),
                                 orelse=ast.Subscript(value=v.orelse, slice=n.slice, ctx=ast.Load()))
            return n
    out = N().visit(clone(node))
    out = N().visit(out)          # a second pass: the substitutions can expose another redex
    return unparse(ast.fix_missing_locations(out))


_REF_CACHE = {}


def _ref_functions(rel):
    if rel not in _REF_CACHE:
        p = os.path.join(REFDIR, rel.replace('/', '__'))
        fns = {}
        if os.path.isfile(p):
            with open(p, encoding='utf-8') as f:
                try:
                    fns = _functions(ast.parse(f.read()))
                except SyntaxError:
                    fns = {}
        _REF_CACHE[rel] = fns
    return _REF_CACHE[rel]


def element_type_rule(chk, files, rule, scope_of):
    n_sites = 0
    for rel in files:
        if not chk.src.exists(rel):
            continue
        ref = _ref_functions(rel)
        cur = _functions(chk.src.tree(rel))
        scope = scope_of(rel)
        for q in sorted(scope):
            if q not in cur or q not in ref:
                continue
            ca, ra = allocations(cur[q]), allocations(ref[q])
            for name in sorted(set(ca) & set(ra)):
                ck, rk = [k for k, _ in ca[name]], [k for k, _ in ra[name]]
                if len(ck) != len(rk):
                    continue
                for i, (a, b) in enumerate(zip(ck, rk)):
                    n_sites += 1
                    node = ca[name][i][1]
                    if a != b and a.startswith('expr:') and b.startswith('expr:') and _norm_expr(a[5:], cur[q], node.lineno) == _norm_expr(b[5:], ref[q], ra[name][i][1].lineno):
                        a = b
                    chk.check(a == b, rule, rel, q, f'{name}: element type {b}', unparse(node.value)[:60],
                              f'{name} = {unparse(node.value)[:70]}: element type is now {a}, reviewed {b} ({unparse(ra[name][i][1].value)[:60]}): '
                              'values stored in it are converted (rounded, truncated, wrapped or widened) on the way through', node=node, nontrivial=False)
    return n_sites
