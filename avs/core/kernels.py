"""Driver: run the bounds prover on kernels, with contracts and helper inlining."""
import ast

from .bounds_stmt import KernelS
from .srcmodel import deco_info, AnalysisError, dotted
from .absval import Int, Opaque, Arr
from .lin import Lin


def _const_int(e, assigns, depth=0):
    """Integer value of +, -, * arithmetic over literals and module-level names bound (once) to such expressions, else None."""
    if depth > 6:
        return None
    if isinstance(e, ast.Constant) and type(e.value) is int:
        return e.value
    if isinstance(e, ast.Name) and e.id in assigns:
        return _const_int(assigns[e.id], assigns, depth + 1)
    if isinstance(e, ast.BinOp) and isinstance(e.op, (ast.Add, ast.Sub, ast.Mult)):
        a, b = _const_int(e.left, assigns, depth + 1), _const_int(e.right, assigns, depth + 1)
        if a is None or b is None:
            return None
        return a + b if isinstance(e.op, ast.Add) else (a - b if isinstance(e.op, ast.Sub) else a * b)
    return None


def module_consts(src, rel):
    """Module-level constant tables: name -> abstract value (integer scalars, literal arrays)."""
    out = {}
    for name, val in src.module_assigns(rel).items():
        v = val
        if isinstance(v, ast.Call) and dotted(v.func) in ('np.array', 'np.asarray') and v.args \
                and isinstance(v.args[0], (ast.List, ast.Tuple)):
            a = Arr(name, [Lin.const(len(v.args[0].elts))])
            out[name] = a
        elif isinstance(v, ast.Call) and dotted(v.func) in ('np.array', 'np.asarray') and v.args and isinstance(v.args[0], (ast.ListComp, ast.GeneratorExp)) \
                and len(v.args[0].generators) == 1 and not v.args[0].generators[0].ifs and isinstance(v.args[0].generators[0].iter, ast.Call) \
                and dotted(v.args[0].generators[0].iter.func) == 'range' and len(v.args[0].generators[0].iter.args) == 1 \
                and isinstance(v.args[0].generators[0].iter.args[0], ast.Constant) and type(v.args[0].generators[0].iter.args[0].value) is int:
            # a table built by a comprehension over range(<literal>): that many entries
            out[name] = Arr(name, [Lin.const(max(0, v.args[0].generators[0].iter.args[0].value))])
        elif isinstance(v, ast.Call) and dotted(v.func) in ('np.zeros', 'np.ones', 'np.empty') and v.args and _const_int(v.args[0], src.module_assigns(rel)) is not None:
            # an allocation whose length is integer arithmetic over module-level integer constants (np.ones(MAX + 1))
            out[name] = Arr(name, [Lin.const(max(0, _const_int(v.args[0], src.module_assigns(rel))))])
        elif isinstance(v, ast.Call) and dotted(v.func) in ('np.array', 'np.asarray', 'np.zeros', 'np.ones', 'np.empty', 'np.arange', 'np.linspace', 'np.cumprod', 'np.cumsum'):
            # a module-level table whose length is not a literal: an array of unknown length (every subscript of it is an obligation -- it used
            # to be no value at all, so the accesses were silently not analysed: seed C11g)
            d_ = Lin.sym(f'{name}.s0')
            out[name] = Arr(name, [d_])
        elif isinstance(v, ast.Constant) and isinstance(v.value, int) and not isinstance(v.value, bool):
            out[name] = Int(v.value)
        elif isinstance(v, ast.Call) and dotted(v.func).startswith('np.') and len(v.args) == 1 \
                and isinstance(v.args[0], ast.Constant) and isinstance(v.args[0].value, int):
            out[name] = Int(v.args[0].value)
    return out


def tiny_helpers(src, rel):
    """Functions whose body is only if/return/assign on scalars (e.g. _rightwrap): inlined by summary."""
    out = {}
    for q, fn in src.functions(rel).items():
        if '.' in q:
            continue
        ok = True
        n = 0
        for node in ast.walk(fn):
            n += 1
            if isinstance(node, (ast.For, ast.While, ast.Subscript, ast.With, ast.Try, ast.Call)):
                ok = False
        if ok and n < 60 and any(isinstance(x, ast.Return) for x in ast.walk(fn)):
            out[fn.name] = fn
    return out


def kernel_names(src, rel):
    """qualified names of all numba-decorated functions in a file."""
    return [q for q, fn in src.functions(rel).items() if deco_info(fn)['njit']]


def analyse(src, rel, qualname, contracts, extra_helpers=None):
    contract = contracts.get(f'{rel}:{qualname}') or contracts.get(f'{rel}:{qualname.split(".")[-1]}') or {}
    helpers = tiny_helpers(src, rel)
    if extra_helpers:
        helpers.update(extra_helpers)
    alts = contract.get('alternatives')
    if not alts:
        k = _run2(src, rel, qualname, contract, helpers)
        return k
    # the precondition is a disjunction: analyse once per alternative, keep the worst verdict per access
    rank = {'PROVEN': 0, 'ASSUMED': 1, 'UNKNOWN': 2, 'REFUTED': 3}
    first = None
    for extra in alts:
        c = dict(contract)
        c['requires'] = list(contract.get('requires', [])) + list(extra)
        c.pop('alternatives')
        k = _run2(src, rel, qualname, c, helpers)
        if first is None:
            first = k
        else:
            for key, a in k.accesses.items():
                o = first.accesses.get(key)
                if o is None or rank[a.verdict] > rank[o.verdict]:
                    first.accesses[key] = a
            first.calls.extend(k.calls)
    return first


def _run2(src, rel, qualname, contract, helpers):
    """Two passes: the first collects value bounds of every store into local integer arrays; if all stores
    of an array share bounds, reads in the second pass get them (array content invariant)."""
    k = KernelS(src, rel, qualname, contract, helpers, module_consts(src, rel))
    k.run()
    content = {}
    for name, recs in k.content_out.items():
        if not recs:
            continue
        lo = Lin.const(0) if all(r[0] for r in recs) else None
        his = None
        for _, h in recs:
            hs = {repr(x): x for x in h}
            his = hs if his is None else {kk: v for kk, v in his.items() if kk in hs}
        hi = next(iter(his.values())) if his else None
        if lo is not None or hi is not None:
            content[name] = (lo, hi, f'every store into {name} has these bounds; each element is written before it is read (same block table in both passes)')
    if content:
        k2 = KernelS(src, rel, qualname, contract, helpers, module_consts(src, rel))
        k2.content_in = content
        k2.run()
        k = k2
    finalize(k)
    return k


def finalize(k):
    """Post-process verdicts that depend on lemma side conditions (search cursors)."""
    cur_reasons = k.contract.get('cursor_reasons', {})
    for acc in k.accesses.values():
        if acc.verdict == 'ASSUMED' and '__cursor_unguarded__' in acc.detail:
            parts = [p for p in acc.detail.split('; ')]
            bad = [p.split(':', 1)[1] for p in parts if p.startswith('__cursor_unguarded__')]
            rest = [p for p in parts if not p.startswith('__cursor_unguarded__')]
            reasons = []
            refuted = None
            for b in bad:
                E = k.cursors[b]['E']
                if E in cur_reasons:
                    reasons.append(cur_reasons[E])
                else:
                    refuted = (b, E)
            if refuted:
                b, E = refuted
                acc.verdict = 'REFUTED'
                acc.detail = (f'search loop "while X > {E}[{b}+1]: {b} += 1" is not dominated by the exit test '
                              f'"X >= {E}[-1]" in the same iteration, so {b}+1 can reach len({E})')
                acc.witness = {'X': f'> {E}[-1]'}
            else:
                acc.detail = '; '.join(rest + reasons)
    for b, cur in k.cursors.items():
        if cur.get('ok') and cur.get('init_ok') is False:
            for acc in k.accesses.values():
                if acc.array == cur['E'] and f'{b} + 1' in acc.text and acc.verdict in ('PROVEN', 'ASSUMED'):
                    acc.verdict = 'UNKNOWN'
                    acc.detail = f'cursor invariant needs len({cur["E"]}) >= 2 at initialisation'


# ---------------------------------------------------------------------------------------------
# Reference set: (file, function, array, axis) triples whose accesses were all decided (PROVEN or
# ASSUMED) on the reviewed tree.  An access to such an array that can no longer be decided is a
# *lost proof* (a guard was removed, a bound changed) and is reported as a violation; an undecided
# access to an array the analyser has never discharged is an analysis error (exit 2).
import json as _json
import os as _os

_REF_PATH = _os.path.join(_os.path.dirname(_os.path.dirname(_os.path.abspath(__file__))), 'spec', 'bounds_reference.json')
_ref_cache = None


def reference():
    global _ref_cache
    if _ref_cache is None:
        try:
            with open(_REF_PATH) as f:
                _ref_cache = {tuple(x) for x in _json.load(f)}
        except OSError:
            _ref_cache = set()
    return _ref_cache


def add_bounds_obligations(chk, rule, rel, q, contracts, k=None):
    """Run the bounds prover on one kernel and register one obligation per (array, axis, index)."""
    if k is None:
        k = analyse(chk.src, rel, q, contracts)
    ref = reference()
    n = 0
    for a in k.accesses.values():
        verdict, detail = a.verdict, a.detail
        if verdict == 'UNKNOWN' and (rel, q, a.array, a.axis) in ref:
            verdict = 'REFUTED'
            detail = (f'lost proof: accesses to {a.array} (axis {a.axis}) in {q} were all within bounds on the reviewed tree, '
                      f'but {a.text} can no longer be shown to stay inside the array ({a.detail})')
        chk.add(rule, rel, q, a.key, verdict, detail, line=a.line, witness=a.witness)
        n += 1
    return k, n


def make_reference(src, files, contracts):
    out = set()
    for rel in files:
        for q in kernel_names(src, rel):
            k = analyse(src, rel, q, contracts)
            per = {}
            for a in k.accesses.values():
                per.setdefault((a.array, a.axis), []).append(a.verdict)
            for (arr, ax), vs in per.items():
                if all(v in ('PROVEN', 'ASSUMED') for v in vs):
                    out.add((rel, q, arr, ax))
    with open(_REF_PATH, 'w') as f:
        _json.dump(sorted(out), f, indent=0)
    return out


# ---------------------------------------------------------------------------------------------
# Call-site obligations: a kernel that calls another kernel must establish the callee's contract.
def callsite_obligations(chk, rule, rel, q, contracts, k):
    """For every recorded call from kernel k to a function that has a contract: each `requires`
    clause of the callee, with the actual arguments substituted, is PROVEN from the caller's state or
    ASSUMED (value-dependent caller fact) -- REFUTED when an exact witness shows it can fail."""
    from .absval import Arr, Int, NoneV, Opaque
    from . import prove as _prove
    n = 0
    seen = set()
    for cn, node, args, kws, st in k.calls:
        base = cn.split('.')[-1]
        target = None
        for key in contracts:
            f, _, name = key.partition(':')
            if name.split('.')[-1] == base and (f == rel or cn.count('.') >= 1 or True):
                if src_has(chk.src, f, name):
                    target = key
                    if f == rel:
                        break
        if target is None:
            continue
        c = contracts[target]
        tf, _, tname = target.partition(':')
        fn = chk.src.func(tf, tname)
        params = [a.arg for a in fn.args.args]
        if params and params[0] == 'self':
            params = params[1:]
        binding = dict(zip(params, args))
        binding.update(kws)
        clauses = list(c.get('requires', []))
        for alt in c.get('alternatives', [])[:1]:
            pass      # disjunctive clauses are not checked at call sites
        for txt, reason in clauses:
            key = f'call {base}(...) establishes "{txt}"'
            if (node.lineno, txt) in seen:
                continue
            seen.add((node.lineno, txt))
            sub = st.copy()
            for p, v in binding.items():
                sub.env[p] = v
            try:
                cond = k.cond(ast.parse(txt, mode='eval').body, sub, quiet=True)
            except Exception:
                cond = None
            names = {x.id for x in ast.walk(ast.parse(txt, mode='eval')) if isinstance(x, ast.Name)} - {'len'}
            if any(isinstance(binding.get(nm), NoneV) for nm in names):
                chk.add(rule, rel, q, key, 'PROVEN', 'argument is None at this call: clause vacuous', node=node, nontrivial=False)
                n += 1
                continue
            if cond is None or cond.tf is None or any(nm not in binding for nm in names):
                chk.add(rule, rel, q, key, 'ASSUMED', f'not a structural fact at this call site ({reason})', node=node)
                n += 1
                continue
            if all(_prove.entails_ge(sub, l) for l in cond.tf):
                chk.add(rule, rel, q, key, 'PROVEN', f'entailed by the caller state at line {node.lineno}', node=node)
            else:
                chk.add(rule, rel, q, key, 'ASSUMED', f'value-dependent at this call site ({reason})', node=node)
            n += 1
    return n


def src_has(src, rel, name):
    try:
        src.func(rel, name)
        return True
    except Exception:
        return False
