"""Tiny partial evaluator over strings / booleans / lists of strings for the catalog-reader
bookkeeping functions: collects which table columns a function reads, removes or adds under a
given configuration (flag values substituted, f-string keys folded)."""
import ast

from .srcmodel import fold_str, unparse, dotted


class KeyCollector:
    def __init__(self, table_expr='self.halos'):
        self.table = table_expr
        self.reads = []      # (key, node)
        self.removes = []
        self.adds = []
        self.unknown_keys = []
        self.list_adds = []  # (list variable, key, [unknown enclosing tests], node)
        self.guards = []

    def run(self, fn, env):
        self.env = dict(env)
        self.block(fn.body)
        return self

    # -- values ---------------------------------------------------------------
    def val(self, n):
        s = fold_str(n, {k: v for k, v in self.env.items() if isinstance(v, str)})
        if s is not None:
            return s
        if isinstance(n, ast.Constant):
            return n.value
        if isinstance(n, ast.Name):
            return self.env.get(n.id, None) if n.id in self.env else None
        if isinstance(n, (ast.List, ast.Tuple)):
            items = [self.val(e) for e in n.elts]
            return items if all(isinstance(i, str) for i in items) else None
        if isinstance(n, ast.Dict) and n.keys and all(k is not None for k in n.keys):
            ks, vs = [self.val(k) for k in n.keys], [self.val(v) for v in n.values]
            if all(isinstance(k, str) for k in ks) and all(isinstance(v, str) for v in vs):
                return dict(zip(ks, vs))
            return None
        if isinstance(n, ast.Call) and isinstance(n.func, ast.Attribute) and n.func.attr in ('items', 'keys', 'values') and not n.args:
            d = self.val(n.func.value)
            if isinstance(d, dict):
                return [list(kv) for kv in d.items()] if n.func.attr == 'items' else list(getattr(d, n.func.attr)())
            return None
        if isinstance(n, ast.UnaryOp) and isinstance(n.op, ast.Not):
            v = self.val(n.operand)
            return (not v) if isinstance(v, bool) else None
        if isinstance(n, ast.BoolOp):
            vs = [self.val(v) for v in n.values]
            if isinstance(n.op, ast.And):
                if any(v is False for v in vs):
                    return False
                return True if all(v is True for v in vs) else None
            if any(v is True for v in vs):
                return True
            return False if all(v is False for v in vs) else None
        if isinstance(n, ast.Compare) and len(n.ops) == 1 and isinstance(n.ops[0], (ast.Is, ast.IsNot)) \
                and isinstance(n.comparators[0], ast.Constant) and n.comparators[0].value is None \
                and isinstance(n.left, ast.Name) and self.env.get(n.left.id) is not None:
            return isinstance(n.ops[0], ast.IsNot)
        if isinstance(n, ast.Compare) and len(n.ops) == 1:
            a, b = self.val(n.left), self.val(n.comparators[0])
            if isinstance(n.ops[0], ast.In) and isinstance(a, str) and isinstance(b, (list, str)):
                return a in b
            if isinstance(n.ops[0], ast.NotIn) and isinstance(a, str) and isinstance(b, (list, str)):
                return a not in b
            if isinstance(n.ops[0], ast.Eq) and isinstance(a, str) and isinstance(b, str):
                return a == b
        return None

    # -- walk -----------------------------------------------------------------
    def block(self, stmts):
        for s in stmts:
            self.stmt(s)

    def scan(self, node):
        """Record table accesses inside an expression/statement (keys folded with the current env)."""
        for n in ast.walk(node):
            if isinstance(n, ast.Subscript) and unparse(n.value) == self.table and not isinstance(n.slice, ast.Slice):
                k = self.val(n.slice)
                if isinstance(k, str):
                    self.reads.append((k, n))
                elif isinstance(k, list):
                    self.reads.extend((x, n) for x in k)
                else:
                    self.unknown_keys.append((unparse(n.slice), n))
            elif isinstance(n, ast.Call) and isinstance(n.func, ast.Attribute) and unparse(n.func.value) == self.table:
                if n.func.attr in ('remove_column', 'remove_columns') and n.args:
                    k = self.val(n.args[0])
                    if isinstance(k, str):
                        self.removes.append((k, n))
                    elif isinstance(k, list):
                        self.removes.extend((x, n) for x in k)
                    else:
                        self.unknown_keys.append((unparse(n.args[0]), n))
                elif n.func.attr in ('add_column', 'replace_column'):
                    name = [kw.value for kw in n.keywords if kw.arg == 'name']
                    if n.func.attr == 'replace_column' and n.args:
                        name = [n.args[0]]
                    k = self.val(name[0]) if name else None
                    if isinstance(k, str):
                        self.adds.append((k, n))
                elif n.func.attr == 'rename_column' and len(n.args) == 2:
                    a, b = self.val(n.args[0]), self.val(n.args[1])
                    if isinstance(a, str):
                        self.removes.append((a, n))
                    if isinstance(b, str):
                        self.adds.append((b, n))

    def residual(self, test):
        """`a and b` with a known to be True is the test b (and dually for `or` with a known False operand)."""
        if isinstance(test, ast.BoolOp):
            keep = []
            for v in test.values:
                c = self.val(v)
                if isinstance(test.op, ast.And) and c is True:
                    continue
                if isinstance(test.op, ast.Or) and c is False:
                    continue
                keep.append(v)
            if len(keep) == 1:
                return self.residual(keep[0])
        return test

    def stmt(self, s):
        if isinstance(s, ast.If):
            c = self.val(s.test)
            self.scan(s.test)
            if c is None:
                r = self.residual(s.test)
                if r is not s.test:
                    s = ast.If(test=r, body=s.body, orelse=s.orelse)
            if c is True:
                self.block(s.body)
            elif c is False:
                self.block(s.orelse)
            else:
                lv = self.val(s.test.left) if isinstance(s.test, ast.Compare) else None
                self.guards.append((s.test, True, lv))
                self.block(s.body)
                self.guards[-1] = (s.test, False, lv)
                self.block(s.orelse)
                self.guards.pop()
            return
        if isinstance(s, ast.For):
            it = self.val(s.iter)
            self.scan(s.iter)
            if isinstance(it, list) and isinstance(s.target, ast.Tuple) and all(isinstance(e, ast.Name) for e in s.target.elts) \
                    and all(isinstance(x, list) and len(x) == len(s.target.elts) for x in it):
                for x in it:
                    for e, y in zip(s.target.elts, x):
                        self.env[e.id] = y
                    self.block(s.body)
                for e in s.target.elts:
                    self.env.pop(e.id, None)
            elif isinstance(it, (list, str)) and isinstance(s.target, ast.Name):
                saved = self.env.get(s.target.id)
                for x in it:
                    self.env[s.target.id] = x
                    self.block(s.body)
                if saved is None:
                    self.env.pop(s.target.id, None)
                else:
                    self.env[s.target.id] = saved
            else:
                self.block(s.body)
            return
        if isinstance(s, (ast.While, ast.With)):
            self.block(s.body)
            return
        if isinstance(s, ast.Assign) and len(s.targets) == 1 and isinstance(s.targets[0], ast.Name):
            v = self.val(s.value)
            if isinstance(v, (str, list, bool, dict)):
                self.env[s.targets[0].id] = v
            else:
                self.env.pop(s.targets[0].id, None)
                if isinstance(s.value, (ast.DictComp, ast.ListComp)):
                    self.comp(s.value)
                    return
            self.scan(s.value)
            return
        if isinstance(s, ast.Assign) and len(s.targets) == 1 and isinstance(s.targets[0], ast.Subscript) and isinstance(s.targets[0].value, ast.Name) \
                and isinstance(self.env.get(s.targets[0].value.id), dict):
            k, v = self.val(s.targets[0].slice), self.val(s.value)
            if isinstance(k, str) and isinstance(v, str):
                self.env[s.targets[0].value.id] = dict(self.env[s.targets[0].value.id], **{k: v})
            self.scan(s.value)
            return
        if isinstance(s, ast.AugAssign) and isinstance(s.target, ast.Name) and isinstance(s.op, ast.Add):
            cur, v = self.env.get(s.target.id), self.val(s.value)
            if isinstance(v, list):
                for k in v:
                    self.list_adds.append((s.target.id, k, list(self.guards), s))
            if isinstance(cur, list) and isinstance(v, list):
                self.env[s.target.id] = cur + v
            self.scan(s.value)
            return
        if isinstance(s, ast.Expr) and isinstance(s.value, ast.Call) and isinstance(s.value.func, ast.Attribute) and isinstance(s.value.func.value, ast.Name) \
                and s.value.func.attr in ('append', 'extend') and len(s.value.args) == 1 and not s.value.keywords:
            # lst.append(x) / lst.extend([x, y]) are lst += [x] / lst += [x, y]
            arg = s.value.args[0]
            v = self.val(arg)
            if s.value.func.attr == 'append':
                v = [v] if isinstance(v, str) else None
            cur = self.env.get(s.value.func.value.id)
            if isinstance(v, list):
                for k in v:
                    self.list_adds.append((s.value.func.value.id, k, list(self.guards), s))
                if isinstance(cur, list):
                    self.env[s.value.func.value.id] = cur + v
            self.scan(arg)
            return
        if isinstance(s, ast.Expr) and isinstance(s.value, (ast.DictComp, ast.ListComp)):
            self.comp(s.value)
            return
        for n in ast.walk(s):
            if isinstance(n, (ast.DictComp, ast.ListComp)):
                self.comp(n)
        self.scan(s)

    def comp(self, c):
        g = c.generators[0]
        it = self.val(g.iter)
        if isinstance(it, list) and isinstance(g.target, ast.Tuple) and all(isinstance(e, ast.Name) for e in g.target.elts) \
                and all(isinstance(x, list) and len(x) == len(g.target.elts) for x in it):
            for x in it:
                for e, y in zip(g.target.elts, x):
                    self.env[e.id] = y
                for part in ([c.key, c.value] if isinstance(c, ast.DictComp) else [c.elt]):
                    self.scan(part)
            for e in g.target.elts:
                self.env.pop(e.id, None)
            return
        if isinstance(it, list) and isinstance(g.target, ast.Name):
            for x in it:
                self.env[g.target.id] = x
                for part in ([c.key, c.value] if isinstance(c, ast.DictComp) else [c.elt]):
                    self.scan(part)
            self.env.pop(g.target.id, None)
        else:
            self.scan(c)
