"""Undo pure renames of local variables / parameters before the structural rules look at a function.

Several rules recognise idioms by the names the reviewed source uses (gstart, hstart, keep, ...).  A
behaviour-preserving rename of such a local must not raise an alarm.  For every function that also
exists in the reviewed snapshot (avs/spec/refsrc/) the current body is aligned with the reviewed body
statement by statement (shapes with identifiers masked, difflib alignment); an identifier of the
current function that (a) does not occur in the reviewed function at all and (b) corresponds, in every
aligned occurrence, to one and the same reviewed identifier that does not occur in the current function,
is renamed back -- by substitution at the token positions, so line numbers are preserved.  Identifiers
that exist in the reviewed function are never touched, so swapping or misusing existing variables (what
a defect does) is never masked; the snapshot is used for nothing but this renaming."""
import ast
import difflib
import os

REFDIR = os.path.join(os.path.dirname(os.path.dirname(os.path.abspath(__file__))), 'spec', 'refsrc')


def _functions(tree):
    out = {}

    def visit(node, prefix):
        for ch in ast.iter_child_nodes(node):
            if isinstance(ch, (ast.FunctionDef, ast.AsyncFunctionDef)):
                q = prefix + ch.name
                out.setdefault(q, ch)
                visit(ch, q + '.')
            elif isinstance(ch, ast.ClassDef):
                visit(ch, prefix + ch.name + '.')
            elif isinstance(ch, (ast.If, ast.For, ast.While, ast.With, ast.Try)):
                visit(ch, prefix)
    visit(tree, '')
    return out


def _mdump(node):
    """ast.dump with identifiers masked (no deep copies)."""
    if isinstance(node, ast.Name):
        return 'N'
    if isinstance(node, ast.arg):
        return 'A'
    if isinstance(node, ast.AST):
        parts = [type(node).__name__]
        for f in node._fields:
            v = getattr(node, f, None)
            if f in ('ctx', 'type_comment', 'annotation', 'kind'):
                continue
            parts.append(_mdump(v))
        return '(' + ' '.join(parts) + ')'
    if isinstance(node, list):
        return '[' + ' '.join(_mdump(x) for x in node) + ']'
    return repr(node)


def _units(fn):
    """Flattened units of a function: simple statements, and the headers of compound statements."""
    out = []

    def rec(stmts):
        for s in stmts:
            if isinstance(s, (ast.FunctionDef, ast.AsyncFunctionDef, ast.ClassDef)):
                continue
            if isinstance(s, ast.If):
                out.append(('if', [s.test]))
                rec(s.body)
                rec(s.orelse)
            elif isinstance(s, ast.For):
                out.append(('for', [s.target, s.iter]))
                rec(s.body)
                rec(s.orelse)
            elif isinstance(s, ast.While):
                out.append(('while', [s.test]))
                rec(s.body)
            elif isinstance(s, ast.With):
                out.append(('with', [i.context_expr for i in s.items] + [i.optional_vars for i in s.items if i.optional_vars is not None]))
                rec(s.body)
            elif isinstance(s, ast.Try):
                rec(s.body)
                for h in s.handlers:
                    rec(h.body)
                rec(s.finalbody)
            else:
                out.append((type(s).__name__, [s]))
    out.append(('args', [fn.args]))
    rec(fn.body)
    return out


def _shape(unit):
    kind, nodes = unit
    return kind + '|' + '|'.join(_mdump(n) for n in nodes)


def _names_in_order(unit):
    out = []
    for n in unit[1]:
        for x in ast.walk(n):
            if isinstance(x, ast.Name):
                out.append((getattr(x, 'lineno', 0), getattr(x, 'col_offset', 0), x.id))
            elif isinstance(x, ast.arg):
                out.append((getattr(x, 'lineno', 0), getattr(x, 'col_offset', 0), x.arg))
    out.sort()
    return [n for _, _, n in out]


def _bound(fn):
    """Names bound by fn itself: parameters and assignment / loop / with targets (not in nested defs)."""
    out = {a.arg for a in fn.args.posonlyargs + fn.args.args + fn.args.kwonlyargs}
    if fn.args.vararg:
        out.add(fn.args.vararg.arg)
    if fn.args.kwarg:
        out.add(fn.args.kwarg.arg)
    stack = list(fn.body)
    while stack:
        n = stack.pop()
        if isinstance(n, (ast.FunctionDef, ast.AsyncFunctionDef, ast.ClassDef, ast.Lambda)):
            if isinstance(n, (ast.FunctionDef, ast.AsyncFunctionDef, ast.ClassDef)):
                out.add(n.name)
            continue
        if isinstance(n, ast.Name) and isinstance(n.ctx, (ast.Store, ast.Del)):
            out.add(n.id)
        stack.extend(ast.iter_child_nodes(n))
    return out


def _idents(fn):
    s = set()
    for x in ast.walk(fn):
        if isinstance(x, ast.Name):
            s.add(x.id)
        elif isinstance(x, ast.arg):
            s.add(x.arg)
    return s


def rename_map(cur_fn, ref_fn):
    cu, ru = _units(cur_fn), _units(ref_fn)
    cs, rs = [_shape(u) for u in cu], [_shape(u) for u in ru]
    if cs == rs and [_names_in_order(u) for u in cu] == [_names_in_order(u) for u in ru]:
        return {}
    sm = difflib.SequenceMatcher(a=cs, b=rs, autojunk=False)
    votes = {}
    for i, j, n in sm.get_matching_blocks():
        for k in range(n):
            a, b = _names_in_order(cu[i + k]), _names_in_order(ru[j + k])
            if len(a) != len(b):
                continue
            for x, y in zip(a, b):
                votes.setdefault(x, set()).add(y)
    cur_ids, ref_ids = _idents(cur_fn), _idents(ref_fn)
    cur_bound, ref_bound = _bound(cur_fn), _bound(ref_fn)
    m = {}
    for c, targets in votes.items():
        if c in ref_ids or len(targets) != 1 or c not in cur_bound:
            continue          # free (closure / global) names are never renamed: that could hide a wrong-variable defect
        r = next(iter(targets))
        if r == c or r in cur_ids or r not in ref_bound:
            continue
        m[c] = r
    # injective
    inv = {}
    for c, r in m.items():
        inv.setdefault(r, []).append(c)
    return {c: r for c, r in m.items() if len(inv[r]) == 1}


def canonicalise(rel, text):
    """Return text with pure renames (relative to the reviewed snapshot) undone; unchanged when no snapshot."""
    ref_path = os.path.join(REFDIR, rel.replace('/', '__'))
    if not os.path.isfile(ref_path):
        return text
    try:
        with open(ref_path, encoding='utf-8') as f:
            ref_text = f.read()
        if ref_text == text:
            return text
        cur, ref = ast.parse(text), ast.parse(ref_text)
    except (SyntaxError, OSError):
        return text
    cf, rf = _functions(cur), _functions(ref)
    edits = []      # (lineno, col, end_col, new)
    for q, fn in cf.items():
        if q not in rf:
            continue
        if ast.dump(fn) == ast.dump(rf[q]):
            continue
        # nested functions are handled on their own entry; skip their interior here
        m = rename_map(fn, rf[q])
        if not m:
            continue
        # closures: an inner def / lambda sees the outer name unless it rebinds it itself
        shadow = {}      # id(node) -> set of names not to rename at that node
        for inner in [x for x in ast.walk(fn) if isinstance(x, (ast.FunctionDef, ast.AsyncFunctionDef, ast.Lambda)) and x is not fn]:
            own = {a.arg for a in inner.args.posonlyargs + inner.args.args + inner.args.kwonlyargs}
            body = inner.body if isinstance(inner.body, list) else [inner.body]
            for b in body:
                for x in ast.walk(b):
                    if isinstance(x, ast.Name) and isinstance(x.ctx, ast.Store):
                        own.add(x.id)
            if own & set(m):
                for x in ast.walk(inner):
                    shadow.setdefault(id(x), set()).update(own)
        for x in ast.walk(fn):
            blocked = shadow.get(id(x), ())
            if isinstance(x, ast.Name) and x.id in m and x.id not in blocked and x.lineno == x.end_lineno:
                edits.append((x.lineno, x.col_offset, x.end_col_offset, m[x.id]))
            elif isinstance(x, ast.arg) and x.arg in m and x.arg not in blocked and x.lineno == x.end_lineno:
                edits.append((x.lineno, x.col_offset, x.col_offset + len(x.arg.encode()), m[x.arg]))
    if not edits:
        return text
    lines = text.split('\n')
    for lineno, c0, c1, new in sorted(set(edits), reverse=True):
        b = lines[lineno - 1].encode('utf-8')
        lines[lineno - 1] = (b[:c0] + new.encode('utf-8') + b[c1:]).decode('utf-8')
    return '\n'.join(lines)


def make_snapshot(root, rels):
    os.makedirs(REFDIR, exist_ok=True)
    for rel in rels:
        p = os.path.join(root, rel)
        if os.path.isfile(p):
            with open(p, encoding='utf-8') as f, open(os.path.join(REFDIR, rel.replace('/', '__')), 'w', encoding='utf-8') as g:
                g.write(f.read())
