"""Undo pure renames of local variables / parameters before the structural rules look at a function.

Several rules recognise idioms by the names the reviewed source uses (gstart, hstart, keep, ...).  A
behaviour-preserving rename of such a local must not raise an alarm.  For every function that also
exists in the reviewed snapshot (avs/spec/refsrc/) the current body is aligned with the reviewed body
statement by statement (shapes with identifiers masked, difflib alignment); an identifier of the
current function that (a) does not occur in the reviewed function at all and (b) corresponds, in every
aligned occurrence, to one and the same reviewed identifier that does not occur in the current function,
is renamed back -- by substitution at the token positions, so line numbers are preserved.  Identifiers
that exist in the reviewed function are never touched, so swapping or misusing existing variables (what
a defect does) is never masked; the snapshot is used for nothing but this renaming."""
import ast
import difflib
import os

from .srcmodel import dotted

REFDIR = os.path.join(os.path.dirname(os.path.dirname(os.path.abspath(__file__))), 'spec', 'refsrc')


def _functions(tree):
    out = {}

    def visit(node, prefix):
        for ch in ast.iter_child_nodes(node):
            if isinstance(ch, (ast.FunctionDef, ast.AsyncFunctionDef)):
                q = prefix + ch.name
                out.setdefault(q, ch)
                visit(ch, q + '.')
            elif isinstance(ch, ast.ClassDef):
                visit(ch, prefix + ch.name + '.')
            elif isinstance(ch, (ast.If, ast.For, ast.While, ast.With, ast.Try)):
                visit(ch, prefix)
    visit(tree, '')
    return out


def _mdump(node):
    """ast.dump with identifiers masked (no deep copies)."""
    if isinstance(node, ast.Name):
        return 'N'
    if isinstance(node, ast.arg):
        return 'A'
    if isinstance(node, ast.AST):
        parts = [type(node).__name__]
        for f in node._fields:
            v = getattr(node, f, None)
            if f in ('ctx', 'type_comment', 'annotation', 'kind'):
                continue
            parts.append(_mdump(v))
        return '(' + ' '.join(parts) + ')'
    if isinstance(node, list):
        return '[' + ' '.join(_mdump(x) for x in node) + ']'
    return repr(node)


def _units(fn):
    """Flattened units of a function: simple statements, and the headers of compound statements."""
    out = []

    def rec(stmts):
        for s in stmts:
            if isinstance(s, (ast.FunctionDef, ast.AsyncFunctionDef, ast.ClassDef)):
                continue
            if isinstance(s, ast.If):
                out.append(('if', [s.test]))
                rec(s.body)
                rec(s.orelse)
            elif isinstance(s, ast.For):
                out.append(('for', [s.target, s.iter]))
                rec(s.body)
                rec(s.orelse)
            elif isinstance(s, ast.While):
                out.append(('while', [s.test]))
                rec(s.body)
            elif isinstance(s, ast.With):
                out.append(('with', [i.context_expr for i in s.items] + [i.optional_vars for i in s.items if i.optional_vars is not None]))
                rec(s.body)
            elif isinstance(s, ast.Try):
                rec(s.body)
                for h in s.handlers:
                    rec(h.body)
                rec(s.finalbody)
            else:
                out.append((type(s).__name__, [s]))
    out.append(('args', [fn.args]))
    rec(fn.body)
    return out


def _shape(unit):
    kind, nodes = unit
    return kind + '|' + '|'.join(_mdump(n) for n in nodes)


def _names_in_order(unit):
    out = []
    for n in unit[1]:
        for x in ast.walk(n):
            if isinstance(x, ast.Name):
                out.append((getattr(x, 'lineno', 0), getattr(x, 'col_offset', 0), x.id))
            elif isinstance(x, ast.arg):
                out.append((getattr(x, 'lineno', 0), getattr(x, 'col_offset', 0), x.arg))
    out.sort()
    return [n for _, _, n in out]


def _bound(fn):
    """Names bound by fn itself: parameters and assignment / loop / with targets (not in nested defs)."""
    out = {a.arg for a in fn.args.posonlyargs + fn.args.args + fn.args.kwonlyargs}
    if fn.args.vararg:
        out.add(fn.args.vararg.arg)
    if fn.args.kwarg:
        out.add(fn.args.kwarg.arg)
    stack = list(fn.body)
    while stack:
        n = stack.pop()
        if isinstance(n, (ast.FunctionDef, ast.AsyncFunctionDef, ast.ClassDef, ast.Lambda)):
            if isinstance(n, (ast.FunctionDef, ast.AsyncFunctionDef, ast.ClassDef)):
                out.add(n.name)
            continue
        if isinstance(n, ast.Name) and isinstance(n.ctx, (ast.Store, ast.Del)):
            out.add(n.id)
        stack.extend(ast.iter_child_nodes(n))
    return out


def _idents(fn):
    s = set()
    for x in ast.walk(fn):
        if isinstance(x, ast.Name):
            s.add(x.id)
        elif isinstance(x, ast.arg):
            s.add(x.arg)
    return s


def rename_map(cur_fn, ref_fn):
    cu, ru = _units(cur_fn), _units(ref_fn)
    cs, rs = [_shape(u) for u in cu], [_shape(u) for u in ru]
    if cs == rs and [_names_in_order(u) for u in cu] == [_names_in_order(u) for u in ru]:
        return {}
    sm = difflib.SequenceMatcher(a=cs, b=rs, autojunk=False)
    votes = {}
    for i, j, n in sm.get_matching_blocks():
        for k in range(n):
            a, b = _names_in_order(cu[i + k]), _names_in_order(ru[j + k])
            if len(a) != len(b):
                continue
            for x, y in zip(a, b):
                votes.setdefault(x, set()).add(y)
    cur_ids, ref_ids = _idents(cur_fn), _idents(ref_fn)
    cur_bound, ref_bound = _bound(cur_fn), _bound(ref_fn)
    m = {}
    for c, targets in votes.items():
        if c in ref_ids or len(targets) != 1 or c not in cur_bound:
            continue          # free (closure / global) names are never renamed: that could hide a wrong-variable defect
        r = next(iter(targets))
        if r == c or r in cur_ids or r not in ref_bound:
            continue
        m[c] = r
    # injective
    inv = {}
    for c, r in m.items():
        inv.setdefault(r, []).append(c)
    return {c: r for c, r in m.items() if len(inv[r]) == 1}


def canonicalise(rel, text):
    """Return text with pure renames (relative to the reviewed snapshot) undone; unchanged when no snapshot."""
    ref_path = os.path.join(REFDIR, rel.replace('/', '__'))
    if not os.path.isfile(ref_path):
        return text
    try:
        with open(ref_path, encoding='utf-8') as f:
            ref_text = f.read()
        if ref_text == text:
            return text
        cur, ref = ast.parse(text), ast.parse(ref_text)
    except (SyntaxError, OSError):
        return text
    cf, rf = _functions(cur), _functions(ref)
    edits = []      # (lineno, col, end_col, new)
    for q, fn in cf.items():
        if q not in rf:
            continue
        if ast.dump(fn) == ast.dump(rf[q]):
            continue
        # nested functions are handled on their own entry; skip their interior here
        m = rename_map(fn, rf[q])
        if not m:
            continue
        # closures: an inner def / lambda sees the outer name unless it rebinds it itself
        shadow = {}      # id(node) -> set of names not to rename at that node
        for inner in [x for x in ast.walk(fn) if isinstance(x, (ast.FunctionDef, ast.AsyncFunctionDef, ast.Lambda)) and x is not fn]:
            own = {a.arg for a in inner.args.posonlyargs + inner.args.args + inner.args.kwonlyargs}
            body = inner.body if isinstance(inner.body, list) else [inner.body]
            for b in body:
                for x in ast.walk(b):
                    if isinstance(x, ast.Name) and isinstance(x.ctx, ast.Store):
                        own.add(x.id)
            if own & set(m):
                for x in ast.walk(inner):
                    shadow.setdefault(id(x), set()).update(own)
        for x in ast.walk(fn):
            blocked = shadow.get(id(x), ())
            if isinstance(x, ast.Name) and x.id in m and x.id not in blocked and x.lineno == x.end_lineno:
                edits.append((x.lineno, x.col_offset, x.end_col_offset, m[x.id]))
            elif isinstance(x, ast.arg) and x.arg in m and x.arg not in blocked and x.lineno == x.end_lineno:
                edits.append((x.lineno, x.col_offset, x.col_offset + len(x.arg.encode()), m[x.arg]))
    if not edits:
        return text
    lines = text.split('\n')
    for lineno, c0, c1, new in sorted(set(edits), reverse=True):
        b = lines[lineno - 1].encode('utf-8')
        lines[lineno - 1] = (b[:c0] + new.encode('utf-8') + b[c1:]).decode('utf-8')
    return '\n'.join(lines)


def make_snapshot(root, rels):
    os.makedirs(REFDIR, exist_ok=True)
    for rel in rels:
        p = os.path.join(root, rel)
        if os.path.isfile(p):
            with open(p, encoding='utf-8') as f, open(os.path.join(REFDIR, rel.replace('/', '__')), 'w', encoding='utf-8') as g:
                g.write(f.read())


# ---------------------------------------------------------------------------------------------------
# Trivial copy propagation: `a = b` where b is a parameter (never rebound) or a name bound exactly once by
# a plain top-level assignment of the function, and a is bound exactly once.  Every later read of `a` is a
# read of `b`, so the rules (which recognise idioms by the reviewed names) see through the alias.
def _binding_counts(fn):
    """name -> number of binding occurrences in fn's own scope (parameters count once)."""
    cnt = {}
    a = fn.args
    for x in a.posonlyargs + a.args + a.kwonlyargs + ([a.vararg] if a.vararg else []) + ([a.kwarg] if a.kwarg else []):
        cnt[x.arg] = cnt.get(x.arg, 0) + 1
    stack = list(fn.body)
    while stack:
        n = stack.pop()
        if isinstance(n, (ast.FunctionDef, ast.AsyncFunctionDef, ast.ClassDef)):
            cnt[n.name] = cnt.get(n.name, 0) + 1
            continue
        if isinstance(n, ast.Lambda):
            continue
        if isinstance(n, (ast.Global, ast.Nonlocal)):
            for nm in n.names:
                cnt[nm] = cnt.get(nm, 0) + 100
        if isinstance(n, ast.Name) and isinstance(n.ctx, (ast.Store, ast.Del)):
            cnt[n.id] = cnt.get(n.id, 0) + 1
        if isinstance(n, (ast.Import, ast.ImportFrom)):
            for al in n.names:
                nm = (al.asname or al.name).split('.')[0]
                cnt[nm] = cnt.get(nm, 0) + 1
        if isinstance(n, ast.ExceptHandler) and n.name:
            cnt[n.name] = cnt.get(n.name, 0) + 1
        stack.extend(ast.iter_child_nodes(n))
    return cnt


def _copies(fn):
    cnt = _binding_counts(fn)
    params = {x.arg for x in fn.args.posonlyargs + fn.args.args + fn.args.kwonlyargs}
    top_once = {s.targets[0].id for s in fn.body if isinstance(s, ast.Assign) and len(s.targets) == 1
                and isinstance(s.targets[0], ast.Name) and cnt.get(s.targets[0].id) == 1}
    m = {}

    def visit(stmts, in_loop):
        for s in stmts:
            if isinstance(s, (ast.FunctionDef, ast.AsyncFunctionDef, ast.ClassDef)):
                continue
            if isinstance(s, ast.Assign) and len(s.targets) == 1 and isinstance(s.targets[0], ast.Name) \
                    and isinstance(s.value, ast.Name) and not in_loop:
                a, b = s.targets[0].id, s.value.id
                if a != b and cnt.get(a) == 1 and a not in params and ((b in params and cnt.get(b) == 1) or b in top_once):
                    m[a] = (b, s)
            for f in ('body', 'orelse', 'finalbody'):
                sub = getattr(s, f, None)
                if isinstance(sub, list):
                    visit(sub, in_loop or isinstance(s, (ast.For, ast.While)))
            for h in getattr(s, 'handlers', []) or []:
                visit(h.body, in_loop)
    visit(fn.body, False)
    # resolve chains a -> b -> c
    out = {}
    for a, (b, s) in m.items():
        seen = {a}
        while b in m and b not in seen:
            seen.add(b)
            b = m[b][0]
        out[a] = (b, s)
    return out


def propagate_copies(rel, text):
    """Only aliases that are new relative to the reviewed snapshot are seen through: names the reviewed
    function already uses keep their meaning for the rules."""
    ref_path = os.path.join(REFDIR, rel.replace('/', '__'))
    if not os.path.isfile(ref_path):
        return text
    try:
        with open(ref_path, encoding='utf-8') as f:
            ref_text = f.read()
        if ref_text == text:
            return text
        tree, ref = ast.parse(text), ast.parse(ref_text)
    except (SyntaxError, OSError):
        return text
    rf = _functions(ref)
    edits = []
    blanks = []
    for q, fn in _functions(tree).items():
        m = _copies(fn)
        if m and q in rf:
            ref_ids = _idents(rf[q])
            m = {a: v for a, v in m.items() if a not in ref_ids}
        if not m:
            continue
        shadow = {}
        for inner in [x for x in ast.walk(fn) if isinstance(x, (ast.FunctionDef, ast.AsyncFunctionDef, ast.Lambda)) and x is not fn]:
            own = {a.arg for a in inner.args.posonlyargs + inner.args.args + inner.args.kwonlyargs}
            body = inner.body if isinstance(inner.body, list) else [inner.body]
            for b in body:
                for x in ast.walk(b):
                    if isinstance(x, ast.Name) and isinstance(x.ctx, ast.Store):
                        own.add(x.id)
            # a nested scope that rebinds either side of a copy keeps its own meaning
            bad = {a for a, (b, _) in m.items() if a in own or b in own}
            if bad:
                for x in ast.walk(inner):
                    shadow.setdefault(id(x), set()).update(bad)
        kept = set()
        for x in ast.walk(fn):
            if isinstance(x, ast.Name) and isinstance(x.ctx, ast.Load) and x.id in m:
                b, s = m[x.id]
                if x.id not in shadow.get(id(x), ()) and x.lineno == x.end_lineno and (x.lineno, x.col_offset) > (s.lineno, s.col_offset):
                    edits.append((x.lineno, x.col_offset, x.end_col_offset, b))
                else:
                    kept.add(x.id)
        # the alias statement itself is dead once every read goes to the original: blank it (line numbers are kept)
        parent_block = {}
        for n in ast.walk(fn):
            for f in ('body', 'orelse', 'finalbody'):
                blk = getattr(n, f, None)
                if isinstance(blk, list):
                    for st in blk:
                        parent_block[id(st)] = blk
        for a, (b, s) in m.items():
            blk = parent_block.get(id(s), [])
            if a not in kept and len(blk) > 1 and s.lineno == s.end_lineno:
                src_line = text.split('\n')[s.lineno - 1]
                if src_line.strip() == ast.get_source_segment(text, s):
                    blanks.append(s.lineno)
    if not edits and not blanks:
        return text
    lines = text.split('\n')
    for lineno, c0, c1, new in sorted(set(edits), reverse=True):
        b = lines[lineno - 1].encode('utf-8')
        lines[lineno - 1] = (b[:c0] + new.encode('utf-8') + b[c1:]).decode('utf-8')
    for ln in blanks:
        lines[ln - 1] = ''
    return '\n'.join(lines)


# ---------------------------------------------------------------------------------------------------
# Functions that are equivalent to their reviewed snapshot under the behaviour-preserving rewrites of
# normform.py are analysed in their reviewed form: the reviewed text of the function is spliced in.
def one_sided(cur, ref):
    """Plain module-level functions and methods that exist in only one of the two module trees
    (candidates for inlining): (cur-only functions, ref-only functions, {class: {'self.m': def}} for cur, same for ref)."""
    cmod = {n.name: n for n in cur.body if isinstance(n, ast.FunctionDef)}
    rmod = {n.name: n for n in ref.body if isinstance(n, ast.FunctionDef)}
    co = {k: v for k, v in cmod.items() if k not in rmod}
    ro = {k: v for k, v in rmod.items() if k not in cmod}

    def methods(tree):
        out = {}
        for n in tree.body:
            if isinstance(n, ast.ClassDef):
                out[n.name] = {m.name: m for m in n.body if isinstance(m, ast.FunctionDef)}
        return out
    cm, rm = methods(cur), methods(ref)
    cmeth = {c: {'self.' + k: v for k, v in ms.items() if k not in rm.get(c, {})} for c, ms in cm.items()}
    rmeth = {c: {'self.' + k: v for k, v in ms.items() if k not in cm.get(c, {})} for c, ms in rm.items()}
    return co, ro, {c: v for c, v in cmeth.items() if v}, {c: v for c, v in rmeth.items() if v}


def _module_constants(cur, ref):
    """R34: module-level names the reviewed module does not have, bound once to a literal or to struct.Struct(<literal>),
    are replaced by their value throughout the current tree (in place).  Returns the ids of the function nodes touched."""
    import struct as _struct
    refnames = set()
    for n in ref.body:
        if isinstance(n, ast.Assign):
            refnames |= {t.id for t in n.targets if isinstance(t, ast.Name)}
        elif isinstance(n, (ast.FunctionDef, ast.ClassDef)):
            refnames.add(n.name)
    binds = {}
    for n in cur.body:
        if isinstance(n, ast.Assign) and len(n.targets) == 1 and isinstance(n.targets[0], ast.Name):
            binds.setdefault(n.targets[0].id, []).append(n.value)
    stores = {}
    for n in ast.walk(cur):
        if isinstance(n, ast.Name) and isinstance(n.ctx, (ast.Store, ast.Del)):
            stores[n.id] = stores.get(n.id, 0) + 1
        elif isinstance(n, ast.Global):
            for nm in n.names:
                stores[nm] = stores.get(nm, 0) + 10
    lits, structs = {}, {}
    for k, vs in binds.items():
        if k in refnames or len(vs) != 1 or stores.get(k, 0) != 1 or k.startswith('__'):
            continue
        v = vs[0]
        if isinstance(v, ast.Constant) and isinstance(v.value, (int, float, str, bytes)) and not isinstance(v.value, bool):
            lits[k] = v
        elif isinstance(v, ast.Call) and isinstance(v.func, ast.Attribute) and v.func.attr == 'Struct' and isinstance(v.func.value, ast.Name) \
                and v.func.value.id == 'struct' and len(v.args) == 1 and isinstance(v.args[0], ast.Constant) and isinstance(v.args[0].value, str):
            try:
                _struct.calcsize(v.args[0].value)
                structs[k] = v.args[0].value
            except _struct.error:
                pass
    if not lits and not structs:
        return set()
    touched = set()

    class _T(ast.NodeTransformer):
        def __init__(self):
            self.fn = []

        def visit_FunctionDef(self, n):
            self.fn.append(n)
            self.generic_visit(n)
            self.fn.pop()
            return n

        def mark(self):
            for f in self.fn:
                touched.add(id(f))

        def visit_Call(self, n):
            self.generic_visit(n)
            f = n.func
            if isinstance(f, ast.Attribute) and isinstance(f.value, ast.Name) and f.value.id in structs and f.attr in ('pack', 'unpack', 'unpack_from', 'pack_into'):
                self.mark()
                return ast.Call(func=ast.Attribute(value=ast.Name(id='struct', ctx=ast.Load()), attr=f.attr, ctx=ast.Load()),
                                args=[ast.Constant(structs[f.value.id])] + n.args, keywords=n.keywords)
            return n

        def visit_Attribute(self, n):
            self.generic_visit(n)
            if isinstance(n.value, ast.Name) and n.value.id in structs and n.attr == 'size' and isinstance(n.ctx, ast.Load):
                self.mark()
                return ast.Constant(_struct.calcsize(structs[n.value.id]))
            return n

        def visit_Name(self, n):
            if isinstance(n.ctx, ast.Load) and n.id in lits and self.fn:
                # not when the function rebinds the name locally
                if not any(isinstance(x, ast.Name) and x.id == n.id and isinstance(x.ctx, ast.Store) for x in ast.walk(self.fn[-1])):
                    self.mark()
                    return ast.Constant(lits[n.id].value)
            return n
    _T().visit(cur)
    return touched


def splice_equivalent(rel, text):
    """Returns (text', splices) with splices = [(qualname, canon_lo, canon_hi, orig_lo, orig_hi)] (1-based, inclusive)."""
    ref_path = os.path.join(REFDIR, rel.replace('/', '__'))
    if not os.path.isfile(ref_path):
        return text, []
    try:
        with open(ref_path, encoding='utf-8') as f:
            ref_text = f.read()
        if ref_text == text:
            return text, []
        cur, ref = ast.parse(text), ast.parse(ref_text)
    except (SyntaxError, OSError):
        return text, []
    from . import normform
    normform.NO_DIAGNOSTIC_REMOVAL[0] = rel.endswith('pipe_asdf.py')
    cf, rf = _functions(cur), _functions(ref)
    co, ro, cmeth, rmeth = one_sided(cur, ref)
    touched = _module_constants(cur, ref)
    done = []
    plan = []          # (qualname, cur fn, replacement lines)
    rlines = ref_text.split('\n')
    clines = text.split('\n')

    def seg(fn):
        lo = min([fn.lineno] + [d.lineno for d in fn.decorator_list])
        return lo, fn.end_lineno
    for q in sorted(cf, key=lambda x: (x.count('.'), x)):
        if q not in rf or any(q.startswith(p + '.') for p in done):
            continue
        a, b = cf[q], rf[q]
        la, lb = seg(a), seg(b)
        if clines[la[0] - 1:la[1]] == rlines[lb[0] - 1:lb[1]] and id(a) not in touched:
            continue
        if ast.dump(a) == ast.dump(b):
            if id(a) in touched:
                done.append(q)
                plan.append((q, a, rlines[lb[0] - 1:lb[1]]))
            continue
        try:
            cls = q.rsplit('.', 1)[0] if '.' in q else None
            cfun = dict(co, **cmeth.get(cls, {}))
            rfun = dict(ro, **rmeth.get(cls, {}))
            eq = normform.equivalent(a, b, cfun, rfun)
        except Exception:
            eq = False
        if eq:
            done.append(q)
            rlo, rhi = seg(b)
            plan.append((q, a, rlines[rlo - 1:rhi]))
            continue
        # not equivalent: at least remove what the reviewed function does not have (new locals / helpers / constant loops)
        try:
            out, _ = normform.toward_reviewed(a, b, cfun)
        except Exception:
            out = None
        if out is None and id(a) in touched:
            out = a          # only the module-constant rewrite (R34) applies: analyse the rewritten function
        if out is not None:
            try:
                ast.fix_missing_locations(out)
                txt = ast.unparse(out)
                ast.parse(txt)
            except Exception:
                continue
            pad = ' ' * min([a.col_offset] + [d.col_offset - 1 for d in a.decorator_list if d.col_offset > 0])
            done.append(q)
            plan.append((q, a, [pad + l if l else l for l in txt.split('\n')]))
    if not plan:
        return text, []

    def seg(fn):
        lo = min([fn.lineno] + [d.lineno for d in fn.decorator_list])
        return lo, fn.end_lineno
    lines = text.split('\n')
    plan.sort(key=lambda t: seg(t[1])[0])
    out, pos, splices = [], 1, []
    for q, a, repl in plan:
        lo, hi = seg(a)
        out.extend(lines[pos - 1:lo - 1])
        canon_lo = len(out) + 1
        out.extend(repl)
        splices.append((q, canon_lo, len(out), lo, hi))
        pos = hi + 1
    out.extend(lines[pos - 1:])
    new_text = '\n'.join(out)
    # helpers that exist only in the current module and are no longer called anywhere (they were inlined): blanked
    if co or cmeth:
        try:
            t2 = ast.parse(new_text)
            loads = {n.id for n in ast.walk(t2) if isinstance(n, ast.Name) and isinstance(n.ctx, ast.Load)}
            loads |= {n.attr for n in ast.walk(t2) if isinstance(n, ast.Attribute)}
            exported = set()
            for n in t2.body:
                if isinstance(n, ast.Assign) and any(isinstance(t, ast.Name) and t.id == '__all__' for t in n.targets):
                    exported |= {c.value for c in ast.walk(n.value) if isinstance(c, ast.Constant) and isinstance(c.value, str)}
            ol = new_text.split('\n')
            for n in t2.body:
                # a function whose decorator registers it somewhere (numba.extending.overload(f), a dispatch table) is alive
                registering = any(isinstance(d, ast.Call) and dotted(d.func).split('.')[-1] not in ('njit', 'jit') for d in n.decorator_list) if isinstance(n, ast.FunctionDef) else False
                if isinstance(n, ast.FunctionDef) and n.name in co and n.name not in loads and n.name not in exported and not registering:
                    lo = min([n.lineno] + [d.lineno for d in n.decorator_list])
                    for k in range(lo - 1, n.end_lineno):
                        ol[k] = ''
                if isinstance(n, ast.ClassDef) and n.name in cmeth:
                    for mth in n.body:
                        if isinstance(mth, ast.FunctionDef) and 'self.' + mth.name in cmeth[n.name] and mth.name not in loads and len(n.body) > 1:
                            lo = min([mth.lineno] + [d.lineno for d in mth.decorator_list])
                            for k in range(lo - 1, mth.end_lineno):
                                ol[k] = ''
            new_text = '\n'.join(ol)
        except SyntaxError:
            pass
    return new_text, splices
