"""Bit-provenance domain: a 64-entry vector, each entry 0, 1 or ('b', source, k) = input bit k of `source`.
Covers all input words at once: & | with constants / disjoint vectors, shifts by constants
(arithmetic when the operand is signed), integer casts."""

ZERO, ONE = ('0',), ('1',)
W = 64


class BV:
    __slots__ = ('bits', 'signed')

    def __init__(self, bits, signed=False):
        assert len(bits) == W
        self.bits = tuple(bits)
        self.signed = signed

    @staticmethod
    def const(v):
        v &= (1 << W) - 1
        return BV([ONE if (v >> k) & 1 else ZERO for k in range(W)], False)

    @staticmethod
    def input(src, width, signed):
        bits = [('b', src, k) for k in range(width)]
        fill = ('b', src, width - 1) if signed else ZERO
        bits += [fill] * (W - width)
        return BV(bits, signed)

    def is_const(self):
        return all(b in (ZERO, ONE) for b in self.bits)

    def value(self):
        return sum(1 << k for k, b in enumerate(self.bits) if b == ONE)

    def cast(self, width, signed):
        bits = list(self.bits[:width])
        fill = bits[width - 1] if signed else ZERO
        bits += [fill] * (W - width)
        return BV(bits, signed)

    def __and__(self, o):
        out = []
        for a, b in zip(self.bits, o.bits):
            if a == ZERO or b == ZERO:
                out.append(ZERO)
            elif a == ONE:
                out.append(b)
            elif b == ONE:
                out.append(a)
            elif a == b:
                out.append(a)
            else:
                raise ValueError('AND of two different symbolic bits')
        return BV(out, self.signed and o.signed)

    def __or__(self, o):
        out = []
        for a, b in zip(self.bits, o.bits):
            if a == ONE or b == ONE:
                out.append(ONE)
            elif a == ZERO:
                out.append(b)
            elif b == ZERO:
                out.append(a)
            elif a == b:
                out.append(a)
            else:
                raise ValueError('OR of two different symbolic bits')
        return BV(out, self.signed and o.signed)

    def shr(self, n):
        fill = self.bits[W - 1] if self.signed else ZERO
        return BV(list(self.bits[n:]) + [fill] * min(n, W), self.signed)

    def shl(self, n):
        return BV([ZERO] * min(n, W) + list(self.bits[:W - n]), self.signed)

    # ---- description ------------------------------------------------------
    def field(self):
        """If the vector is 'input bits lo..hi of one source at output position 0' (zero- or
        sign-extended) return (src, lo, hi, signed_ext) else None. Constant -> ('const', value)."""
        if self.is_const():
            return ('const', self.value())
        first = self.bits[0]
        if first[0] != 'b':
            return None
        src, lo = first[1], first[2]
        k = 0
        while k < W and self.bits[k] == ('b', src, lo + k):
            k += 1
        hi = lo + k - 1
        rest = set(self.bits[k:])
        if rest <= {ZERO}:
            return (src, lo, hi, False)
        if rest == {('b', src, hi)}:
            return (src, lo, hi, True)
        return None

    def describe(self):
        """Compact map: list of (out_lo, out_hi, what) runs."""
        runs = []
        k = 0
        while k < W:
            b = self.bits[k]
            j = k
            if b[0] == 'b':
                while j + 1 < W and self.bits[j + 1] == ('b', b[1], b[2] + (j + 1 - k)):
                    j += 1
                if j == k:
                    while j + 1 < W and self.bits[j + 1] == b:
                        j += 1
                    runs.append((k, j, f'{b[1]}[{b[2]}]' + ('(repl)' if j > k else '')))
                else:
                    runs.append((k, j, f'{b[1]}[{b[2]}..{b[2] + j - k}]'))
            else:
                while j + 1 < W and self.bits[j + 1] == b:
                    j += 1
                if b == ONE:
                    runs.append((k, j, '1'))
            k = j + 1
        return runs

    def __eq__(self, o):
        return isinstance(o, BV) and self.bits == o.bits

    def __hash__(self):
        return hash(self.bits)
