"""Discovery of the two-pass (count / fill) structure of GRAND_HOD.gen_cent and gen_sats.
Everything is re-discovered from the stores on each run; nothing is a frozen name table."""
import ast
import re

from .srcmodel import dotted, unparse, walk_no_nested, AnalysisError, names_in, stores_in
from . import own

GH = 'abacusnbody/hod/GRAND_HOD.py'


def idx(sub):
    sl = sub.slice
    return [unparse(e) for e in (sl.elts if isinstance(sl, ast.Tuple) else [sl])]


class Pass2:
    def __init__(self, src, name):
        self.src, self.name = src, name
        self.fn = fn = src.func(GH, name)
        self.problems = []
        loops = own.prange_loops(fn)
        self.count = [l for l in loops if any(isinstance(n, ast.Assign) and isinstance(n.targets[0], ast.Subscript) and unparse(n.targets[0].value) == 'keep'
                                               for n in walk_no_nested(l))]
        self.fill = [l for l in loops if l not in self.count]
        if len(self.count) != 1 or len(self.fill) != 1:
            raise AnalysisError(f'{name}: count/fill passes not recognised ({len(self.count)}/{len(self.fill)})')
        self.count, self.fill = self.count[0], self.fill[0]
        self.tid_c, self.tid_f = self.count.target.id, self.fill.target.id
        self.ci = self._inner(self.count)
        self.fi = self._inner(self.fill)
        self.i_c, self.i_f = self.ci.target.id, self.fi.target.id
        self._markers()
        self._decision()
        self._gstart()
        self._arrays()
        self._fill()
        self._dicts()

    def _inner(self, lp):
        inn = [b for b in lp.body if isinstance(b, ast.For)]
        if len(inn) != 1:
            raise AnalysisError(f'{self.name}: inner host loop not found')
        return inn[0]

    # -- count pass -----------------------------------------------------------
    def _markers(self):
        """marker chain: name -> dict(init=expr text, guard=want flag, incs=[AugAssign nodes])."""
        self.markers = {}
        self.marker_order = []
        for s in self.ci.body:
            if isinstance(s, ast.Assign) and isinstance(s.targets[0], ast.Name) and s.targets[0].id.endswith('_marker'):
                self.markers[s.targets[0].id] = dict(init=unparse(s.value), guard=None, incs=[], block=None, node=s)
                self.marker_order.append(s.targets[0].id)
            if isinstance(s, ast.If) and isinstance(s.test, ast.Name) and s.test.id.startswith('want_'):
                for n in walk_no_nested(s):
                    if isinstance(n, ast.AugAssign) and isinstance(n.target, ast.Name) and n.target.id in self.markers:
                        m = self.markers[n.target.id]
                        m['guard'] = s.test.id
                        m['incs'].append(n)
                        m['block'] = s
        # increments outside a want_ guard
        for n in walk_no_nested(self.ci):
            if isinstance(n, ast.AugAssign) and isinstance(n.target, ast.Name) and n.target.id in self.markers:
                if n not in self.markers[n.target.id]['incs']:
                    self.problems.append((n, f'{n.target.id} is advanced outside its want_ guard'))

    def _decision(self):
        """if randoms[i] <= M: Nout[tid, r, 0] += 1; keep[i] = c  elif ... else keep[i] = 0"""
        def split(t):
            """test -> (decision compare, guard flag or None, other guard compares):
               randoms[i] <= M   |   want_T and randoms[i] <= M   |   want_T and M > M_prev and randoms[i] <= M"""
            if isinstance(t, ast.Compare):
                return t, None, []
            if isinstance(t, ast.BoolOp) and isinstance(t.op, ast.And):
                dec = [v for v in t.values if isinstance(v, ast.Compare) and 'randoms' in unparse(v.left)]
                flags = [v for v in t.values if isinstance(v, ast.Name)]
                others = [v for v in t.values if isinstance(v, ast.Compare) and 'randoms' not in unparse(v.left)]
                if len(dec) == 1 and len(flags) <= 1 and len(dec) + len(flags) + len(others) == len(t.values):
                    return dec[0], (flags[0].id if flags else None), others
            return None, None, []
        chain = [s for s in self.ci.body if isinstance(s, ast.If) and split(s.test)[0] is not None and 'randoms' in unparse(split(s.test)[0].left)]
        if len(chain) != 1:
            raise AnalysisError(f'{self.name}: decision chain not found')
        self.branches = []     # dict(marker, op, lhs, row, code, node)
        c = chain[0]
        self.decision = c
        self.else_code = None
        while True:
            t, guard, extra = split(c.test)
            if t is None:
                raise AnalysisError(f'{self.name}: decision branch test not understood: {unparse(c.test)[:60]}')
            b = dict(marker=unparse(t.comparators[0]), op=type(t.ops[0]).__name__, lhs=unparse(t.left), rows=[], codes=[], node=c, guard=guard, extra=[unparse(x).replace(' ', '') for x in extra])
            for s in c.body:
                if isinstance(s, ast.AugAssign) and isinstance(s.target, ast.Subscript) and unparse(s.target.value) == 'Nout':
                    b['rows'].append((idx(s.target), unparse(s.value), type(s.op).__name__))
                elif isinstance(s, ast.Assign) and isinstance(s.targets[0], ast.Subscript) and unparse(s.targets[0].value) == 'keep':
                    b['codes'].append((idx(s.targets[0]), unparse(s.value)))
                else:
                    self.problems.append((s, 'unexpected statement in a decision branch'))
            self.branches.append(b)
            if len(c.orelse) == 1 and isinstance(c.orelse[0], ast.If):
                c = c.orelse[0]
            else:
                for s in c.orelse:
                    if isinstance(s, ast.Assign) and isinstance(s.targets[0], ast.Subscript) and unparse(s.targets[0].value) == 'keep':
                        self.else_code = (idx(s.targets[0]), unparse(s.value))
                    else:
                        self.problems.append((s, 'unexpected statement in the final else'))
                break

    # -- prefix sums ----------------------------------------------------------
    def _gstart(self):
        fn = self.fn
        self.gs_alloc = None
        self.gs_zero = None
        self.gs_cols = {}      # column -> (Nout row text, node)
        for s in fn.body:
            if isinstance(s, ast.Assign) and unparse(s.targets[0]) == 'gstart' and isinstance(s.value, ast.Call):
                self.gs_alloc = s
            if isinstance(s, ast.Assign) and isinstance(s.targets[0], ast.Subscript) and unparse(s.targets[0].value) == 'gstart':
                ix = idx(s.targets[0])
                if ix == ['0', ':'] and unparse(s.value) == '0':
                    self.gs_zero = s
                elif len(ix) == 2 and ix[0] == '1:':
                    m = re.match(r'^Nout\[:, (\d+), 0\]\.cumsum\(\)$', unparse(s.value))
                    self.gs_cols[ix[1]] = (m.group(1) if m else unparse(s.value), s)
        # loop form of the same exclusive prefix sums:
        #   for t in range(Nthread): [for k in range(3):] gstart[t + 1, k] = gstart[t, k] + Nout[t, k, 0]
        # with gstart allocated by np.zeros (row 0 is then zero) or preceded by gstart[0, :] = 0
        for s in fn.body:
            if not (isinstance(s, ast.For) and isinstance(s.target, ast.Name) and isinstance(s.iter, ast.Call) and unparse(s.iter) == 'range(Nthread)'):
                continue
            t = s.target.id
            stmts, kvar = s.body, None
            if len(stmts) == 1 and isinstance(stmts[0], ast.For) and isinstance(stmts[0].target, ast.Name) and unparse(stmts[0].iter) == 'range(3)':
                kvar = stmts[0].target.id
                stmts = stmts[0].body
            rec = {}
            okloop = True
            for b in stmts:
                m = None
                if isinstance(b, ast.Assign) and isinstance(b.targets[0], ast.Subscript) and unparse(b.targets[0].value) == 'gstart':
                    ix = idx(b.targets[0])
                    if len(ix) == 2 and ix[0].replace(' ', '') in (f'{t}+1', f'1+{t}'):
                        c = ix[1]
                        m = re.match(rf'^gstart\[{t}, {re.escape(c)}\] \+ Nout\[{t}, (\w+), 0\]$', unparse(b.value)) or \
                            re.match(rf'^Nout\[{t}, (\w+), 0\] \+ gstart\[{t}, {re.escape(c)}\]$', unparse(b.value))
                        if m:
                            rec[c] = (m.group(1), b)
                if m is None:
                    okloop = False
            if okloop and rec:
                if kvar is not None and list(rec) == [kvar] and rec[kvar][0] == kvar:
                    for c in ('0', '1', '2'):
                        self.gs_cols[c] = (c, rec[kvar][1])
                elif kvar is None:
                    for c, v in rec.items():
                        self.gs_cols[c] = v
                elif kvar is not None:
                    # the column loop variable is used inconsistently: record what is summed into what
                    for c, v in rec.items():
                        self.gs_cols[c] = v
        if self.gs_alloc is not None and dotted(self.gs_alloc.value.func) == 'np.zeros' and self.gs_zero is None:
            self.gs_zero = self.gs_alloc          # zero-initialised: row 0 is zero
        self.nout_alloc = next((s for s in fn.body if isinstance(s, ast.Assign) and unparse(s.targets[0]) == 'Nout'), None)
        self.hstart_def = next((s for s in fn.body if isinstance(s, ast.Assign) and unparse(s.targets[0]) == 'hstart'), None)
        self.keep_alloc = next((s for s in fn.body if isinstance(s, ast.Assign) and unparse(s.targets[0]) == 'keep'), None)

    def _arrays(self):
        """N_x = gstart[-1, c]; prefix_field = np.empty(N_x, ...)"""
        self.sizes = {}       # size var -> gstart column
        self.arrays = {}      # array name -> size var
        for s in self.fn.body:
            if isinstance(s, ast.Assign) and isinstance(s.targets[0], ast.Name):
                m = re.match(r'^gstart\[-1, (\d+)\]$', unparse(s.value))
                if m:
                    self.sizes[s.targets[0].id] = m.group(1)
                if isinstance(s.value, ast.Call) and dotted(s.value.func) == 'np.empty' and s.value.args and unparse(s.value.args[0]) in self.sizes:
                    self.arrays[s.targets[0].id] = unparse(s.value.args[0])

    # -- fill pass ------------------------------------------------------------
    def _fill(self):
        self.cursors = []     # cursor names in unpack order
        self.cursor_src = None
        for s in self.fill.body:
            if isinstance(s, ast.Assign) and isinstance(s.targets[0], ast.Tuple) and isinstance(s.value, ast.Subscript):
                self.cursors = [unparse(e) for e in s.targets[0].elts]
                self.cursor_src = unparse(s.value)
        chain = [s for s in self.fi.body if isinstance(s, ast.If) and 'keep' in unparse(s.test)]
        self.fill_other = [s for s in self.fi.body if not (isinstance(s, ast.If) and 'keep' in unparse(s.test))]
        if len(chain) != 1:
            raise AnalysisError(f'{self.name}: fill chain not found')
        self.fbranches = []
        c = chain[0]
        while True:
            t = c.test
            code = unparse(t.comparators[0]) if isinstance(t, ast.Compare) and unparse(t.left) == f'keep[{self.i_f}]' and isinstance(t.ops[0], ast.Eq) else None
            self.fbranches.append(dict(code=code, body=c.body, node=c))
            if len(c.orelse) == 1 and isinstance(c.orelse[0], ast.If):
                c = c.orelse[0]
            else:
                self.fill_else = c.orelse
                break

    def _dicts(self):
        self.dicts = {}       # dict name -> {key: array}
        for s in self.fn.body:
            if isinstance(s, ast.Assign) and isinstance(s.targets[0], ast.Subscript) and isinstance(s.targets[0].value, ast.Name) \
                    and s.targets[0].value.id.endswith('_dict') and isinstance(s.targets[0].slice, ast.Constant) and isinstance(s.value, ast.Name):
                self.dicts.setdefault(s.targets[0].value.id, {})[s.targets[0].slice.value] = s.value.id
        rets = [n for n in walk_no_nested(self.fn) if isinstance(n, ast.Return)]
        self.ret = [unparse(e) for e in rets[0].value.elts] if len(rets) == 1 and isinstance(rets[0].value, ast.Tuple) else None


def tracer_of(name):
    """LRG_marker / want_LRG / LRG_dict / lrg_x -> 'LRG'."""
    m = re.match(r'^(?:want_)?([A-Za-z]{3})(?:_|$)', name)
    return m.group(1).upper() if m else None
