"""Discovery of the two-pass (count / fill) structure of GRAND_HOD.gen_cent and gen_sats.
Everything is re-discovered from the stores on each run; nothing is a frozen name table."""
import ast
import re

from .srcmodel import dotted, unparse, walk_no_nested, AnalysisError, names_in, stores_in, clone_pos
from . import own

GH = 'abacusnbody/hod/GRAND_HOD.py'


def idx(sub):
    sl = sub.slice
    return [unparse(e) for e in (sl.elts if isinstance(sl, ast.Tuple) else [sl])]


class Pass2:
    def __init__(self, src, name):
        self.src, self.name = src, name
        self.fn = fn = src.func(GH, name)
        self.problems = []
        loops = own.prange_loops(fn)
        self.count = [l for l in loops if any(isinstance(n, ast.Assign) and isinstance(n.targets[0], ast.Subscript) and unparse(n.targets[0].value) == 'keep'
                                               for n in walk_no_nested(l))]
        self.fill = [l for l in loops if l not in self.count]
        if len(self.count) != 1 or len(self.fill) != 1:
            raise AnalysisError(f'{name}: count/fill passes not recognised ({len(self.count)}/{len(self.fill)})')
        self.count, self.fill = self.count[0], self.fill[0]
        self.tid_c, self.tid_f = self.count.target.id, self.fill.target.id
        self.ci = self._inner(self.count)
        self.fi = self._inner(self.fill)
        self.i_c, self.i_f = self.ci.target.id, self.fi.target.id
        mod = src.tree(GH)
        self.ci.body = sink_selector(inline_decision_inputs(hoist_decisions(markers_from_occupations(self.ci.body)), mod))
        self.fi.body = sink_selector(self.fi.body)
        for lp_ in (self.ci, self.fi):
            for st_ in lp_.body:
                st_._parent = lp_
        self._markers()
        self._decision()
        self._gstart()
        self._arrays()
        self._fill()
        self._dicts()

    def _inner(self, lp):
        inn = [b for b in lp.body if isinstance(b, ast.For)]
        if len(inn) != 1:
            raise AnalysisError(f'{self.name}: inner host loop not found')
        return inn[0]

    # -- count pass -----------------------------------------------------------
    def _markers(self):
        """marker chain: name -> dict(init=expr text, guard=want flag, incs=[AugAssign nodes])."""
        self.markers = {}
        self.marker_order = []
        for s in self.ci.body:
            if isinstance(s, ast.Assign) and isinstance(s.targets[0], ast.Name) and s.targets[0].id.endswith('_marker'):
                self.markers[s.targets[0].id] = dict(init=unparse(s.value), guard=None, incs=[], block=None, node=s)
                self.marker_order.append(s.targets[0].id)
            if isinstance(s, ast.If) and isinstance(s.test, ast.Name) and s.test.id.startswith('want_'):
                for n in walk_no_nested(s):
                    if isinstance(n, ast.AugAssign) and isinstance(n.target, ast.Name) and n.target.id in self.markers:
                        m = self.markers[n.target.id]
                        m['guard'] = s.test.id
                        m['incs'].append(n)
                        m['block'] = s
        # increments outside a want_ guard
        for n in walk_no_nested(self.ci):
            if isinstance(n, ast.AugAssign) and isinstance(n.target, ast.Name) and n.target.id in self.markers:
                if n not in self.markers[n.target.id]['incs']:
                    self.problems.append((n, f'{n.target.id} is advanced outside its want_ guard'))

    def _decision(self):
        """if randoms[i] <= M: Nout[tid, r, 0] += 1; keep[i] = c  elif ... else keep[i] = 0"""
        def split(t):
            """test -> (decision compare, guard flag or None, other guard compares):
               randoms[i] <= M   |   want_T and randoms[i] <= M   |   want_T and M > M_prev and randoms[i] <= M"""
            if isinstance(t, ast.Compare):
                return t, None, []
            if isinstance(t, ast.BoolOp) and isinstance(t.op, ast.And):
                dec = [v for v in t.values if isinstance(v, ast.Compare) and 'randoms' in unparse(v.left)]
                flags = [v for v in t.values if isinstance(v, ast.Name)]
                others = [v for v in t.values if isinstance(v, ast.Compare) and 'randoms' not in unparse(v.left)]
                if len(dec) == 1 and len(flags) <= 1 and len(dec) + len(flags) + len(others) == len(t.values):
                    return dec[0], (flags[0].id if flags else None), others
            return None, None, []
        chain = [s for s in self.ci.body if isinstance(s, ast.If) and split(s.test)[0] is not None and 'randoms' in unparse(split(s.test)[0].left)]
        if len(chain) != 1:
            raise AnalysisError(f'{self.name}: decision chain not found')
        self.branches = []     # dict(marker, op, lhs, row, code, node)
        c = chain[0]
        self.decision = c
        self.else_code = None
        while True:
            t, guard, extra = split(c.test)
            if t is None:
                raise AnalysisError(f'{self.name}: decision branch test not understood: {unparse(c.test)[:60]}')
            b = dict(marker=unparse(t.comparators[0]), op=type(t.ops[0]).__name__, lhs=unparse(t.left), rows=[], codes=[], node=c, guard=guard, extra=[unparse(x).replace(' ', '') for x in extra])
            for s in c.body:
                if isinstance(s, ast.AugAssign) and isinstance(s.target, ast.Subscript) and unparse(s.target.value) == 'Nout':
                    b['rows'].append((idx(s.target), unparse(s.value), type(s.op).__name__))
                elif isinstance(s, ast.Assign) and isinstance(s.targets[0], ast.Subscript) and unparse(s.targets[0].value) == 'keep':
                    b['codes'].append((idx(s.targets[0]), unparse(s.value)))
                else:
                    self.problems.append((s, 'unexpected statement in a decision branch'))
            self.branches.append(b)
            if len(c.orelse) == 1 and isinstance(c.orelse[0], ast.If):
                c = c.orelse[0]
            else:
                for s in c.orelse:
                    if isinstance(s, ast.Assign) and isinstance(s.targets[0], ast.Subscript) and unparse(s.targets[0].value) == 'keep':
                        self.else_code = (idx(s.targets[0]), unparse(s.value))
                    else:
                        self.problems.append((s, 'unexpected statement in the final else'))
                break

    # -- prefix sums ----------------------------------------------------------
    def _gstart(self):
        fn = self.fn
        self.gs_alloc = None
        self.gs_zero = None
        self.gs_cols = {}      # column -> (Nout row text, node)
        for s in fn.body:
            if isinstance(s, ast.Assign) and unparse(s.targets[0]) == 'gstart' and isinstance(s.value, ast.Call):
                self.gs_alloc = s
            if isinstance(s, ast.Assign) and isinstance(s.targets[0], ast.Subscript) and unparse(s.targets[0].value) == 'gstart':
                ix = idx(s.targets[0])
                if ix == ['0', ':'] and unparse(s.value) == '0':
                    self.gs_zero = s
                elif len(ix) == 2 and ix[0] == '1:':
                    m = re.match(r'^Nout\[:, (\d+), 0\]\.cumsum\(\)$', unparse(s.value))
                    self.gs_cols[ix[1]] = (m.group(1) if m else unparse(s.value), s)
        # loop form of the same exclusive prefix sums:
        #   for t in range(Nthread): [for k in range(3):] gstart[t + 1, k] = gstart[t, k] + Nout[t, k, 0]
        # with gstart allocated by np.zeros (row 0 is then zero) or preceded by gstart[0, :] = 0
        for s in fn.body:
            if not (isinstance(s, ast.For) and isinstance(s.target, ast.Name) and isinstance(s.iter, ast.Call) and unparse(s.iter) == 'range(Nthread)'):
                continue
            t = s.target.id
            stmts, kvar = s.body, None
            if len(stmts) == 1 and isinstance(stmts[0], ast.For) and isinstance(stmts[0].target, ast.Name) and unparse(stmts[0].iter) == 'range(3)':
                kvar = stmts[0].target.id
                stmts = stmts[0].body
            rec = {}
            okloop = True
            for b in stmts:
                m = None
                if isinstance(b, ast.Assign) and isinstance(b.targets[0], ast.Subscript) and unparse(b.targets[0].value) == 'gstart':
                    ix = idx(b.targets[0])
                    if len(ix) == 2 and ix[0].replace(' ', '') in (f'{t}+1', f'1+{t}'):
                        c = ix[1]
                        m = re.match(rf'^gstart\[{t}, {re.escape(c)}\] \+ Nout\[{t}, (\w+), 0\]$', unparse(b.value)) or \
                            re.match(rf'^Nout\[{t}, (\w+), 0\] \+ gstart\[{t}, {re.escape(c)}\]$', unparse(b.value))
                        if m:
                            rec[c] = (m.group(1), b)
                if m is None:
                    okloop = False
            if okloop and rec:
                if kvar is not None and list(rec) == [kvar] and rec[kvar][0] == kvar:
                    for c in ('0', '1', '2'):
                        self.gs_cols[c] = (c, rec[kvar][1])
                elif kvar is None:
                    for c, v in rec.items():
                        self.gs_cols[c] = v
                elif kvar is not None:
                    # the column loop variable is used inconsistently: record what is summed into what
                    for c, v in rec.items():
                        self.gs_cols[c] = v
        if self.gs_alloc is not None and dotted(self.gs_alloc.value.func) == 'np.zeros' and self.gs_zero is None:
            self.gs_zero = self.gs_alloc          # zero-initialised: row 0 is zero
        self.nout_alloc = next((s for s in fn.body if isinstance(s, ast.Assign) and unparse(s.targets[0]) == 'Nout'), None)
        self.hstart_def = next((s for s in fn.body if isinstance(s, ast.Assign) and unparse(s.targets[0]) == 'hstart'), None)
        self.keep_alloc = next((s for s in fn.body if isinstance(s, ast.Assign) and unparse(s.targets[0]) == 'keep'), None)

    def _arrays(self):
        """N_x = gstart[-1, c]; prefix_field = np.empty(N_x, ...)"""
        self.sizes = {}       # size var -> gstart column
        self.arrays = {}      # array name -> size var
        for s in self.fn.body:
            if isinstance(s, ast.Assign) and isinstance(s.targets[0], ast.Name):
                m = re.match(r'^gstart\[-1, (\d+)\]$', unparse(s.value))
                if m:
                    self.sizes[s.targets[0].id] = m.group(1)
                if isinstance(s.value, ast.Call) and dotted(s.value.func) == 'np.empty' and s.value.args and unparse(s.value.args[0]) in self.sizes:
                    self.arrays[s.targets[0].id] = unparse(s.value.args[0])

    # -- fill pass ------------------------------------------------------------
    def _fill(self):
        self.cursors = []     # cursor names in unpack order
        self.cursor_src = None
        for s in self.fill.body:
            if isinstance(s, ast.Assign) and isinstance(s.targets[0], ast.Tuple) and isinstance(s.value, ast.Subscript):
                self.cursors = [unparse(e) for e in s.targets[0].elts]
                self.cursor_src = unparse(s.value)
        chain = [s for s in self.fi.body if isinstance(s, ast.If) and 'keep' in unparse(s.test)]
        self.fill_other = [s for s in self.fi.body if not (isinstance(s, ast.If) and 'keep' in unparse(s.test))]
        if len(chain) != 1:
            raise AnalysisError(f'{self.name}: fill chain not found')
        self.fbranches = []
        c = chain[0]
        while True:
            t = c.test
            code = unparse(t.comparators[0]) if isinstance(t, ast.Compare) and unparse(t.left) == f'keep[{self.i_f}]' and isinstance(t.ops[0], ast.Eq) else None
            self.fbranches.append(dict(code=code, body=c.body, node=c))
            if len(c.orelse) == 1 and isinstance(c.orelse[0], ast.If):
                c = c.orelse[0]
            else:
                self.fill_else = c.orelse
                break

    def _dicts(self):
        self.dicts = {}       # dict name -> {key: array}
        for s in self.fn.body:
            if isinstance(s, ast.Assign) and isinstance(s.targets[0], ast.Subscript) and isinstance(s.targets[0].value, ast.Name) \
                    and s.targets[0].value.id.endswith('_dict') and isinstance(s.targets[0].slice, ast.Constant) and isinstance(s.value, ast.Name):
                self.dicts.setdefault(s.targets[0].value.id, {})[s.targets[0].slice.value] = s.value.id
        rets = [n for n in walk_no_nested(self.fn) if isinstance(n, ast.Return)]
        self.ret = [unparse(e) for e in rets[0].value.elts] if len(rets) == 1 and isinstance(rets[0].value, ast.Tuple) else None


def _fold(n):
    """Constant folding of integer arithmetic, comparisons and truth tests of literals."""
    import operator as op_
    class F(ast.NodeTransformer):
        def visit_BinOp(self, b):
            b = self.generic_visit(b)
            ops = {ast.Add: op_.add, ast.Sub: op_.sub, ast.Mult: op_.mul}
            if isinstance(b.left, ast.Constant) and isinstance(b.right, ast.Constant) and type(b.left.value) is int and type(b.right.value) is int and type(b.op) in ops:
                return ast.copy_location(ast.Constant(value=ops[type(b.op)](b.left.value, b.right.value)), b)
            return b

        def visit_Compare(self, c):
            c = self.generic_visit(c)
            ops = {ast.Gt: op_.gt, ast.GtE: op_.ge, ast.Lt: op_.lt, ast.LtE: op_.le, ast.Eq: op_.eq, ast.NotEq: op_.ne}
            if len(c.ops) == 1 and isinstance(c.left, ast.Constant) and isinstance(c.comparators[0], ast.Constant) and type(c.ops[0]) in ops \
                    and type(c.left.value) is int and type(c.comparators[0].value) is int:
                return ast.copy_location(ast.Constant(value=ops[type(c.ops[0])](c.left.value, c.comparators[0].value)), c)
            return c
    return F().visit(n)


def _relink(root):
    for n_ in ast.walk(root):
        for ch in ast.iter_child_nodes(n_):
            ch._parent = n_


def markers_from_occupations(stmts):
    """Normal form for slice edges computed from per-tracer occupations.  In

           n1 = 0.0;  if want_1: ...; n1 = E1        n2 = 0.0;  if want_2: ...; n2 = E2      ...
           M1 = n1;  M2 = M1 + n2;  M3 = M2 + n3

    every n_k is bound exactly twice (the zero, and once inside a top-level `if`), is read only by the edge statements, and the zero of
    n_k comes after the `if` that binds n_(k-1).  Then the edges are the running sums  M1 = 0; if want_1: M1 += E1;  M2 = M1; if want_2:
    M2 += E2; ...  (0 + x and x + 0.0 are exact; the edges are only compared).  The statements are rewritten into that form."""
    n = len(stmts)
    # the trailing group of edge statements
    edges = []
    for i, st in enumerate(stmts):
        if isinstance(st, ast.Assign) and len(st.targets) == 1 and isinstance(st.targets[0], ast.Name):
            v = st.value
            if not edges and isinstance(v, ast.Name):
                edges.append((i, st.targets[0].id, None, v.id))
            elif edges and isinstance(v, ast.BinOp) and isinstance(v.op, ast.Add) and isinstance(v.left, ast.Name) and isinstance(v.right, ast.Name) \
                    and v.left.id == edges[-1][1] and i == edges[-1][0] + 1:
                edges.append((i, st.targets[0].id, v.left.id, v.right.id))
            elif edges and len(edges) < 2:
                edges = [(i, st.targets[0].id, None, v.id)] if isinstance(v, ast.Name) else []
            elif not edges and isinstance(v, ast.BinOp) and isinstance(v.op, ast.Add) and isinstance(v.left, ast.Name) and isinstance(v.right, ast.Name) \
                    and any(isinstance(z_, ast.Assign) and len(z_.targets) == 1 and isinstance(z_.targets[0], ast.Name) and z_.targets[0].id == v.left.id
                            and isinstance(z_.value, ast.Constant) and z_.value.value in (0, 0.0) for z_ in stmts[:i]):
                # the first edge is its own occupation (M1 = 0.0; if want_1: M1 = E1): a copy M1 = n1 that was already propagated
                edges.append((-1, v.left.id, None, v.left.id))
                edges.append((i, st.targets[0].id, v.left.id, v.right.id))
        elif edges and len(edges) < 2:
            edges = []
        if len(edges) >= 2 and (i + 1 >= n or not (isinstance(stmts[i + 1], ast.Assign) and isinstance(stmts[i + 1].value, ast.BinOp))):
            break
    if len(edges) < 2:
        return stmts
    occ = [e[3] for e in edges]
    marks = [e[1] for e in edges]
    first_edge = min(e[0] for e in edges if e[0] >= 0)
    plan = []
    last_if = -1
    for k, nk in enumerate(occ):
        zeros = [(i, st) for i, st in enumerate(stmts[:first_edge]) if isinstance(st, ast.Assign) and len(st.targets) == 1 and isinstance(st.targets[0], ast.Name)
                 and st.targets[0].id == nk and isinstance(st.value, ast.Constant) and st.value.value in (0, 0.0) and not isinstance(st.value.value, bool)]
        binds = []
        for i, st in enumerate(stmts[:first_edge]):
            if isinstance(st, ast.If) and not st.orelse:
                for b in st.body:
                    if isinstance(b, ast.Assign) and len(b.targets) == 1 and isinstance(b.targets[0], ast.Name) and b.targets[0].id == nk:
                        binds.append((i, st, b))
        all_stores = sum(1 for st in stmts for x in ast.walk(st) if isinstance(x, ast.Name) and x.id == nk and isinstance(x.ctx, ast.Store))
        all_loads = sum(1 for st in stmts for x in ast.walk(st) if isinstance(x, ast.Name) and x.id == nk and isinstance(x.ctx, ast.Load))
        mk_other = sum(1 for st in stmts for x in ast.walk(st) if isinstance(x, ast.Name) and x.id == marks[k] and isinstance(x.ctx, ast.Store))
        selfocc = nk == marks[k]
        if selfocc:
            # reads of the edge itself (by the next edge and the decision) are expected; it is bound only by its zero and its `if`
            if len(zeros) != 1 or len(binds) != 1 or all_stores != 2 or not (last_if < zeros[0][0] < binds[0][0]):
                return stmts
        elif len(zeros) != 1 or len(binds) != 1 or all_stores != 2 or all_loads != 1 or mk_other != 1 or not (last_if < zeros[0][0] < binds[0][0]):
            return stmts
        if any(isinstance(x, ast.Name) and x.id == nk for x in ast.walk(binds[0][2].value)):
            return stmts
        plan.append((zeros[0][1], binds[0][1], binds[0][2]))
        last_if = binds[0][0]
    out = list(stmts)
    for k, (z, ifst, b) in enumerate(plan):
        init = ast.Constant(value=0) if k == 0 else ast.Name(id=marks[k - 1], ctx=ast.Load())
        out[out.index(z)] = ast.copy_location(ast.Assign(targets=[ast.Name(id=marks[k], ctx=ast.Store())], value=init, lineno=z.lineno), z)
        ifst.body[ifst.body.index(b)] = ast.copy_location(ast.AugAssign(target=ast.Name(id=marks[k], ctx=ast.Store()), op=ast.Add(), value=b.value), b)
    drop = {id(stmts[e[0]]) for e in edges if e[0] >= 0}
    out = [st for st in out if id(st) not in drop]
    for st in out:
        ast.fix_missing_locations(st)
        _relink(st)
    return out


def hoist_decisions(stmts):
    """Normal form for a decision that is taken piecewise.  In

           keep[i] = 0
           ...; if want_A: <marker A>; if condA: <effects A>
           ...; if want_B: <marker B>; if keep[i] == 0 and condB: <effects B>
           ...

    every tracer decides at the end of its own block, a later one only for a host that is still unclaimed.  When the effects only
    store into Nout / keep, every effect sets keep[i] to a non-zero literal, every decision after the first has the conjunct
    `keep[i] == 0`, nothing else reads keep / Nout, and nothing a condition reads is re-bound afterwards, this is the chain

           <marker A>; <marker B>; ...
           if want_A and condA: <effects A>  elif want_B and condB: <effects B>  ...  else: keep[i] = 0

    (each decision sees the same values at the end of the iteration as where it stood, and `keep[i] == 0` holds exactly when no
    earlier arm was taken).  Anything else is left as it is."""
    body = list(stmts)
    if any(isinstance(st, ast.If) and 'randoms' in unparse(st.test) for st in body):
        return stmts           # already a top-level chain
    d0 = [k for k, st in enumerate(body) if isinstance(st, ast.Assign) and isinstance(st.targets[0], ast.Subscript) and unparse(st.targets[0].value) == 'keep'
          and isinstance(st.value, ast.Constant) and st.value.value == 0]
    if len(d0) != 1:
        return stmts
    keep_t = unparse(body[d0[0]].targets[0])
    arms = []       # (block index, want test, cond values, effects, decision node)
    for k, st in enumerate(body):
        if not (isinstance(st, ast.If) and not st.orelse and isinstance(st.test, ast.Name) and st.test.id.startswith('want_') and st.body):
            continue
        dec = st.body[-1]
        if isinstance(dec, ast.If) and not dec.orelse and 'randoms' in unparse(dec.test):
            conj = list(dec.test.values) if isinstance(dec.test, ast.BoolOp) and isinstance(dec.test.op, ast.And) else [dec.test]
            free = [c for c in conj if unparse(c).replace(' ', '') not in (f'{keep_t}==0'.replace(' ', ''), f'0=={keep_t}'.replace(' ', ''))]
            arms.append((k, st, conj, free, dec))
    if len(arms) < 2 or d0[0] > arms[0][0]:
        return stmts
    for n_, (k, blk, conj, free, dec) in enumerate(arms):
        if n_ > 0 and len(free) == len(conj):
            return stmts                                   # a later decision that does not ask whether the host is still free
        codes = [x for x in dec.body if isinstance(x, ast.Assign) and unparse(x.targets[0]) == keep_t]
        if len(codes) != 1 or not (isinstance(codes[0].value, ast.Constant) and type(codes[0].value.value) is int and codes[0].value.value != 0):
            return stmts
        for x in dec.body:
            tg = x.targets[0] if isinstance(x, ast.Assign) else (x.target if isinstance(x, ast.AugAssign) else None)
            if not (isinstance(tg, ast.Subscript) and unparse(tg.value) in ('keep', 'Nout')):
                return stmts
        reads = {n.id for c in free for n in ast.walk(c) if isinstance(n, ast.Name)}
        later = [x for kk, st in enumerate(body) if kk > k for x in ast.walk(st)] + [x for st in blk.body[blk.body.index(dec) + 1:] for x in ast.walk(st)]
        if any(isinstance(x, ast.Name) and isinstance(x.ctx, ast.Store) and x.id in reads for x in later):
            return stmts
    decs = {id(a[4]) for a in arms}
    for kk, st in enumerate(body):
        if kk == d0[0]:
            continue
        for x in ast.walk(st):
            if id(x) in decs:
                break
        else:
            if any(isinstance(x, ast.Name) and x.id in ('keep', 'Nout') for x in ast.walk(st)):
                return stmts
        if id(st) not in {id(a[1]) for a in arms} and any(isinstance(x, ast.Name) and x.id in ('keep', 'Nout') for x in ast.walk(st)):
            return stmts
    for k, blk, conj, free, dec in arms:
        rest = [x for x in blk.body[:-1] for y in ast.walk(x) if isinstance(y, ast.Name) and y.id in ('keep', 'Nout')]
        if rest:
            return stmts
    # build the chain
    chain = None
    for k, blk, conj, free, dec in reversed(arms):
        test = ast.BoolOp(op=ast.And(), values=[clone_pos(blk.test)] + [clone_pos(c) for c in free])
        node = ast.If(test=ast.copy_location(test, dec.test), body=dec.body, orelse=[chain] if chain is not None else [body[d0[0]]])
        ast.copy_location(node, dec)
        chain = node
    for k, blk, conj, free, dec in arms:
        blk.body = blk.body[:-1] or [ast.copy_location(ast.Pass(), blk)]
    out = [st for kk, st in enumerate(body) if kk != d0[0]] + [chain]
    ast.fix_missing_locations(chain)
    _relink(chain)
    for st in out:
        for ch in ast.iter_child_nodes(st):
            ch._parent = st
    return out


def inline_decision_inputs(stmts, mod):
    """Normal form for the tests of the decision chain (the if/elif chain whose tests read `randoms`): whatever the tests read through
    a name or a helper is put back in place, so that the chain shows its own conditions.

      r = randoms[i]                       a value named once in this iteration and not changed afterwards      -> its expression
      in_slice(want, lo, hi, r)            a module-level helper that only returns an expression of its arguments -> that expression
      has_X = False                        a flag that is False unless the block `if want_X:` ran, which sets it
      if want_X: ...; has_X = E            once, as its last word on the flag                                    -> (want_X and E)

    Each replacement is exact (same values in every execution) provided nothing the replaced expression reads is re-bound between
    the definition and the test, which is checked.  The statements that only served the replaced names are removed."""
    body = list(stmts)
    chain_idx = [j for j, st in enumerate(body) if isinstance(st, ast.If) and 'randoms' in unparse(st.test) or
                 (isinstance(st, ast.If) and any(isinstance(c, ast.Call) and isinstance(c.func, ast.Name) for c in ast.walk(st.test))
                  and any(isinstance(x, ast.Assign) and isinstance(x.targets[0], ast.Subscript) and unparse(x.targets[0].value) == 'keep' for x in st.body))]
    # the chain is the LAST top-level if of the iteration that stores keep[...] in its first arm
    cands = [j for j, st in enumerate(body) if isinstance(st, ast.If) and
             any(isinstance(x, ast.Assign) and isinstance(x.targets[0], ast.Subscript) and unparse(x.targets[0].value) == 'keep' for x in st.body)]
    if not cands:
        return stmts
    j = cands[-1]
    chain = body[j]
    helpers = {}
    for f in mod.body:
        if isinstance(f, ast.FunctionDef):
            inner = [b for b in f.body if not (isinstance(b, ast.Expr) and isinstance(b.value, ast.Constant))]
            a = f.args
            if len(inner) == 1 and isinstance(inner[0], ast.Return) and inner[0].value is not None and not (a.vararg or a.kwarg or a.kwonlyargs or a.defaults):
                params = [x.arg for x in a.args]
                free = {n.id for n in ast.walk(inner[0].value) if isinstance(n, ast.Name)} - set(params)
                if not free and not any(isinstance(n, (ast.Call, ast.Subscript, ast.Attribute)) for n in ast.walk(inner[0].value)):
                    helpers[f.name] = (params, inner[0].value)

    def stored_between(names, lo, hi):
        for st in body[lo:hi]:
            for n in ast.walk(st):
                if isinstance(n, ast.Name) and isinstance(n.ctx, ast.Store) and n.id in names:
                    return True
        return False

    def count_stores(name):
        return sum(1 for st in body for n in ast.walk(st) if isinstance(n, ast.Name) and n.id == name and isinstance(n.ctx, ast.Store))

    # flags and plain names
    subst, drop = {}, []
    tests = []
    c = chain
    while True:
        tests.append(c)
        if len(c.orelse) == 1 and isinstance(c.orelse[0], ast.If):
            c = c.orelse[0]
        else:
            break
    read = {n.id for t in tests for n in ast.walk(t.test) if isinstance(n, ast.Name)}
    for name in sorted(read):
        tops = [(k, st) for k, st in enumerate(body[:j]) if isinstance(st, ast.Assign) and len(st.targets) == 1 and isinstance(st.targets[0], ast.Name) and st.targets[0].id == name]
        ns = count_stores(name)
        if len(tops) == 1 and ns == 1:
            k, st = tops[0]
            if name.endswith('_marker') or name.startswith('want_'):
                continue
            reads = {n.id for n in ast.walk(st.value) if isinstance(n, ast.Name)}
            if not stored_between(reads, k + 1, j) and not any(isinstance(n, ast.Call) for n in ast.walk(st.value)):
                subst[name] = st.value
                drop.append(st)
        elif len(tops) == 1 and ns == 2 and isinstance(tops[0][1].value, ast.Constant) and tops[0][1].value.value is False:
            k, st0 = tops[0]
            for kk in range(k + 1, j):
                blk = body[kk]
                if isinstance(blk, ast.If) and not blk.orelse and blk.body and isinstance(blk.body[-1], ast.Assign) and len(blk.body[-1].targets) == 1 \
                        and isinstance(blk.body[-1].targets[0], ast.Name) and blk.body[-1].targets[0].id == name:
                    e = blk.body[-1].value
                    reads = {n.id for n in ast.walk(e) if isinstance(n, ast.Name)}
                    if not stored_between(reads, kk + 1, j) and not any(isinstance(n, ast.Call) for n in ast.walk(e)) \
                            and not any(isinstance(n, ast.Name) and n.id == name for x in blk.body[:-1] for n in ast.walk(x)):
                        subst[name] = ast.BoolOp(op=ast.And(), values=[clone_pos(blk.test), clone_pos(e)])
                        drop.append(st0)
                        drop.append(blk.body[-1])
                    break
    used_elsewhere = set()
    for st in body[:j] + body[j + 1:]:
        for n in ast.walk(st):
            if isinstance(n, ast.Name) and isinstance(n.ctx, ast.Load) and n.id in subst:
                used_elsewhere.add(n.id)
    for st in chain.body + [x for t in tests for x in t.body] + tests[-1].orelse:
        for n in ast.walk(st):
            if isinstance(n, ast.Name) and isinstance(n.ctx, ast.Load) and n.id in subst:
                used_elsewhere.add(n.id)

    class S(ast.NodeTransformer):
        def visit_Name(self, n):
            if isinstance(n.ctx, ast.Load) and n.id in subst:
                return ast.copy_location(clone_pos(subst[n.id]), n)
            return n

        def visit_Call(self, n):
            n = self.generic_visit(n)
            if isinstance(n.func, ast.Name) and n.func.id in helpers and not n.keywords and len(n.args) == len(helpers[n.func.id][0]):
                ps, e = helpers[n.func.id]
                m = dict(zip(ps, n.args))

                class P(ast.NodeTransformer):
                    def visit_Name(s_, x):
                        return clone_pos(m[x.id]) if x.id in m and isinstance(x.ctx, ast.Load) else x
                return ast.copy_location(P().visit(clone_pos(e)), n)
            return n

    def flatten(t):
        if isinstance(t, ast.BoolOp):
            vals = []
            for v in t.values:
                v = flatten(v)
                if isinstance(v, ast.BoolOp) and type(v.op) is type(t.op):
                    vals.extend(v.values)
                else:
                    vals.append(v)
            t.values = vals
        return t
    changed = False
    for t in tests:
        before = unparse(t.test)
        t.test = flatten(S().visit(t.test))
        ast.fix_missing_locations(t.test)
        changed = changed or unparse(t.test) != before
    if not changed:
        return stmts
    gone = [d for d in drop if (d.targets[0].id not in used_elsewhere)]
    out = []
    for st in body:
        if any(st is d for d in gone):
            continue
        if isinstance(st, ast.If):
            st.body = [x for x in st.body if not any(x is d for d in gone)] or [ast.copy_location(ast.Pass(), st)]
        out.append(st)
    _relink(chain)
    for st in out:
        for ch in ast.iter_child_nodes(st):
            ch._parent = st
    return out


def sink_selector(stmts):
    """Normal form for a decision that is taken in two steps.  In

           sel = c0
           if A: sel = c1
           elif B: sel = c2
           ...
           <statements reading sel>          (sel not read afterwards)

    the statements reading `sel` are moved into every branch with the branch's constant substituted and folded
    (`if 2 > 0:` disappears, `sel - 1` becomes 1), which gives the one-step chain  if A: <effects of c1> elif B: ... else: <effects of c0>.
    The transformation is exact: every execution performs the same statements with the same values in the same order."""
    import copy
    for j, C in enumerate(stmts):
        if not isinstance(C, ast.If):
            continue
        arms, c, sel, has_else = [], C, None, False
        ok = True
        while ok:
            if len(c.body) == 1 and isinstance(c.body[0], ast.Assign) and len(c.body[0].targets) == 1 and isinstance(c.body[0].targets[0], ast.Name) \
                    and isinstance(c.body[0].value, ast.Constant) and type(c.body[0].value.value) is int and sel in (None, c.body[0].targets[0].id):
                sel = c.body[0].targets[0].id
                arms.append((c, c.body[0].value.value))
            else:
                ok = False
                break
            if len(c.orelse) == 1 and isinstance(c.orelse[0], ast.If):
                c = c.orelse[0]
                continue
            if c.orelse:
                e = c.orelse
                if len(e) == 1 and isinstance(e[0], ast.Assign) and len(e[0].targets) == 1 and isinstance(e[0].targets[0], ast.Name) and e[0].targets[0].id == sel \
                        and isinstance(e[0].value, ast.Constant) and type(e[0].value.value) is int:
                    has_else = True
                    else_val = e[0].value.value
                else:
                    ok = False
            break
        if not ok or sel is None or len(arms) < 2:
            continue
        last = arms[-1][0]
        # the initial value: the closest earlier statement of this block binding sel, a literal; nothing else stores sel before the chain
        inits = [i for i, st in enumerate(stmts[:j]) if sel in stores_in(st)]
        if has_else:
            init_idx = None
            if inits:
                continue
        else:
            if len(inits) != 1:
                continue
            st0 = stmts[inits[0]]
            if not (isinstance(st0, ast.Assign) and len(st0.targets) == 1 and isinstance(st0.targets[0], ast.Name) and isinstance(st0.value, ast.Constant)
                    and type(st0.value.value) is int):
                continue
            init_idx, else_val = inits[0], st0.value.value
            if any(sel in names_in(st) for st in stmts[init_idx + 1:j]):
                continue
        # the run of statements after the chain that read sel; sel must be dead after it and not be stored in it
        k = j + 1
        while k < len(stmts) and sel in names_in(stmts[k]) and sel not in stores_in(stmts[k]):
            k += 1
        run = stmts[j + 1:k]
        if not run or any(sel in names_in(st) for st in stmts[k:]):
            continue

        def inst(val):
            out = []
            for st in run:
                class S(ast.NodeTransformer):
                    def visit_Name(self, n):
                        return ast.copy_location(ast.Constant(value=val), n) if n.id == sel and isinstance(n.ctx, ast.Load) else n
                t = _fold(S().visit(clone_pos(st)))
                if isinstance(t, ast.If) and isinstance(t.test, ast.Constant):
                    out.extend(t.body if t.test.value else t.orelse)
                else:
                    out.append(t)
            return out or [ast.copy_location(ast.Pass(), run[0])]
        for node, val in arms:
            node.body = inst(val)
        last.orelse = inst(else_val)
        new = stmts[:j + 1] + stmts[k:]
        if init_idx is not None:
            del new[init_idx]
        for st in new:
            ast.fix_missing_locations(st)
        # the moved copies take part in the source model like any other statement (parent links)
        for n_ in ast.walk(C):
            for ch in ast.iter_child_nodes(n_):
                ch._parent = n_
        return sink_selector(new)
    return stmts


def tracer_of(name):
    """LRG_marker / want_LRG / LRG_dict / lrg_x -> 'LRG'."""
    m = re.match(r'^(?:want_)?([A-Za-z]{3})(?:_|$)', name)
    return m.group(1).upper() if m else None
