"""Analysis of the mass-assignment kernels (_tsc_scatter, cic_serial): geometry, weight
polynomials, index construction and the deposit table, all as exact polynomials in the
sub-cell offsets d_a = round(p_a) - p_a."""
import ast
from fractions import Fraction

from .poly import Poly
from .bitpoly import BPEval, NotInDomain, to_poly
from .bits import BV
from .srcmodel import dotted, unparse, walk_no_nested, AnalysisError


class Scatter:
    def __init__(self, fn, positive_case):
        self.fn = fn
        self.case = positive_case     # CIC: evaluate with d_a > 0 (True) or d_a <= 0 (False)
        params = [a.arg for a in fn.args.args]
        self.pos, self.grid, self.box = params[0], params[1], params[2]
        self.wparam = 'weights' if 'weights' in params else None
        self.offparam = 'offset' if 'offset' in params else None
        self.env = {}
        self.p = {}          # axis -> Poly of the grid coordinate p_a
        self.i = {}          # axis -> variable name holding round(p_a)
        self.dvar = {}       # variable name -> axis (d_a = i_a - p_a)
        self.weights = {}    # variable name -> (axis, Poly in d_a)
        self.index = {}      # variable name -> (axis, offset, wrapped_with_axis or None, raw)
        self.deposits = []   # (node, [(axis,offset)]*3, [factor names], guard3d: bool, op)
        self.problems = []   # (node, text)
        self.threeD_name = None
        self.Wname = None
        self.casts = set()
        self.guards3d = set()
        self._scan()

    # ---------------------------------------------------------------- helpers
    def _input(self, node):
        if isinstance(node, ast.Subscript):
            if isinstance(node.value, ast.Name) and node.value.id == self.pos and isinstance(node.slice, ast.Tuple) \
                    and len(node.slice.elts) == 2 and isinstance(node.slice.elts[1], ast.Constant):
                return Poly.sym(f'x{node.slice.elts[1].value}')
            if isinstance(node.value, ast.Attribute) and node.value.attr == 'shape' and isinstance(node.value.value, ast.Name) \
                    and node.value.value.id == self.grid and isinstance(node.slice, ast.Constant):
                return Poly.sym(f'g{node.slice.value}')
            if isinstance(node.value, ast.Name) and node.value.id == self.wparam:
                return Poly.sym('w')
        return None

    def _call(self, node, ev):
        cn = dotted(node.func)
        if cn == 'round' and len(node.args) == 1:
            p = to_poly(ev.ev(node.args[0]))
            for a, pa in self.p.items():
                if pa == p:
                    return Poly.sym(f'R{a}')
            return Poly.sym(f'R({p!r})')
        if cn in ('np.abs', 'abs') and len(node.args) == 1:
            v = to_poly(ev.ev(node.args[0]))
            syms = v.syms()
            if len(syms) == 1 and next(iter(syms)).startswith('d') and v == Poly.sym(next(iter(syms))):
                return v if self.case else -v
            raise NotInDomain('abs of a non-offset')
        if cn in self.casts and len(node.args) == 1:
            v = ev.ev(node.args[0])
            return to_poly(v) if not isinstance(v, Poly) else v
        if cn.split('.')[-1] in ('_rightwrap', 'rightwrap') and len(node.args) == 2:
            a = to_poly(ev.ev(node.args[0]))
            b = to_poly(ev.ev(node.args[1]))
            return Poly.sym(f'WRAP<{a!r}|{b!r}>')
        return None

    def _ev(self, node):
        return BPEval(self.env, self._input, (), self._call).ev(node)

    # ------------------------------------------------------------------- scan
    def _scan(self):
        fn = self.fn
        loops = [s for s in fn.body if isinstance(s, ast.For)]
        if len(loops) != 1:
            raise AnalysisError(f'{fn.name}: expected one particle loop, found {len(loops)}')
        self.loop = loops[0]
        pre = fn.body[:fn.body.index(self.loop)]
        for s in pre:
            self._stmt(s, in3d=False)
        for s in self.loop.body:
            self._stmt(s, in3d=False)

    def _is3d_test(self, test):
        return isinstance(test, ast.Name) and test.id == self.threeD_name

    def _stmt(self, s, in3d):
        if isinstance(s, ast.If):
            if self._is3d_test(s.test):
                for b in s.body:
                    self._stmt(b, True)
                for b in s.orelse:
                    self._stmt(b, '2d')
                return
            # CIC sign test: if d_a > 0.0
            t = s.test
            if isinstance(t, ast.Compare) and isinstance(t.left, ast.Name) and t.left.id in self.dvar \
                    and isinstance(t.ops[0], ast.Gt) and isinstance(t.comparators[0], ast.Constant) and t.comparators[0].value == 0:
                for b in (s.body if self.case else s.orelse):
                    self._stmt(b, in3d)
                return
            if isinstance(t, ast.Name) and t.id in self.env and self.env[t.id] == Poly.sym('HAVE_W'):
                for b in s.body:
                    self._stmt(b, in3d)
                return
            self.problems.append((s, f'unrecognised conditional {unparse(t)}'))
            return
        if isinstance(s, ast.Assign) and len(s.targets) == 1 and isinstance(s.targets[0], ast.Name):
            name = s.targets[0].id
            v = s.value
            # dtype aliases:  ftype = positions.dtype.type ; itype = np.int16
            if isinstance(v, ast.Attribute) and unparse(v).endswith('.dtype.type'):
                self.casts.add(name)
                return
            if isinstance(v, ast.Attribute) and dotted(v).startswith('np.') and ('int' in v.attr or 'float' in v.attr):
                self.casts.add(name)
                return
            if isinstance(v, (ast.Compare, ast.BoolOp)):
                txt = unparse(v)
                if 'ndim' in txt or (isinstance(v, ast.Compare) and isinstance(v.left, ast.Name) and v.left.id in self.env and 'g' in repr(self.env[v.left.id])):
                    self.threeD_name = name
                    self.threeD_def = txt
                    return
                if 'is not None' in txt and self.wparam and self.wparam in txt:
                    self.env[name] = Poly.sym('HAVE_W')
                    return
            # extent of the third axis, 1 for a 2-D grid:  (grid.shape[2] if grid.ndim == 3 else 1)  -- its 3-D value is the extent
            class _Ext(ast.NodeTransformer):
                def visit_IfExp(s_, n):
                    n = s_.generic_visit(n)
                    if 'ndim' in unparse(n.test) and unparse(n.test).replace(' ', '').endswith('.ndim==3') and isinstance(n.orelse, ast.Constant) and n.orelse.value == 1:
                        return n.body
                    return n
            if any(isinstance(x, ast.IfExp) for x in ast.walk(v)) and not isinstance(v, (ast.Compare, ast.BoolOp)):
                from .srcmodel import clone_pos
                v = _Ext().visit(clone_pos(v))
            try:
                val = self._ev(v)
            except NotInDomain as e:
                self.env[name] = Poly.sym(name)
                return
            pv = val if isinstance(val, Poly) else (to_poly(val) if isinstance(val, BV) else val)
            self.env[name] = pv
            if in3d == '2d':
                self.env[name + '@2d'] = pv
            if not isinstance(pv, Poly):
                return
            # weight of the particle
            if pv == Poly.sym('w'):
                self.Wname = name
            if pv == Poly.const(1) and self.Wname is None and name.upper() == 'W':
                self.Wname = name
            # classify: grid coordinate
            for a in range(3):
                if f'x{a}' in pv.syms() and not any(k.startswith('R') for k in pv.syms()):
                    self.p[a] = pv
                if pv == Poly.sym(f'R{a}'):
                    self.i[a] = name
                if a in self.p and pv == Poly.sym(f'R{a}') - self.p[a]:
                    self.dvar[name] = a
                    self.env[name] = Poly.sym(f'd{a}')
                    if in3d is True:
                        self.guards3d.add(name)
            syms = pv.syms()
            ds = [k for k in syms if k.startswith('d') and k[1:].isdigit()]
            if len(ds) == 1 and syms <= set(ds):
                self.weights[name] = (int(ds[0][1:]), pv, in3d)
            elif pv == Poly.const(0) and name.startswith('w'):
                self.weights[name] = (None, pv, in3d)     # CIC zero arm: axis resolved from siblings
            for k in syms:
                if k.startswith('WRAP<') and pv == Poly.sym(k):
                    inner, bound = k[5:-1].split('|')
                    self.index[name] = self._index_of(inner, bound, in3d, s)
            if pv.is_const() and in3d == '2d':
                if pv == Poly.const(0):
                    self.index[name + '@2d'] = (2, 0, None, '0')
                if pv == Poly.const(1):
                    self.weights[name + '@2d'] = (2, pv, '2d')
            return
        if isinstance(s, ast.AugAssign) and isinstance(s.target, ast.Subscript) and isinstance(s.target.value, ast.Name) \
                and s.target.value.id == self.grid:
            idx = s.target.slice.elts if isinstance(s.target.slice, ast.Tuple) else [s.target.slice]
            factors = _factors(s.value)
            self.deposits.append((s, [unparse(i) for i in idx], factors, in3d, type(s.op).__name__))
            return
        if isinstance(s, ast.Assign) and isinstance(s.targets[0], ast.Subscript) and isinstance(s.targets[0].value, ast.Name) \
                and s.targets[0].value.id == self.grid:
            idx = s.targets[0].slice.elts if isinstance(s.targets[0].slice, ast.Tuple) else [s.targets[0].slice]
            self.deposits.append((s, [unparse(i) for i in idx], _factors(s.value), in3d, 'Assign'))
            return
        if isinstance(s, ast.Expr) and isinstance(s.value, ast.Constant):
            return
        self.problems.append((s, f'unrecognised statement {type(s).__name__}'))

    def _index_of(self, inner, bound, in3d, node):
        """inner = repr of Poly (R_a + o); bound = repr of g_b."""
        for a in range(3):
            for o in (-1, 0, 1):
                if inner == repr(Poly.sym(f'R{a}') + o):
                    bax = int(bound[1:]) if bound.startswith('g') and bound[1:].isdigit() else None
                    return (a, o, bax, inner)
        return (None, None, None, inner)


def _factors(e):
    out = []

    def rec(n):
        if isinstance(n, ast.BinOp) and isinstance(n.op, ast.Mult):
            rec(n.left)
            rec(n.right)
        else:
            out.append(unparse(n))
    rec(e)
    return out


# reference kernels as polynomials in d (cell offset o in {-1,0,+1}), valid for |d| <= 1/2
def tsc_ref(o):
    d = Poly.sym('d')
    if o == 0:
        return Poly.const(Fraction(3, 4)) - d * d
    if o == -1:
        return Poly.const(Fraction(1, 2)) * (Poly.const(Fraction(1, 2)) + d) ** 2
    return Poly.const(Fraction(1, 2)) * (Poly.const(Fraction(1, 2)) - d) ** 2


def cic_ref(o, positive):
    d = Poly.sym('d')
    if o == 0:
        return Poly.const(1) - (d if positive else -d)
    if o == -1:
        return d if positive else Poly.const(0)
    return Poly.const(0) if positive else -d


def nonneg_on_half(p, lo=Fraction(-1, 2), hi=Fraction(1, 2)):
    """Exact: polynomial of degree <= 2 in 'd' is >= 0 on [lo, hi]."""
    c = {0: Fraction(0), 1: Fraction(0), 2: Fraction(0)}
    for m, v in p.t.items():
        deg = dict(m).get('d', 0)
        if set(dict(m)) - {'d'} or deg > 2:
            return False
        c[deg] += v

    def f(x):
        return c[0] + c[1] * x + c[2] * x * x
    pts = [lo, hi]
    if c[2] != 0:
        vx = -c[1] / (2 * c[2])
        if lo <= vx <= hi:
            pts.append(vx)
    return all(f(x) >= 0 for x in pts)
