"""Loop-carried scalars: names that an iteration of a loop can read before it has assigned them itself, although the loop body
assigns them (so the value read is the one left by an EARLIER iteration, or by the code before the loop).

Must-definition analysis over the structured body, with one refinement that the repository's kernels need: a name assigned in the
then-branch of `if G:` is also defined inside a later `if G and ...:` of the same iteration, when no name of G is assigned in the
loop (tracer switches such as want_LRG).  Names whose only stores in the body are augmented assignments (cursors, counters) are
carried on purpose and are reported separately."""
import ast
from .srcmodel import unparse


def _stores(stmts):
    out = {}
    for st in stmts:
        for n in ast.walk(st):
            if isinstance(n, ast.Name) and isinstance(n.ctx, ast.Store):
                out.setdefault(n.id, []).append(n)
    return out


def carried_names(loop):
    """[(name, node)] -- reads inside the body of `loop` (a For) that can see a value of an earlier iteration."""
    body = loop.body
    assigned = _stores(body)
    aug_only = set()
    for nm in assigned:
        kinds = set()
        for st in body:
            for n in ast.walk(st):
                if isinstance(n, ast.AugAssign) and isinstance(n.target, ast.Name) and n.target.id == nm:
                    kinds.add('aug')
                elif isinstance(n, ast.Assign) and any(isinstance(x, ast.Name) and x.id == nm and isinstance(x.ctx, ast.Store) for t in n.targets for x in ast.walk(t)):
                    kinds.add('assign')
                elif isinstance(n, (ast.For, ast.comprehension)) and any(isinstance(x, ast.Name) and x.id == nm for x in ast.walk(n.target)):
                    kinds.add('assign')
        if kinds == {'aug'}:
            aug_only.add(nm)
    target_names = {x.id for x in ast.walk(loop.target) if isinstance(x, ast.Name)}
    found = []
    guard_defs = {}          # guard text -> names defined under it

    def invariant(e):
        return not any(isinstance(x, ast.Name) and (x.id in assigned or x.id in target_names) for x in ast.walk(e))

    def conjuncts(t):
        return list(t.values) if isinstance(t, ast.BoolOp) and isinstance(t.op, ast.And) else [t]

    def reads(e, defined):
        # comprehension / lambda locals are not this loop's names
        local = set()
        for x in ast.walk(e):
            if isinstance(x, ast.comprehension):
                local |= {y.id for y in ast.walk(x.target) if isinstance(y, ast.Name)}
            if isinstance(x, ast.Lambda):
                local |= {a.arg for a in x.args.args}
        for x in ast.walk(e):
            if isinstance(x, ast.Name) and isinstance(x.ctx, ast.Load) and x.id in assigned and x.id not in defined and x.id not in local \
                    and x.id not in aug_only and x.id not in target_names:
                found.append((x.id, x))

    def block(stmts, defined):
        for st in stmts:
            defined = stmt(st, defined)
        return defined

    def stmt(st, defined):
        if isinstance(st, ast.Assign):
            reads(st.value, defined)
            for t in st.targets:
                if isinstance(t, ast.Name):
                    defined = defined | {t.id}
                elif isinstance(t, (ast.Tuple, ast.List)):
                    defined = defined | {x.id for x in ast.walk(t) if isinstance(x, ast.Name) and isinstance(x.ctx, ast.Store)}
                    for x in t.elts:
                        if not isinstance(x, ast.Name):
                            reads(x, defined)
                else:
                    reads(t, defined)
            return defined
        if isinstance(st, ast.AugAssign):
            reads(st.value, defined)
            if isinstance(st.target, ast.Name):
                if st.target.id in assigned and st.target.id not in defined and st.target.id not in aug_only:
                    found.append((st.target.id, st.target))
            else:
                reads(st.target, defined)
            return defined
        if isinstance(st, ast.AnnAssign):
            if st.value is not None:
                reads(st.value, defined)
                if isinstance(st.target, ast.Name):
                    defined = defined | {st.target.id}
            return defined
        if isinstance(st, ast.If):
            reads(st.test, defined)
            extra = set()
            cj = conjuncts(st.test)
            for c in cj:
                if invariant(c):
                    extra |= guard_defs.get(unparse(c), set())
            d1 = block(st.body, defined | extra)
            d2 = block(st.orelse, defined)
            for c in cj:
                if invariant(c) and len(cj) >= 1:
                    # names defined on every path through the then-branch are available under the same guard later on
                    if len(cj) == 1:
                        guard_defs.setdefault(unparse(c), set()).update(d1 - defined)
            return (d1 & d2) if st.orelse else defined
        if isinstance(st, ast.For):
            reads(st.iter, defined)
            inner = defined | {x.id for x in ast.walk(st.target) if isinstance(x, ast.Name)}
            block(st.body, inner)
            block(st.orelse, defined)
            return defined
        if isinstance(st, ast.While):
            reads(st.test, defined)
            block(st.body, defined)
            return defined
        if isinstance(st, (ast.Expr, ast.Return, ast.Assert, ast.Raise)):
            for c in ast.iter_child_nodes(st):
                if isinstance(c, ast.expr):
                    reads(c, defined)
            return defined
        if isinstance(st, ast.With):
            for it in st.items:
                reads(it.context_expr, defined)
            return block(st.body, defined)
        if isinstance(st, (ast.Pass, ast.Break, ast.Continue)):
            return defined
        for c in ast.iter_child_nodes(st):
            if isinstance(c, ast.expr):
                reads(c, defined)
        return defined

    block(body, set())
    seen, out = set(), []
    for nm, node in found:
        if nm not in seen:
            seen.add(nm)
            out.append((nm, node))
    return out, sorted(aug_only)
