"""Entailment with cone-of-influence slicing, case symbols and caching."""
import itertools

from .lin import Lin, Facts, infeasible
from .absval import cone

_cache = {}


def _key(ge, eq, goal, atoms):
    return (frozenset(ge), frozenset(eq), goal, atoms)


def _expand_cases(state, syms):
    """Case symbols reachable from syms -> list of alternative (conds, eqs) sets (cartesian product)."""
    todo = [s for s in syms if s in state.cases]
    seen = []
    while todo:
        s = todo.pop()
        if s in seen:
            continue
        seen.append(s)
        for conds, val in state.cases[s]:
            for l in list(conds) + [val]:
                for t in l.syms():
                    if t in state.cases and t not in seen:
                        todo.append(t)
    if not seen:
        return [([], [])]
    if len(seen) > 6:
        seen = seen[:6]
    alts = []
    for choice in itertools.product(*[range(len(state.cases[s])) for s in seen]):
        ge, eq = [], []
        for s, ci in zip(seen, choice):
            conds, val = state.cases[s][ci]
            ge.extend(conds)
            eq.append(Lin.sym(s) - val)
        alts.append((ge, eq))
    return alts


def entails_ge(state, goal):
    """state |= goal >= 0 (True = proven)."""
    goal = goal if isinstance(goal, Lin) else Lin.const(goal)
    if goal.is_const():
        return goal.c >= 0
    f = state.facts
    for cge, ceq in _expand_cases(state, _closure_syms(state, goal)):
        ge = f.ge + cge
        eq = f.eq + ceq
        uge, ueq, syms = cone(ge, eq, goal.syms(), state.cases)
        atoms = tuple(sorted(n for n in f.atoms if n in syms))
        k = _key(uge, ueq, goal, atoms)
        if k not in _cache:
            sub = Facts()
            sub.ge, sub.eq = uge, ueq
            sub.atoms = {n: f.atoms[n] for n in atoms}
            sub.reals = set(f.reals)
            _cache[k] = sub.entails_ge(goal)
        if not _cache[k]:
            return False
    return True


def _closure_syms(state, goal):
    """symbols connected to the goal through facts (used to find relevant case symbols)."""
    _, _, syms = cone(state.facts.ge, state.facts.eq, goal.syms(), state.cases)
    return syms | goal.syms()


def entails_le(state, a, b):
    return entails_ge(state, _l(b) - _l(a))


def entails_lt(state, a, b):
    return entails_ge(state, _l(b) - _l(a) - 1)


def witness(state, goal, maxval=8):
    """Small integer witness of facts and not(goal >= 0), or None. Only the cone of the goal is used,
    so the witness binds just the relevant symbols."""
    f = state.facts
    for cge, ceq in _expand_cases(state, _closure_syms(state, goal)):
        uge, ueq, syms = cone(f.ge + cge, f.eq + ceq, goal.syms(), state.cases)
        sub = Facts()
        sub.ge, sub.eq = uge, ueq
        sub.atoms = {n: d for n, d in f.atoms.items() if n in syms}
        if len(sub.base_syms()) > 7:
            continue
        w = sub.witness(goal, maxval=maxval, budget=60000)
        if w is not None:
            return w
    return None


def feasible(state, conds):
    """False only if facts and conds are certainly contradictory."""
    if not conds:
        return True
    for c in conds:
        if c.is_const() and c.c < 0:
            return False
    f = state.facts
    syms = set()
    for c in conds:
        syms |= c.syms()
    for cge, ceq in _expand_cases(state, syms):
        uge, ueq, s2 = cone(f.ge + cge + list(conds), f.eq + ceq, syms, state.cases)
        k = ('feas', frozenset(uge), frozenset(ueq))
        if k not in _cache:
            _cache[k] = infeasible(uge, ueq, frozenset(f.reals))
        if _cache[k] is not True:
            return True
    return False


def _l(x):
    return x if isinstance(x, Lin) else Lin.const(x)


def consistent(state, extra=()):
    """False only if the facts (plus extra >= 0 constraints) certainly have no integer solution.
    Uses all facts (no cone), with case symbols expanded."""
    f = state.facts
    syms = set()
    for l in f.ge + f.eq + list(extra):
        syms |= l.syms()
    for c in extra:
        if c.is_const() and c.c < 0:
            return False
    for cge, ceq in _expand_cases(state, syms):
        if infeasible(f.ge + cge + list(extra), f.eq + ceq, frozenset(f.reals)) is not True:
            # also try min/max case splits
            sub = Facts()
            sub.ge, sub.eq, sub.atoms, sub.reals = f.ge + cge + list(extra), f.eq + ceq, f.atoms, set(f.reals)
            if sub.consistent():
                return True
    return False
