"""Modular array-bounds prover for numba kernels (syntax-directed abstract interpretation).

For every scalar subscript A[e] on every axis: obligation  -dim <= e < dim  (numba wraps
negative scalar indices; slices clamp and produce no obligation).  Facts: loop ranges, sizes of
parameters and local allocations, guards on the path, floor-div/min/max axioms, the
repository's idioms as lemmas (block tables, counters, search cursors, thread ids) and the
kernel's contract.  Verdicts: PROVEN, ASSUMED(contract), REFUTED(witness), UNKNOWN.
"""
import ast

from .lin import Lin
from .absval import Int, Opaque, NoneV, Tup, Arr, Cond, State, fresh
from . import prove
from .srcmodel import dotted, unparse, norm, walk_no_nested, AnalysisError

INT_CASTS = {'int', 'np.int8', 'np.int16', 'np.int32', 'np.int64', 'np.uint8', 'np.uint16', 'np.uint32',
             'np.uint64', 'np.intp', 'np.ubyte', 'numba.int64', 'nb.int64', 'np.int_', 'bool', 'np.bool_'}
ALLOC = {'np.empty', 'np.zeros', 'np.ones', 'np.full'}
ALLOC_LIKE = {'np.empty_like', 'np.zeros_like', 'np.ones_like', 'np.copy', 'np.ascontiguousarray',
              'np.asarray', 'np.asanyarray', 'np.abs', 'np.sqrt', 'np.rint', 'np.floor', 'np.ceil',
              'np.exp', 'np.log', 'np.sin', 'np.cos', 'np.conj', 'np.real', 'np.imag', 'np.square',
              'np.float32', 'np.float64', 'np.atleast_1d', 'np.negative', 'np.arccos', 'np.arcsin', 'np.log10',
              'np.isnan', 'np.isfinite', 'np.sign'}
SAME_SHAPE_METHODS = {'astype', 'copy', 'view', 'conj', 'cumsum_keep'}


class Access:
    __slots__ = ('array', 'axis', 'index', 'text', 'line', 'verdict', 'detail', 'witness', 'store', 'key')

    def __init__(self, array, axis, index, text, line, store):
        self.array, self.axis, self.index, self.text, self.line, self.store = array, axis, index, text, line, store
        self.verdict, self.detail, self.witness = None, '', None
        self.key = f'{array}[axis{axis}]:{text}'


class Kernel:
    """Analysis of one function."""

    def __init__(self, src, rel, qualname, contract=None, helpers=None, modconsts=None):
        self.src, self.rel, self.qualname = src, rel, qualname
        self.fn = src.func(rel, qualname)
        self.contract = contract or {}
        self.helpers = helpers or {}     # name -> FunctionDef of tiny helpers to inline
        self.modconsts = modconsts or {}
        self.accesses = {}               # key -> Access (worst verdict over paths)
        self.calls = []                  # (callee dotted name, node, [arg Vals], {kw: Val}, state)
        self.assumed_syms = {}           # symbol -> reason (symbols whose bounds came from a contract/lemma)
        self.assumed_facts = {}          # Lin (>= 0 fact) -> reason (contract clauses)
        self.notes = []
        self.cursors = {}                # var -> dict(E=array var name, guarded=bool, ...)
        self.record_stores = False
        self.stores = []                 # (array name, axis, index Lin, state snapshot, node, value Val)
        self.loads = []
        self.returns = []                # state snapshots at return statements / function end
        self.raises = []                 # (raise node, state snapshot)
        self.max_paths = None
        self.exact_syms = set()          # symbols whose facts are exact (loop variables with their full range)
        self.content_in = {}             # local array name -> (lo, hi, reason): element bounds from a previous pass
        self.content_out = {}            # local array name -> list of (lo_ok, [hi candidates]) per store
        self.split_dnf = False           # split paths on and/or/!= conditions (small decision code only)
        self.nsteps = 0

    # ------------------------------------------------------------------ entry
    def run(self):
        st = State()
        st.facts.add_ge(Lin.sym('NT') - 1)
        self._bind_params(st)
        self._scan_cursors()
        self._contract_facts(st)
        end = self.exec_block(self.fn.body, [st])
        if self.record_stores:
            self.returns.extend(e.copy() for e in end)
        return self

    def _bind_params(self, st):
        a = self.fn.args
        params = a.posonlyargs + a.args + a.kwonlyargs
        defaults = dict(zip([p.arg for p in a.args[len(a.args) - len(a.defaults):]], a.defaults))
        for p, d in zip(a.kwonlyargs, a.kw_defaults):
            if d is not None:
                defaults[p.arg] = d
        kinds = self.contract.get('params', {})
        for p in params:
            n = p.arg
            if n == 'self':
                st.env[n] = Opaque('self')
                continue
            kind = kinds.get(n)
            d = defaults.get(n)
            if kind is None:
                kind = self._infer_kind(n, d)
            if kind == 'int':
                st.env[n] = Int(Lin.sym(n))
            elif kind == 'bool':
                s = Lin.sym(n)
                st.facts.add_ge(s)
                st.facts.add_le(s, 1)
                st.env[n] = Int(s)
            elif kind == 'shape':
                st.env[n] = _ShapeOf(Arr(n + '_of', None, None))
            elif kind == 'arr':
                st.env[n] = Arr(n, None, None)
            elif kind == 'optarr':
                ns = f'isnone({n})'
                st.facts.add_ge(Lin.sym(ns))
                st.facts.add_le(Lin.sym(ns), 1)
                st.env[n] = Arr(n, None, ns)
            else:
                st.env[n] = Opaque(n)

    def _infer_kind(self, name, default):
        """Classify a parameter from how the body uses it."""
        sub = idx = rng = flag = isnone = arith = False
        for node in walk_no_nested(self.fn):
            if isinstance(node, ast.Subscript) and isinstance(node.value, ast.Name) and node.value.id == name:
                sub = True
            if isinstance(node, ast.Call):
                cn = dotted(node.func)
                if cn in ('len',) and node.args and isinstance(node.args[0], ast.Name) and node.args[0].id == name:
                    sub = True
                if cn in ('range', 'numba.prange', 'nb.prange', 'prange'):
                    for a in node.args:
                        if name in {x.id for x in ast.walk(a) if isinstance(x, ast.Name)}:
                            rng = True
            if isinstance(node, ast.Attribute) and isinstance(node.value, ast.Name) and node.value.id == name \
                    and node.attr in ('shape', 'ndim', 'dtype', 'size', 'T', 'reshape', 'astype', 'sum'):
                sub = True
            if isinstance(node, ast.Compare) and isinstance(node.left, ast.Name) and node.left.id == name \
                    and any(isinstance(o, (ast.Is, ast.IsNot)) for o in node.ops):
                isnone = True
            if isinstance(node, (ast.If, ast.IfExp)) and isinstance(node.test, ast.Name) and node.test.id == name:
                flag = True
            if isinstance(node, ast.Subscript):
                for x in ast.walk(node.slice):
                    if isinstance(x, ast.Name) and x.id == name:
                        idx = True
        if isinstance(default, ast.Constant) and isinstance(default.value, bool):
            return 'bool'
        if sub:
            return 'optarr' if (isnone or (isinstance(default, ast.Constant) and default.value is None)) else 'arr'
        if isinstance(default, ast.Constant) and default.value is None and isnone:
            return 'optarr'
        if isinstance(default, ast.Constant) and isinstance(default.value, int):
            return 'int'
        if rng or idx:
            return 'int'
        if flag:
            return 'bool'
        return 'opaque'

    def _contract_facts(self, st):
        """Contract 'requires' entries are linear facts over parameter sizes, e.g. 'len(out) >= 1'."""
        for txt, reason in self.contract.get('requires', []):
            self._assume_text(st, txt, reason)

    def _assume_text(self, st, txt, reason):
        node = ast.parse(txt, mode='eval').body
        c = self.cond(node, st, quiet=True)
        if c.tf is None:
            raise AnalysisError(f'contract clause not linear: {txt}')
        for l in c.tf:
            st.facts.add_ge(l)
            self.assumed_facts[l] = reason

    # ------------------------------------------------------------- expressions
    def ev(self, node, st, quiet=False):
        """Evaluate expression -> Val; records subscript obligations unless quiet."""
        self.nsteps += 1
        m = getattr(self, 'ev_' + type(node).__name__, None)
        if m is None:
            for ch in ast.iter_child_nodes(node):
                if isinstance(ch, ast.expr):
                    self.ev(ch, st, quiet)
            return Opaque(type(node).__name__)
        return m(node, st, quiet)

    def ev_Constant(self, node, st, quiet):
        v = node.value
        if isinstance(v, bool):
            return Int(int(v))
        if isinstance(v, int):
            return Int(v)
        if v is None:
            return NoneV()
        return Opaque(repr(v))

    def ev_Name(self, node, st, quiet):
        if node.id in st.env:
            return st.env[node.id]
        if node.id in self.modconsts:
            return self.modconsts[node.id]
        return Opaque(node.id)

    def ev_Tuple(self, node, st, quiet):
        return Tup([self.ev(e, st, quiet) for e in node.elts])

    ev_List = ev_Tuple

    def ev_UnaryOp(self, node, st, quiet):
        v = self.ev(node.operand, st, quiet)
        if isinstance(node.op, ast.USub) and isinstance(v, Int):
            return Int(-v.lin)
        if isinstance(node.op, ast.UAdd):
            return v
        if isinstance(node.op, ast.Not):
            c = self.as_cond(v, st)
            return c.negate() if c else Opaque('not')
        if isinstance(v, Arr):
            return v.with_dims(v.dims) if v.dims is not None else v
        return Opaque('unary')

    def ev_BinOp(self, node, st, quiet):
        a = self.ev(node.left, st, quiet)
        b = self.ev(node.right, st, quiet)
        op = node.op
        if isinstance(a, Int) and isinstance(b, Int):
            try:
                if isinstance(op, ast.Add):
                    return Int(a.lin + b.lin)
                if isinstance(op, ast.Sub):
                    return Int(a.lin - b.lin)
                if isinstance(op, ast.Mult):
                    if a.lin.is_const() or b.lin.is_const():
                        return Int(a.lin * b.lin)
                    s = Lin.sym(f'prod[{a.lin}*{b.lin}]')
                    if prove.entails_ge(st, a.lin) and prove.entails_ge(st, b.lin):
                        st.facts.add_ge(s)
                        if prove.entails_ge(st, b.lin - 1):
                            st.facts.add_ge(s - a.lin)
                        if prove.entails_ge(st, a.lin - 1):
                            st.facts.add_ge(s - b.lin)
                    return Int(s)
                if isinstance(op, ast.FloorDiv) and b.lin.is_const() and b.lin.c > 0 and b.lin.c.denominator == 1:
                    return Int(st.facts.fdiv(a.lin, int(b.lin.c)))
                if isinstance(op, ast.Mod) and b.lin.is_const() and b.lin.c > 0 and b.lin.c.denominator == 1:
                    return Int(st.facts.mod(a.lin, int(b.lin.c)))
                if isinstance(op, ast.Mod):
                    s = Lin.sym(fresh('mod'))
                    if prove.entails_ge(st, b.lin - 1):
                        st.facts.add_ge(s)
                        st.facts.add_lt(s, b.lin)
                    return Int(s)
                if isinstance(op, ast.FloorDiv):
                    s = Lin.sym(fresh('fdivv'))
                    if prove.entails_ge(st, a.lin) and prove.entails_ge(st, b.lin - 1):
                        st.facts.add_ge(s)
                        st.facts.add_le(s, a.lin)
                    return Int(s)
                if isinstance(op, ast.Pow) and a.lin.is_const() and b.lin.is_const() and b.lin.c >= 0 \
                        and b.lin.c.denominator == 1 and a.lin.c.denominator == 1:
                    return Int(int(a.lin.c) ** int(b.lin.c))
                if isinstance(op, ast.Pow) and b.lin.is_const() and b.lin.c == 2:
                    s = Lin.sym(fresh('sq'))
                    st.facts.add_ge(s)
                    return Int(s)
                if isinstance(op, ast.BitAnd):
                    for x, y in ((a, b), (b, a)):
                        if y.lin.is_const() and y.lin.c >= 0:
                            s = Lin.sym(fresh('and'))
                            st.facts.add_ge(s)
                            st.facts.add_le(s, y.lin)
                            return Int(s)
                if isinstance(op, ast.RShift) and b.lin.is_const():
                    s = Lin.sym(fresh('shr'))
                    if prove.entails_ge(st, a.lin):
                        st.facts.add_ge(s)
                        st.facts.add_le(s, a.lin)
                    return Int(s)
                if isinstance(op, ast.LShift) and b.lin.is_const() and 0 <= b.lin.c < 63:
                    return Int(a.lin.scale(2 ** int(b.lin.c)))
                if isinstance(op, ast.BitOr):
                    s = Lin.sym(fresh('or'))
                    if prove.entails_ge(st, a.lin) and prove.entails_ge(st, b.lin):
                        st.facts.add_ge(s)
                        st.facts.add_le(s, a.lin + b.lin)
                    return Int(s)
            except ValueError:
                pass
            return Int(Lin.sym(fresh('iop')))
        # array arithmetic keeps the (broadcast) shape of the array operand
        for x, y in ((a, b), (b, a)):
            if isinstance(x, Arr) and not isinstance(y, Arr):
                tags = {}
                if isinstance(y, Int) and isinstance(op, ast.Add) and 'content' in x.tags:
                    lo_, hi_, why_ = x.tags['content']
                    tags = dict(x.tags)
                    tags['content'] = (lo_ + y.lin if lo_ is not None else None, hi_ + y.lin if hi_ is not None else None, why_)
                if x.dims is not None:
                    return x.with_dims(x.dims, tags=tags)
                r_ = Arr(fresh(x.ident + "'"), None)
                r_._lazy = x._lazy          # same (lazily named) sizes as the operand
                return r_
        if isinstance(a, Arr) and isinstance(b, Arr):
            if a.dims is not None and b.dims is not None and len(a.dims) == len(b.dims):
                return a.with_dims(a.dims)
            return Arr(fresh('bcast'), None)
        if isinstance(op, (ast.Add, ast.Sub, ast.Mult)) and (isinstance(a, Opaque) or isinstance(b, Opaque)):
            return Opaque('arith')
        return Opaque('binop')

    def ev_IfExp(self, node, st, quiet):
        c = self.cond(node.test, st, quiet)
        # evaluate each arm under its condition
        sa = st.copy()
        if c.tf:
            for l in c.tf:
                sa.facts.add_ge(l)
        sb = st.copy()
        if c.ff:
            for l in c.ff:
                sb.facts.add_ge(l)
        a = self.ev(node.body, sa, quiet) if (c.tf is None or prove.feasible(st, c.tf)) else None
        b = self.ev(node.orelse, sb, quiet) if (c.ff is None or prove.feasible(st, c.ff)) else None
        self._merge_atoms(st, sa, sb)
        if a is None:
            return b if b is not None else Opaque('dead')
        if b is None:
            return a
        if isinstance(a, Int) and isinstance(b, Int):
            if a.lin == b.lin:
                return a
            s = fresh('ite')
            st.cases[s] = [(list(c.tf or []), a.lin), (list(c.ff or []), b.lin)]
            return Int(Lin.sym(s))
        if isinstance(a, Arr) and isinstance(b, NoneV):
            return self._optional(a, c, st, none_when_true=False)
        if isinstance(b, Arr) and isinstance(a, NoneV):
            return self._optional(b, c, st, none_when_true=True)
        if isinstance(a, Arr) and isinstance(b, Arr):
            return a if a.ident == b.ident else Arr(fresh('ite_arr'), None)
        if type(a) is type(b) and isinstance(a, (NoneV,)):
            return a
        return Opaque('ite')

    def _optional(self, arr, c, st, none_when_true):
        """x = A[...] if A is not None else None  ->  array that is None exactly when the test says so."""
        ns = fresh('isnone')
        s = Lin.sym(ns)
        st.facts.add_ge(s)
        st.facts.add_le(s, 1)
        tf, ff = (c.tf, c.ff) if none_when_true else (c.ff, c.tf)
        st.cases[ns] = [(list(tf or []), Lin.const(1)), (list(ff or []), Lin.const(0))]
        r = Arr(arr.ident, arr.dims, ns, arr.tags)
        r._lazy = arr._lazy
        return r

    def _merge_atoms(self, st, *others):
        for o in others:
            for n, d in o.facts.atoms.items():
                if n not in st.facts.atoms:
                    st.facts.atoms[n] = d
                    # bring the axioms along
                    q = Lin.sym(n)
                    if d[0] == 'fdiv':
                        st.facts.ge.append(d[1] - q.scale(d[2]))
                        st.facts.ge.append(q.scale(d[2]) + (d[2] - 1) - d[1])
                    elif d[0] == 'min':
                        st.facts.ge.append(d[1] - q)
                        st.facts.ge.append(d[2] - q)
                    elif d[0] == 'max':
                        st.facts.ge.append(q - d[1])
                        st.facts.ge.append(q - d[2])

    def ev_Compare(self, node, st, quiet):
        return self.cond(node, st, quiet)

    def ev_BoolOp(self, node, st, quiet):
        return self.cond(node, st, quiet)

    def ev_Attribute(self, node, st, quiet):
        if dotted(node).endswith('NUMBA_NUM_THREADS'):
            s = Lin.sym('NUMBA_NUM_THREADS')
            st.facts.add_ge(s - 1)
            return Int(s)
        v = self.ev(node.value, st, quiet)
        if isinstance(v, Arr):
            if node.attr == 'shape':
                if v.dims is not None:
                    return Tup([Int(d) for d in v.dims])
                return _ShapeOf(v)
            if node.attr == 'T':
                if v.dims is not None:
                    return v.with_dims(list(reversed(v.dims)))
                return Arr(fresh(v.ident + '.T'), None)
            if node.attr == 'size':
                if v.dims is not None and len(v.dims) == 1:
                    return Int(v.dims[0])
                s = Lin.sym(f'{v.ident}.size')
                st.facts.add_ge(s)
                return Int(s)
            if node.attr == 'ndim':
                if v.dims is not None:
                    return Int(len(v.dims))
                if self._rank_hint(v) is not None:
                    return Int(self._rank_hint(v))
                return Int(Lin.sym(f'{v.ident}.ndim'))
            if node.attr in ('real', 'imag'):
                return v
        return Opaque('attr:' + node.attr)

    # subscripts ---------------------------------------------------------------
    def ev_Subscript(self, node, st, quiet):
        return self.subscript(node, st, quiet, store=False)

    def subscript(self, node, st, quiet, store):
        base = self.ev(node.value, st, quiet)
        sl = node.slice
        items = sl.elts if isinstance(sl, ast.Tuple) else [sl]
        if isinstance(base, _ShapeOf):
            k = self.ev(items[0], st, quiet)
            if isinstance(k, Int) and k.lin.is_const():
                d = base.arr.dim(int(k.lin.c), st.facts)
                return Int(d) if d is not None else Opaque('shape?')
            sh = Lin.sym(fresh('shape'))
            st.facts.add_ge(sh)
            return Int(sh)
        if isinstance(base, Tup):
            k = self.ev(items[0], st, quiet)
            if isinstance(k, Int) and k.lin.is_const() and -len(base.items) <= k.lin.c < len(base.items):
                return base.items[int(k.lin.c)]
            return Opaque('tupidx')
        if not isinstance(base, Arr) or any(isinstance(it, ast.Constant) and isinstance(it.value, str) for it in items):
            for it in items:
                self._ev_index_item(it, st, quiet)
            return Opaque('sub')
        # array indexing
        if base.nonesym is not None and not quiet:
            if not prove.feasible(st, [Lin.sym(base.nonesym) * -1]):   # certainly None here
                return Opaque('dead')
        outdims = []
        axis = 0
        allscalar = True
        idxkey = []
        for it in items:
            if isinstance(it, ast.Slice):
                allscalar = False
                d = base.dim(axis, st.facts)
                lo = self.ev(it.lower, st, quiet) if it.lower is not None else None
                hi = self.ev(it.upper, st, quiet) if it.upper is not None else None
                if it.step is not None:
                    self.ev(it.step, st, quiet)
                    outdims.append(self._fresh_dim(st, d))
                else:
                    outdims.append(self._slice_len(st, d, lo, hi))
                axis += 1
                continue
            v = self.ev(it, st, quiet)
            if isinstance(v, NoneV):  # np.newaxis
                allscalar = False
                outdims.append(Lin.const(1))
                continue
            if isinstance(v, (Arr, Cond)) or (isinstance(v, Opaque) and v.tag.startswith('mask')):
                # boolean mask / fancy index: result length unknown
                allscalar = False
                outdims.append(self._fresh_dim(st, None))
                axis += 1
                continue
            d = base.dim(axis, st.facts)
            if isinstance(v, Int):
                idxkey.append(v.lin)
                if not quiet:
                    self._obligation(base, axis, v.lin, d, it, st, store)
            else:
                idxkey.append(None)
                if not quiet:
                    self._obligation(base, axis, None, d, it, st, store)
            axis += 1
        if allscalar:
            if base.dims is not None and axis < len(base.dims):
                return base.with_dims(base.dims[axis:], tags=base.tags)   # row view
            if base.dims is None and not store and self._rank_hint(base) is not None and axis < self._rank_hint(base):
                return Arr(fresh(base.ident + '.row'), [base.dim(k, st.facts) for k in range(axis, self._rank_hint(base))])
            return self._load_elem(base, idxkey, st)
        # trailing axes
        if base.dims is not None:
            outdims.extend(base.dims[axis:])
            return base.with_dims(outdims, tags=base.tags)
        rk = self._rank_hint(base)
        if rk is not None:
            outdims.extend(base.dim(k, st.facts) for k in range(axis, rk))
            r = base.with_dims(outdims, tags=base.tags)
            return r
        r = Arr(fresh(base.ident + '.sl'), None, None, base.tags)
        for k, d in enumerate(outdims):
            r._lazy[k] = d
        return r

    def _rank_hint(self, arr):
        return (self.contract.get('rank') or {}).get(arr.ident.split('#')[0].split("'")[0])

    def _ev_index_item(self, it, st, quiet):
        if isinstance(it, ast.Slice):
            for p in (it.lower, it.upper, it.step):
                if p is not None:
                    self.ev(p, st, quiet)
        else:
            self.ev(it, st, quiet)

    def _fresh_dim(self, st, upper):
        s = Lin.sym(fresh('dim'))
        st.facts.add_ge(s)
        if upper is not None:
            st.facts.add_le(s, upper)
        return s

    def _slice_len(self, st, d, lo, hi):
        """Length of A[lo:hi] on an axis of size d (clamping semantics)."""
        lo_l = lo.lin if isinstance(lo, Int) else (Lin.const(0) if lo is None else None)
        hi_l = hi.lin if isinstance(hi, Int) else (d if hi is None else None)
        if lo_l is not None and hi_l is not None and d is not None:
            if prove.entails_ge(st, lo_l) and prove.entails_le(st, lo_l, hi_l) and prove.entails_le(st, hi_l, d):
                return hi_l - lo_l
            if hi is None and prove.entails_ge(st, lo_l) and prove.entails_le(st, lo_l, d):
                return d - lo_l
        s = self._fresh_dim(st, d)
        if lo_l is not None and hi_l is not None and prove.entails_ge(st, lo_l) and prove.entails_le(st, lo_l, hi_l):
            st.facts.add_le(s, hi_l - lo_l)
        elif lo is None and hi_l is not None and prove.entails_ge(st, hi_l):
            st.facts.add_le(s, hi_l)
        return s

    def _load_elem(self, base, idxkey, st):
        k = (base.ident, tuple(idxkey))
        if None not in idxkey and k in st.elem:
            return st.elem[k]
        cb = st.content.get(base.ident) or base.tags.get('content') or self.content_in.get(base.ident.split('#')[0])
        if cb is not None:
            lo, hi, why = cb
            s = Lin.sym(fresh(f'{base.ident}[]'))
            if lo is not None:
                st.facts.add_ge(s - lo)
            if hi is not None:
                st.facts.add_le(s, hi)
            if why:
                self.assumed_syms[next(iter(s.t))] = why
            if 'blocktable' in base.tags and None not in idxkey and len(idxkey) == 1:
                self._blocktable_elem(base, idxkey[0], s, st)
            return Int(s)
        if base.tags.get('int'):
            return Int(Lin.sym(fresh(f'{base.ident}[]')))
        return Opaque(f'elem:{base.ident}')

    def _blocktable_elem(self, base, idx, s, st):
        """T = linspace(0,H,n+1): remember T[idx] symbols so that T[t] <= T[t+1] can be used."""
        reg = st.elem.setdefault(('__bt__', base.ident), {})
        reg = dict(reg)
        for other_idx, other_s in reg.items():
            d = idx - other_idx
            if d.is_const():
                if d.c >= 0:
                    st.facts.add_le(other_s, s)
                if d.c <= 0:
                    st.facts.add_le(s, other_s)
        reg[idx] = s
        st.elem[('__bt__', base.ident)] = reg

    # ------------------------------------------------------------- obligations
    def _obligation(self, base, axis, idx, dim, node, st, store):
        text = unparse(node)
        arrname = base.ident.split('#')[0].rstrip("'")
        acc = Access(arrname, axis, idx, text, getattr(node, 'lineno', None), store)
        if self.record_stores:
            (self.stores if store else self.loads).append((arrname, axis, idx, st.copy(), node))
        verdict, detail, wit = self._decide(base, idx, dim, st, text)
        acc.verdict, acc.detail, acc.witness = verdict, detail, wit
        old = self.accesses.get(acc.key)
        rank = {'PROVEN': 0, 'ASSUMED': 1, 'UNKNOWN': 2, 'REFUTED': 3}
        if old is None or rank[verdict] > rank[old.verdict]:
            self.accesses[acc.key] = acc

    def _decide(self, base, idx, dim, st, text=''):
        vi = self.contract.get('value_indices', {})
        if text in vi:
            return 'ASSUMED', vi[text], None
        if idx is None:
            return 'UNKNOWN', 'index is not an integer expression the analyser tracks', None
        if dim is None:
            return 'UNKNOWN', 'axis beyond known rank', None
        up = prove.entails_lt(st, idx, dim)
        lo = prove.entails_ge(st, idx + dim)
        if up and lo:
            syms = self._goal_cone_syms(st, idx, dim)
            why = {self.assumed_syms[s] for s in syms if s in self.assumed_syms}
            if self.assumed_facts:
                # does the proof go through without the contract clauses?
                bare = st.copy()
                bare.facts.ge = [l for l in st.facts.ge if l not in self.assumed_facts]
                if not (prove.entails_lt(bare, idx, dim) and prove.entails_ge(bare, idx + dim)):
                    from .absval import cone
                    uge, _, _ = cone(st.facts.ge, st.facts.eq, (idx - dim).syms() | idx.syms() | dim.syms(), st.cases)
                    why |= {self.assumed_facts[l] for l in uge if l in self.assumed_facts}
            if why:
                return 'ASSUMED', '; '.join(sorted(why)), None
            return 'PROVEN', f'-{dim} <= {idx} < {dim}', None
        goal = (dim - idx - 1) if not up else (idx + dim)
        if not st.facts.lossy:
            syms = self._goal_cone_syms(st, idx, dim)
            # follow case symbols into their definitions
            todo = [x for x in syms if x in st.cases]
            seen_c = set()
            while todo:
                c_ = todo.pop()
                if c_ in seen_c:
                    continue
                seen_c.add(c_)
                for conds, val in st.cases[c_]:
                    for l_ in list(conds) + [val]:
                        extra = self._goal_cone_syms(st, l_, Lin.const(0))
                        for x in extra:
                            if x not in syms:
                                syms.add(x)
                                if x in st.cases:
                                    todo.append(x)
            inexact = [s_ for s_ in syms if ('#' in s_ or s_.startswith('prod[')) and s_ not in self.exact_syms and s_ not in st.cases
                       and not s_.startswith(('fdiv[', 'min[', 'max['))]
            if not inexact:
                w = prove.witness(st, goal)
                if w is not None:
                    return 'REFUTED', f'index {idx} can leave [-{dim}, {dim})', w
        return 'UNKNOWN', f'cannot prove -{dim} <= {idx} < {dim}', None

    def _goal_cone_syms(self, st, idx, dim):
        from .absval import cone
        _, _, syms = cone(st.facts.ge, st.facts.eq, (idx - dim).syms() | idx.syms() | dim.syms(), st.cases)
        return syms


class _ShapeOf(Opaque):
    def __init__(self, arr):
        super().__init__('shape')
        self.arr = arr
