"""Evaluate integer/float kernel expressions into bit-provenance vectors and, above them,
exact polynomials over extracted bit fields and scale symbols."""
import ast
import re

from .bits import BV
from .poly import Poly
from .srcmodel import dotted, unparse, AnalysisError

INTCAST = re.compile(r'^(?:np|numpy|nb|numba)\.(u?)int(8|16|32|64)$')
FLOATCASTS = {'np.float32', 'np.float64', 'float', 'np.double', 'np.single'}


class NotInDomain(Exception):
    pass


def field_sym(src, lo, hi, signed):
    return f'F<{src}:{lo}-{hi}:{"s" if signed else "u"}>'


def to_poly(v):
    if isinstance(v, Poly):
        return v
    if isinstance(v, BV):
        f = v.field()
        if f is None:
            raise NotInDomain(f'bit vector is not a single field: {v.describe()}')
        if f[0] == 'const':
            val = f[1]
            if v.signed and val >= 1 << 63:
                val -= 1 << 64
            return Poly.const(val)
        return Poly.sym(field_sym(*f))
    raise NotInDomain(f'value {v!r}')


class BPEval:
    def __init__(self, env=None, input_fn=None, floatcast_names=(), call_fn=None):
        self.env = dict(env or {})
        self.input_fn = input_fn
        self.floatcast = set(floatcast_names)
        self.call_fn = call_fn

    def ev(self, node):
        if isinstance(node, ast.Constant):
            if isinstance(node.value, bool):
                return BV.const(int(node.value))
            if isinstance(node.value, int):
                return BV.const(node.value)
            if isinstance(node.value, float):
                return Poly.from_float_literal(node.value)
            raise NotInDomain(f'constant {node.value!r}')
        if isinstance(node, ast.Name):
            if node.id in self.env:
                return self.env[node.id]
            return Poly.sym(node.id)
        if isinstance(node, ast.Attribute):
            if self.input_fn is not None:
                v = self.input_fn(node)
                if v is not None:
                    return v
            d = dotted(node)
            if d in ('np.nan', 'numpy.nan'):
                return Poly.sym('NaN')
            if d in ('np.pi', 'math.pi'):
                return Poly.sym('pi')
            return Poly.sym(d or unparse(node))
        if isinstance(node, ast.Subscript):
            if self.input_fn is not None:
                v = self.input_fn(node)
                if v is not None:
                    return v
            raise NotInDomain(f'unmodelled subscript {unparse(node)}')
        if isinstance(node, ast.UnaryOp) and isinstance(node.op, ast.USub):
            return -to_poly(self.ev(node.operand))
        if isinstance(node, ast.UnaryOp) and isinstance(node.op, ast.UAdd):
            return self.ev(node.operand)
        if isinstance(node, ast.BinOp):
            a, b = self.ev(node.left), self.ev(node.right)
            op = node.op
            if isinstance(op, (ast.BitAnd, ast.BitOr, ast.RShift, ast.LShift)):
                if not (isinstance(a, BV) and isinstance(b, BV)):
                    raise NotInDomain(f'bit operation on non-integer in {unparse(node)}')
                try:
                    if isinstance(op, ast.BitAnd):
                        return a & b
                    if isinstance(op, ast.BitOr):
                        return a | b
                    if not b.is_const():
                        raise NotInDomain('shift by non-constant')
                    n = b.value()
                    if n >= 64:
                        raise NotInDomain('shift >= 64')
                    return a.shr(n) if isinstance(op, ast.RShift) else a.shl(n)
                except ValueError as e:
                    raise NotInDomain(str(e))
            pa, pb = to_poly(a), to_poly(b)
            try:
                if isinstance(op, ast.Add):
                    return pa + pb
                if isinstance(op, ast.Sub):
                    return pa - pb
                if isinstance(op, ast.Mult):
                    return pa * pb
                if isinstance(op, ast.Div):
                    return pa / pb
                if isinstance(op, ast.Pow):
                    return pa ** pb
            except ValueError as e:
                raise NotInDomain(f'{e} in {unparse(node)}')
            raise NotInDomain(f'operator {type(op).__name__}')
        if isinstance(node, ast.Call):
            cn = dotted(node.func)
            if self.call_fn is not None:
                r = self.call_fn(node, self)
                if r is not None:
                    return r
            m = INTCAST.match(cn or '')
            if m and len(node.args) == 1:
                v = self.ev(node.args[0])
                width, signed = int(m.group(2)), m.group(1) != 'u'
                if isinstance(v, BV):
                    return v.cast(width, signed)
                return v
            if cn in ('np.ubyte',) and len(node.args) == 1:
                v = self.ev(node.args[0])
                return v.cast(8, False) if isinstance(v, BV) else v
            if (cn in FLOATCASTS or cn in self.floatcast) and len(node.args) == 1:
                return to_poly(self.ev(node.args[0]))
            if cn == 'int' and len(node.args) == 1:
                return self.ev(node.args[0])
            raise NotInDomain(f'call {cn or unparse(node.func)}')
        raise NotInDomain(f'node {type(node).__name__}')
