"""Abstract values and state for the bounds prover."""
import itertools

from .lin import Lin, Facts

_counter = itertools.count()


def fresh(prefix):
    return f'{prefix}#{next(_counter)}'


class Val:
    pass


class Int(Val):
    """Integer scalar with a linear symbolic value."""
    def __init__(self, lin):
        self.lin = lin if isinstance(lin, Lin) else Lin.const(lin)

    def __repr__(self):
        return f'Int({self.lin})'


class Opaque(Val):
    """Anything we do not track (floats, dtypes, strings...). tag is informational."""
    def __init__(self, tag=''):
        self.tag = tag

    def __repr__(self):
        return f'Opaque({self.tag})'


class NoneV(Val):
    def __repr__(self):
        return 'None'


class Tup(Val):
    def __init__(self, items):
        self.items = list(items)

    def __repr__(self):
        return f'Tup({self.items})'


class Arr(Val):
    """Array value. dims: list of Lin (known rank) or None (rank unknown -> lazy per-axis symbols).
    nonesym: name of a 0/1 symbol that is 1 when the python value is None (optional arguments)."""
    def __init__(self, ident, dims=None, nonesym=None, tags=None):
        self.ident = ident
        self.dims = dims
        self.nonesym = nonesym
        self.tags = dict(tags or {})
        self._lazy = {}

    def dim(self, k, facts):
        if self.dims is not None:
            if k < 0:
                k += len(self.dims)
            if 0 <= k < len(self.dims):
                return self.dims[k]
            return None
        if k not in self._lazy:
            s = Lin.sym(f'{self.ident}.s{k}')
            self._lazy[k] = s
        facts.add_ge(self._lazy[k])
        return self._lazy[k]

    def with_dims(self, dims, ident=None, tags=None):
        return Arr(ident or fresh(self.ident.split('#')[0] + "'"), dims, None, tags if tags is not None else {})

    def __repr__(self):
        return f'Arr({self.ident},{self.dims})'


class Cond(Val):
    """Boolean with the linear facts implied by its truth (tf) and its falsity (ff);
    either may be None (= nothing linear known). sym: 0/1 symbol name for persistence."""
    def __init__(self, tf, ff, sym=None, flag=False):
        self.tf, self.ff, self.sym, self.flag = tf, ff, sym, flag

    def negate(self):
        return Cond(self.ff, self.tf, None, self.flag)

    def __repr__(self):
        return f'Cond({self.tf},{self.ff})'


class State:
    def __init__(self, parent=None):
        if parent is None:
            self.facts = Facts()
            self.env = {}
            self.elem = {}     # (array ident, index key) -> Val   (last stored element values)
            self.cases = {}    # symbol -> [(list of Lin>=0 conditions, Lin value)]
            self.content = {}  # array ident -> (lo Lin or None, hi Lin or None, assumed_reason or None)
            self.loopvars = {} # loop symbol -> (lo Lin, hi Lin) half-open range
        else:
            self.facts = parent.facts.copy()
            self.env = dict(parent.env)
            self.elem = dict(parent.elem)
            self.cases = dict(parent.cases)
            self.content = dict(parent.content)
            self.loopvars = dict(parent.loopvars)

    def copy(self):
        return State(self)


def cone(facts_ge, facts_eq, goal_syms, cases):
    """Cone of influence: facts transitively sharing symbols with the goal."""
    syms = set(goal_syms)
    ge = list(facts_ge)
    eq = list(facts_eq)
    used_ge, used_eq = [], []
    changed = True
    rem_ge, rem_eq = ge, eq
    while changed:
        changed = False
        nxt = []
        for l in rem_ge:
            if l.syms() & syms:
                used_ge.append(l)
                if not l.syms() <= syms:
                    syms |= l.syms()
                changed = True
            else:
                nxt.append(l)
        rem_ge = nxt
        nxt = []
        for l in rem_eq:
            if l.syms() & syms:
                used_eq.append(l)
                syms |= l.syms()
                changed = True
            else:
                nxt.append(l)
        rem_eq = nxt
    return used_ge, used_eq, syms
