"""Statement execution, calls and conditions for the bounds prover (extends bounds.Kernel)."""
import ast

from .lin import Lin
from .absval import Int, Opaque, NoneV, Tup, Arr, Cond, State, fresh
from . import prove
from .bounds import Kernel, INT_CASTS, ALLOC, ALLOC_LIKE, _ShapeOf
from .srcmodel import dotted, unparse, norm, walk_no_nested, stores_in, AnalysisError

RANGE = {'range', 'numba.prange', 'nb.prange', 'prange'}


class KernelX(Kernel):

    # ------------------------------------------------------------- conditions
    def as_cond(self, v, st):
        if isinstance(v, Cond):
            return v
        if isinstance(v, Int):
            # truthiness of an integer / 0-1 flag
            return Cond([v.lin - 1], [-v.lin], None, flag=True) if prove.entails_ge(st, v.lin) else Cond(None, [v.lin, -v.lin], None, True)
        if isinstance(v, NoneV):
            return Cond(None, [], None, True)
        return Cond(None, None, None, True)

    def cond(self, node, st, quiet=False):
        if isinstance(node, ast.BoolOp):
            cs = [self.cond(v, st, quiet) for v in node.values]
            if isinstance(node.op, ast.And):
                # conjuncts that are constantly true do not matter
                nontrivial = [c for c in cs if not (c.tf == [] and c.ff == [Lin.const(-1)])]
                if len(nontrivial) == 1:
                    return nontrivial[0]
                if any(c.tf == [Lin.const(-1)] for c in cs):
                    return Cond([Lin.const(-1)], [], None, True)
                tf = None
                if any(c.tf is not None for c in cs):
                    tf = [l for c in cs if c.tf for l in c.tf]
                ff = cs[0].ff if len(cs) == 1 else None
                return Cond(tf, ff, None, all(c.flag for c in cs))
            ff = None
            if all(c.ff is not None for c in cs):
                ff = [l for c in cs for l in c.ff]
            elif any(c.ff is not None for c in cs):
                ff = None
            return Cond(None, ff, None, all(c.flag for c in cs))
        if isinstance(node, ast.UnaryOp) and isinstance(node.op, ast.Not):
            return self.cond(node.operand, st, quiet).negate()
        if isinstance(node, ast.Compare) and len(node.ops) == 1:
            op = node.ops[0]
            a = self.ev(node.left, st, quiet)
            b = self.ev(node.comparators[0], st, quiet)
            if isinstance(op, (ast.Is, ast.IsNot)):
                arr, other = (a, b) if isinstance(a, Arr) else (b, a)
                if isinstance(arr, Arr) and isinstance(other, NoneV):
                    if arr.nonesym is None:
                        c = Cond(None if isinstance(op, ast.Is) else [], [] if isinstance(op, ast.Is) else None, None, True)
                        # a definitely-not-None array: "is None" is false
                        return Cond([Lin.const(-1)], [], None, True) if isinstance(op, ast.Is) else Cond([], [Lin.const(-1)], None, True)
                    s = Lin.sym(arr.nonesym)
                    c = Cond([s - 1], [-s], arr.nonesym, True)
                    return c if isinstance(op, ast.Is) else c.negate()
                if isinstance(a, NoneV) and isinstance(b, NoneV):
                    return Cond([], [Lin.const(-1)], None, True) if isinstance(op, ast.Is) else Cond([Lin.const(-1)], [], None, True)
                return Cond(None, None, None, True)
            if isinstance(a, Int) and isinstance(b, Int) and (a.lin - b.lin).is_const():
                d = (a.lin - b.lin).c
                truth = {ast.Lt: d < 0, ast.LtE: d <= 0, ast.Gt: d > 0, ast.GtE: d >= 0, ast.Eq: d == 0, ast.NotEq: d != 0}.get(type(op))
                if truth is not None:
                    return Cond([], [Lin.const(-1)], None, True) if truth else Cond([Lin.const(-1)], [], None, True)
            if isinstance(a, Int) and isinstance(b, Int):
                x, y = a.lin, b.lin
                if isinstance(op, ast.Lt):
                    return Cond([y - x - 1], [x - y])
                if isinstance(op, ast.LtE):
                    return Cond([y - x], [x - y - 1])
                if isinstance(op, ast.Gt):
                    return Cond([x - y - 1], [y - x])
                if isinstance(op, ast.GtE):
                    return Cond([x - y], [y - x - 1])
                if isinstance(op, (ast.Eq, ast.NotEq)):
                    # the negation of an equality is a disjunction, unless one side of it is already excluded
                    # by what is known on this path (N == 0 for a length N: the other outcome is N >= 1)
                    ne = None
                    if prove.entails_ge(st, x - y):
                        ne = [x - y - 1]
                    elif prove.entails_ge(st, y - x):
                        ne = [y - x - 1]
                    if isinstance(op, ast.Eq):
                        return Cond([x - y, y - x], ne)
                    return Cond(ne, [x - y, y - x])
            # opaque comparison: a named boolean flag so that repeated tests stay correlated
            return self._flag(node, st)
        if isinstance(node, ast.Compare):
            # chained comparison a < b < c
            parts = []
            left = node.left
            for op, right in zip(node.ops, node.comparators):
                parts.append(ast.Compare(left=left, ops=[op], comparators=[right]))
                left = right
            cs = [self.cond(ast.copy_location(p, node), st, quiet) for p in parts]
            tf = [l for c in cs if c.tf for l in c.tf] if any(c.tf is not None for c in cs) else None
            return Cond(tf, None)
        if isinstance(node, ast.Call) and dotted(node.func) == 'isinstance' and len(node.args) == 2:
            v = self.ev(node.args[0], st, quiet=True)
            types = unparse(node.args[1])
            TRUE, FALSE = Cond([], [Lin.const(-1)], None, True), Cond([Lin.const(-1)], [], None, True)
            if isinstance(v, Tup):
                return TRUE if 'tuple' in types or 'list' in types else FALSE
            if isinstance(v, Arr) and v.nonesym is None:
                return TRUE if 'ndarray' in types else FALSE
        v = self.ev(node, st, quiet)
        c = self.as_cond(v, st)
        if c.tf is None and c.ff is None and isinstance(node, (ast.Name, ast.Attribute, ast.Call)):
            return self._flag(node, st)
        return c

    def dnf(self, node, st, want=True, depth=0):
        """Alternatives (list of fact lists) under which `node` has truth value `want`; None if unknown."""
        if depth > 4:
            return None
        if isinstance(node, ast.UnaryOp) and isinstance(node.op, ast.Not):
            return self.dnf(node.operand, st, not want, depth + 1)
        if isinstance(node, ast.BoolOp):
            conj = isinstance(node.op, ast.And) == want      # conjunction of the parts' `want`
            parts = [self.dnf(v, st, want, depth + 1) for v in node.values]
            if conj:
                if any(p is None for p in parts):
                    parts = [p if p is not None else [[]] for p in parts]   # unknown conjunct: no facts
                out = [[]]
                for p in parts:
                    out = [a + b for a in out for b in p]
                    if len(out) > 8:
                        return None
                return out
            if any(p is None for p in parts):
                return None
            out = []
            for p in parts:
                out.extend(p)
            return out if len(out) <= 8 else None
        if isinstance(node, ast.Compare) and len(node.ops) == 1 and isinstance(node.ops[0], (ast.Eq, ast.NotEq)):
            a = self.ev(node.left, st, quiet=True)
            b = self.ev(node.comparators[0], st, quiet=True)
            if isinstance(a, Int) and isinstance(b, Int):
                eq = isinstance(node.ops[0], ast.Eq) == want
                x, y = a.lin, b.lin
                if eq:
                    return [[x - y, y - x]]
                return [[y - x - 1], [x - y - 1]]
        c = self.cond(node, st, quiet=True)
        f = c.tf if want else c.ff
        return [list(f)] if f is not None else None

    def _flag(self, node, st):
        """Opaque boolean expression -> persistent 0/1 symbol keyed by its text and the current
        values of its variables, so that equal tests on the same path agree."""
        parts = []
        for n in ast.walk(node):
            if isinstance(n, ast.Name) and n.id in st.env:
                v = st.env[n.id]
                parts.append(f'{n.id}={v.lin}' if isinstance(v, Int) else f'{n.id}@{id(v) if isinstance(v, Opaque) else getattr(v, "ident", "")}')
        name = f'flag[{unparse(node)}|{";".join(parts)}]'
        s = Lin.sym(name)
        st.facts.add_ge(s)
        st.facts.add_le(s, 1)
        return Cond([s - 1], [-s], name, True)

    # ------------------------------------------------------------------ calls
    def ev_Call(self, node, st, quiet):
        cn = dotted(node.func)
        # method calls on values
        if isinstance(node.func, ast.Attribute) and not cn.startswith(('np.', 'numba.', 'nb.', 'numpy.', 'math.')):
            recv = self.ev(node.func.value, st, quiet)
            args = [self.ev(a, st, quiet) for a in node.args]
            kws = {k.arg: self.ev(k.value, st, quiet) for k in node.keywords}
            if not isinstance(recv, (Arr, Tup)):
                # module-qualified call (bitpacked._unpack_rvint, util.cumsum, ...): keep it for call-site checks
                self.calls.append((cn, node, args, {k_: v_ for k_, v_ in kws.items() if k_}, st.copy() if self.record_stores else st))
            return self._method(recv, node.func.attr, args, kws, node, st)
        args = [self.ev(a, st, quiet) for a in node.args]
        kws = {k.arg: self.ev(k.value, st, quiet) for k in node.keywords if k.arg}
        base = cn.split('.')[-1]
        if cn == 'len' and args:
            a = args[0]
            if isinstance(a, Arr):
                d = a.dim(0, st.facts)
                return Int(d) if d is not None else Int(Lin.sym(fresh('len')))
            if isinstance(a, Tup):
                return Int(len(a.items))
            s = Lin.sym(fresh('len'))
            st.facts.add_ge(s)
            return Int(s)
        if isinstance(node.func, ast.Name) and isinstance(st.env.get(cn), Opaque) and len(args) == 1 and \
                st.env[cn].tag in ('attr:type', 'attr:float32', 'attr:float64') and not isinstance(args[0], Int):
            return args[0] if isinstance(args[0], Arr) else Opaque('float')
        if cn in INT_CASTS or (isinstance(node.func, ast.Name) and isinstance(st.env.get(cn), Opaque)
                               and (st.env[cn].tag.startswith('dtype') or st.env[cn].tag.startswith(('attr:int', 'attr:uint', 'attr:type'))) and len(args) == 1):
            a = args[0] if args else Int(0)
            if isinstance(a, Int):
                return a
            if isinstance(a, Cond):
                return self._cond_int(a, st)
            if isinstance(a, Arr):
                return a
            return self._trunc(node, a, st)
        if cn in ('min', 'max') and len(args) == 2 and all(isinstance(a, Int) for a in args):
            return Int(st.facts.minmax(cn, args[0].lin, args[1].lin))
        if cn in ('min', 'max'):
            ints = [a for a in args if isinstance(a, Int)]
            s = Lin.sym(fresh(cn))
            for a in ints:   # min(x, c) <= c even if x is opaque
                if cn == 'min':
                    st.facts.add_le(s, a.lin)
                else:
                    st.facts.add_le(a.lin, s)
            tr = [a for a in args if isinstance(a, Opaque) and a.tag.startswith('trunc')]
            return Int(s) if ints else Opaque(cn)
        if cn == 'abs' and args and isinstance(args[0], Int):
            s = Lin.sym(fresh('abs'))
            st.facts.add_ge(s)
            st.facts.add_ge(s - args[0].lin)
            st.facts.add_ge(s + args[0].lin)
            return Int(s)
        if cn == 'round' and args:
            if isinstance(args[0], Int):
                return args[0]
            return self._trunc(node, args[0], st, kind='round')
        if cn in ALLOC and args:
            return self._alloc(args[0], st, node)
        if cn in ALLOC_LIKE and args:
            a = args[0]
            if isinstance(a, Arr):
                keep = a.tags if cn in ('np.rint', 'np.floor', 'np.ceil', 'np.copy', 'np.ascontiguousarray', 'np.asarray', 'np.asanyarray') else {}
                return a.with_dims(a.dims, tags=keep) if a.dims is not None else self._like(a, st)
            if cn in ('np.float32', 'np.float64'):
                return Opaque('float')
            return Opaque(cn)
        if cn == 'np.linspace' and len(args) >= 3:
            n = args[2]
            dims = [n.lin] if isinstance(n, Int) else [self._fresh_dim(st, None)]
            r = Arr(fresh('linspace'), dims)
            lo, hi = args[0], args[1]
            if isinstance(lo, Int) and isinstance(hi, Int):
                r.tags['content'] = (lo.lin, hi.lin, None)
                r.tags['blocktable'] = (lo.lin, hi.lin)
                r.tags['int'] = True
            return r
        if cn == 'np.arange' and args:
            n = args[-1] if len(args) <= 2 else args[1]
            if len(args) == 1 and isinstance(n, Int):
                r = Arr(fresh('arange'), [n.lin])
                r.tags['content'] = (Lin.const(0), n.lin - 1, None)
                r.tags['int'] = True
                return r
            return Arr(fresh('arange'), [self._fresh_dim(st, None)])
        if cn == 'np.cumsum' and args and isinstance(args[0], Arr):
            a = args[0]
            if a.dims is not None and len(a.dims) == 1:
                return a.with_dims(a.dims)
            if a.dims is not None and len(a.dims) == 2 and (a.dims[0].is_const() or a.dims[1].is_const()):
                return Arr(fresh('cumsum'), [a.dims[0] * a.dims[1]])
            if a.dims is not None and len(a.dims) == 2:
                s = Lin.sym(f'prod[{a.dims[0]}*{a.dims[1]}]')
                st.facts.add_ge(s)
                return Arr(fresh('cumsum'), [s])
            return Arr(fresh('cumsum'), [self._fresh_dim(st, None)])
        if cn in ('np.sum', 'np.prod', 'np.max', 'np.min', 'np.mean', 'np.dot', 'np.any', 'np.all'):
            return Opaque(cn)
        if cn in ('np.diff',) and args and isinstance(args[0], Arr) and args[0].dims:
            return Arr(fresh('diff'), [args[0].dims[0] - 1] + args[0].dims[1:])
        if cn in ('np.searchsorted',) and len(args) >= 2 and isinstance(args[0], Arr):
            d0 = args[0].dim(0, st.facts)
            if isinstance(args[1], Arr):
                r = self._like(args[1], st)
                r.tags['content'] = (Lin.const(0), d0, None)
                r.tags['int'] = True
                return r
            s = Lin.sym(fresh('ss'))
            st.facts.add_ge(s)
            st.facts.add_le(s, d0)
            return Int(s)
        if cn in ('np.where', 'np.argsort', 'np.sort', 'np.concatenate', 'np.hstack', 'np.vstack', 'np.unique',
                  'np.nonzero', 'np.argwhere', 'np.flatnonzero', 'np.repeat', 'np.array', 'np.random.random',
                  'np.random.rand', 'np.random.randn', 'np.fromfile', 'np.frombuffer', 'np.bincount', 'np.histogram'):
            if cn == 'np.argsort' and args and isinstance(args[0], Arr):
                r = self._like(args[0], st)
                return r
            return Arr(fresh(base), None)
        if cn.endswith('get_thread_id'):
            s = Lin.sym(fresh('tid'))
            st.facts.add_ge(s)
            st.facts.add_lt(s, Lin.sym('NT'))
            return Int(s)
        if cn.endswith('get_num_threads'):
            return Int(Lin.sym('NT'))
        if cn.endswith('set_num_threads'):
            # afterwards get_num_threads() == the argument: model by a fact on NT when the arg is linear
            return Opaque('set_num_threads')
        if cn in RANGE:
            return Opaque('range')
        # helpers defined in the repository
        if base in self.helpers and cn in (base, ) or (base in self.helpers and '.' not in cn):
            return self._inline(self.helpers[base], args, kws, st)
        self.calls.append((cn, node, args, kws, st.copy() if self.record_stores else st))
        return self._call_result(cn, node, args, kws, st)

    def _call_result(self, cn, node, args, kws, st):
        res = (self.contract.get('call_results') or {}).get(cn.split('.')[-1])
        if res == 'arr':
            return Arr(fresh(cn.split('.')[-1]), None)
        if res == 'int_nonneg':
            s = Lin.sym(fresh(cn.split('.')[-1]))
            st.facts.add_ge(s)
            return Int(s)
        return Opaque('call:' + cn)

    def _cond_int(self, c, st):
        s = fresh('b')
        if c.sym:
            return Int(Lin.sym(c.sym))
        st.facts.add_ge(Lin.sym(s))
        st.facts.add_le(Lin.sym(s), 1)
        if c.tf is not None or c.ff is not None:
            st.cases[s] = [(list(c.tf or []), Lin.const(1)), (list(c.ff or []), Lin.const(0))]
        return Int(Lin.sym(s))

    def _trunc(self, node, a, st, kind='trunc'):
        """int(<float>) / round(<float>): fresh integer; the contract may bound it by its source text."""
        text = unparse(node)
        s = fresh(kind)
        sym = Lin.sym(s)
        for entry in self.contract.get('float_bounds', []):
            pat, lo, hi, reason = entry[:4]
            guards = entry[4] if len(entry) > 4 else []
            if pat in text:
                if guards and not self._has_exit_guards(node, guards):
                    continue          # the bound rests on range tests that are no longer there
                c = self._contract_lin(lo, st)
                if c is not None:
                    st.facts.add_ge(sym - c)
                c = self._contract_lin(hi, st)
                if c is not None:
                    st.facts.add_le(sym, c)
                self.assumed_syms[s] = reason
                break
        return Int(sym)

    def _has_exit_guards(self, node, guards):
        """Every guard text occurs as `if <guard>: return/raise/continue/break` (or as an elif of such a chain)
        in the function, textually before `node`."""
        have = set()
        for n in walk_no_nested(self.fn):
            if isinstance(n, ast.If) and n.lineno < getattr(node, 'lineno', 10**9) and n.body and \
                    isinstance(n.body[-1], (ast.Return, ast.Raise, ast.Continue, ast.Break)):
                have.add(unparse(n.test))
        return all(any(a in have for a in ([g] if isinstance(g, str) else g)) for g in guards)

    def _contract_lin(self, txt, st):
        if txt is None:
            return None
        v = self.ev(ast.parse(txt, mode='eval').body, st, quiet=True)
        return v.lin if isinstance(v, Int) else None

    def _alloc(self, shape, st, node):
        if isinstance(shape, Int):
            dims = [shape.lin]
        elif isinstance(shape, Tup) and all(isinstance(x, Int) for x in shape.items):
            dims = [x.lin for x in shape.items]
        elif isinstance(shape, _ShapeOf):
            return self._like(shape.arr, st)
        elif isinstance(shape, Tup):
            dims = [x.lin if isinstance(x, Int) else self._fresh_dim(st, None) for x in shape.items]
        else:
            return Arr(fresh('alloc'), None)
        return Arr(fresh('alloc'), dims)

    def _like(self, a, st):
        if a.dims is not None:
            return a.with_dims(a.dims)
        rk = self._rank_hint(a)
        if rk is not None:
            return Arr(fresh(a.ident + '.like'), [a.dim(k, st.facts) for k in range(rk)])
        r = Arr(fresh(a.ident + '.like'), None)
        r._lazy = a._lazy   # shares the per-axis size symbols
        for k in range(4):
            a.dim(k, st.facts)
        r._lazy = a._lazy
        return r

    def _method(self, recv, name, args, kws, node, st):
        if isinstance(recv, Arr):
            if name in ('astype', 'copy', 'view', 'conj', 'conjugate', 'cumsum', 'round', 'clip'):
                if name == 'cumsum' and recv.dims is not None and len(recv.dims) != 1:
                    return Arr(fresh('cumsum'), [self._fresh_dim(st, None)])
                r = recv.with_dims(recv.dims, tags=recv.tags) if recv.dims is not None else self._like(recv, st)
                if recv.dims is None:
                    r.tags = dict(recv.tags)
                return r
            if name == 'reshape':
                shp = args[0] if len(args) == 1 and isinstance(args[0], Tup) else Tup(args)
                dims = []
                for x in shp.items:
                    if isinstance(x, Int) and x.lin.is_const() and x.lin.c == -1:
                        total = None
                        if recv.dims is not None and len(recv.dims) == 1:
                            total = recv.dims[0]
                        elif len(shp.items) == 1:
                            # the flattened length is the array's element count: the same symbol as `<array>.size`
                            s = Lin.sym(f'{recv.ident}.size')
                            st.facts.add_ge(s)
                            total = s
                        dims.append(total if (total is not None and len(shp.items) == 1) else self._fresh_dim(st, None))
                    elif isinstance(x, Int):
                        dims.append(x.lin)
                    else:
                        dims.append(self._fresh_dim(st, None))
                return Arr(fresh('reshape'), dims, None, recv.tags)
            if name in ('sum', 'mean', 'max', 'min', 'prod', 'any', 'all', 'std'):
                ax = kws.get('axis', args[0] if args else None)
                if isinstance(ax, Int) and ax.lin.is_const() and recv.dims is not None:
                    k = int(ax.lin.c)
                    dims = [d for i, d in enumerate(recv.dims) if i != (k % len(recv.dims))]
                    return Arr(fresh(name), dims) if dims else Opaque(name)
                return Opaque(name)
            if name == 'argsort':
                return self._like(recv, st)
            if name in ('fill', 'sort', 'resize'):
                return NoneV()
            if name == 'transpose':
                return recv.with_dims(list(reversed(recv.dims))) if recv.dims is not None else Arr(fresh('T'), None)
            if name in ('ravel', 'flatten'):
                if recv.dims is not None and len(recv.dims) == 1:
                    return recv
                return Arr(fresh(name), [self._fresh_dim(st, None)])
        return Opaque('method:' + name)

    def _inline(self, fn, args, kws, st):
        """Tiny pure helper: summarise as a case symbol over its return paths."""
        params = [a.arg for a in fn.args.args]
        sub = st.copy()
        sub.env = dict(zip(params, args))
        sub.env.update(kws)
        rets = []      # (conds, Val)
        self._collect_returns(fn.body, sub, [], rets)
        self._merge_atoms(st, sub)
        if rets and all(isinstance(v, Int) for _, v in rets):
            if len(rets) == 1:
                return rets[0][1]
            s = fresh('ret')
            st.cases[s] = [(c, v.lin) for c, v in rets]
            return Int(Lin.sym(s))
        return Opaque('helper')

    def _collect_returns(self, body, st, conds, rets):
        """Structured walk of a helper body consisting of if/return/assign only."""
        for i, s in enumerate(body):
            if isinstance(s, ast.Return):
                v = self.ev(s.value, st, quiet=True) if s.value is not None else NoneV()
                rets.append((list(conds), v))
                return True
            if isinstance(s, ast.If):
                c = self.cond(s.test, st, quiet=True)
                if c.tf is None or c.ff is None:
                    rets.append((list(conds), Opaque('helper?')))
                    return True
                a = st.copy()
                ta = self._collect_returns(s.body, a, conds + c.tf, rets)
                b = st.copy()
                tb = self._collect_returns(s.orelse, b, conds + c.ff, rets) if s.orelse else False
                self._merge_atoms(st, a, b)
                if ta and tb:
                    return True
                if ta:
                    conds = conds + c.ff
                    continue
                if tb:
                    conds = conds + c.tf
                    continue
                rets.append((list(conds), Opaque('helper?')))
                return True
            if isinstance(s, ast.Assign) and len(s.targets) == 1 and isinstance(s.targets[0], ast.Name):
                st.env[s.targets[0].id] = self.ev(s.value, st, quiet=True)
                continue
            if isinstance(s, ast.Expr) and isinstance(s.value, ast.Constant):
                continue
            rets.append((list(conds), Opaque('helper?')))
            return True
        return False
