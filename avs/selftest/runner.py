"""Mutation self-test of the checkers: every variant is an in-memory edit of the current
source (nothing is written under /repo); must-fire variants have to produce a new REFUTED
obligation, must-stay-silent variants must not, and neither may make the analyser give up."""
import importlib
import os
import multiprocessing as mp

from ..core.srcmodel import Source, AnalysisError
from ..core import report


class V:
    def __init__(self, name, file, old, new, expect='fire', rule=None, count=1, edits=None):
        self.name, self.file, self.old, self.new = name, file, old, new
        self.expect, self.rule, self.count = expect, rule, count
        self.edits = edits  # optional list of (file, old, new, count) for multi-site variants


def _apply(v, base):
    edits = v.edits or [(v.file, v.old, v.new, v.count)]
    ov = {}
    for file, old, new, count in edits:
        text = ov.get(file) or base.text(file)
        if text.count(old) != count:
            return None
        ov[file] = text.replace(old, new)
    return ov


def _run_one(args):
    prop, idx = args
    from ..__main__ import run_rules
    mod = importlib.import_module(f'avs.selftest.variants.{prop.lower()}')
    v = mod.VARIANTS[idx]
    base = Source()
    ov = _apply(v, base)
    if ov is None:
        return dict(name=v.name, status='skipped', detail='edit site not present in current source')
    try:
        chk = run_rules(prop, Source(overrides=ov), 'quick')
        low = chk.check_floors()
        if low and not chk.refutations():
            raise AnalysisError(f'floors {low}')
        unk = chk.unknowns()
        if unk:
            raise AnalysisError(f'unknown {unk[0].rule} {unk[0].fullkey()}')
    except AnalysisError as e:
        return dict(name=v.name, status='fail', detail=f'analysis error on variant: {e}')
    except Exception as e:  # internal error on a variant
        return dict(name=v.name, status='fail', detail=f'internal error on variant: {type(e).__name__}: {e}')
    _, new = report.classify(chk)
    fired = [o for o in new if v.rule is None or o.rule == v.rule or o.rule.startswith(v.rule)]
    if v.expect == 'fire':
        if fired:
            return dict(name=v.name, status='ok', detail=f'fired {fired[0].rule} {fired[0].fullkey()}')
        return dict(name=v.name, status='fail', detail='must-fire variant not reported' +
                    (f' (other rules fired: {[o.rule for o in new][:3]})' if new else ''))
    if new:
        return dict(name=v.name, status='fail', detail=f'must-stay-silent variant reported {new[0].rule} {new[0].fullkey()}: {new[0].detail}')
    return dict(name=v.name, status='ok', detail='silent')


# ------------------------------------------------------------------------------------------------
# Corpus: the confirmed seeded changes (/verif/seeded, must fire for their property) and the behaviour-preserving
# refactorings (/verif/benign, must stay silent), applied in memory as overrides of the current source.
def apply_unified_diff(patch_text, read):
    """{relative path: new text}, or None when a hunk does not match the current text."""
    out = {}
    cur, lines, pos, new = None, None, 0, None
    hunks = []
    for ln in patch_text.split('\n'):
        if ln.startswith('+++ b/'):
            if cur is not None:
                hunks.append((cur, body))
            cur, body = ln[6:].strip(), []
        elif ln.startswith('--- ') or ln.startswith('diff ') or ln.startswith('index '):
            continue
        elif cur is not None:
            body.append(ln)
    if cur is not None:
        hunks.append((cur, body))
    import re
    for rel, body in hunks:
        try:
            src = read(rel).split('\n')
        except Exception:
            return None
        res, i = [], 0
        k = 0
        while k < len(body):
            m = re.match(r'^@@ -(\d+)(?:,(\d+))? \+(\d+)(?:,(\d+))? @@', body[k])
            if not m:
                k += 1
                continue
            start = int(m.group(1)) - 1
            res.extend(src[i:start])
            i = start
            k += 1
            while k < len(body) and not body[k].startswith('@@'):
                h = body[k]
                if h.startswith('\\'):
                    k += 1
                    continue
                if h.startswith('+'):
                    res.append(h[1:])
                elif h.startswith('-'):
                    if i >= len(src) or src[i] != h[1:]:
                        return None
                    i += 1
                else:
                    t = h[1:] if h.startswith(' ') else h
                    if i < len(src) and src[i] == t:
                        res.append(src[i])
                        i += 1
                    elif h == '' and k == len(body) - 1:
                        pass
                    else:
                        return None
                k += 1
        res.extend(src[i:])
        out[rel] = '\n'.join(res)
    return out


def _run_corpus(args):
    prop, kind, name, path = args
    from ..__main__ import run_rules
    base = Source()
    with open(path, encoding='utf-8') as f:
        ov = apply_unified_diff(f.read(), base.text_raw)
    if ov is None:
        return dict(name=name, status='skipped', detail='patch does not apply to the current source')
    try:
        chk = run_rules(prop, Source(overrides=ov), 'quick')
        unk = chk.unknowns()
        low = chk.check_floors()
        _, new = report.classify(chk)
        if kind == 'seed':
            if new:
                return dict(name=name, status='ok', detail=f'fired {new[0].rule}')
            return dict(name=name, status='fail', detail='confirmed breaking change not reported')
        if new:
            return dict(name=name, status='fail', detail=f'false alarm {new[0].rule} {new[0].fullkey()}')
        if unk or low:
            return dict(name=name, status='fail', detail=f'undecided on a behaviour-preserving change: {(unk[0].fullkey() if unk else low)}')
        return dict(name=name, status='ok', detail='silent')
    except AnalysisError as e:
        return dict(name=name, status='fail' , detail=f'analysis error: {e}')
    except Exception as e:
        return dict(name=name, status='fail', detail=f'internal error: {type(e).__name__}: {e}')


def corpus(prop, verbose=False):
    import glob
    import json
    root = os.path.dirname(os.path.dirname(os.path.dirname(os.path.abspath(__file__))))
    jobs = []
    for d in sorted(glob.glob(os.path.join(root, 'seeded', '*'))):
        mp_, pp = os.path.join(d, 'meta.json'), os.path.join(d, 'patch.diff')
        if os.path.isfile(mp_) and os.path.isfile(pp):
            try:
                meta = json.load(open(mp_))
            except ValueError:
                continue
            if meta.get('property') == prop:
                jobs.append((prop, 'seed', 'seeded/' + os.path.basename(d), pp))
    try:
        files = set(getattr(importlib.import_module(f'avs.rules.{prop.lower()}'), 'FILES', []))
    except ModuleNotFoundError:
        files = set()
    for pp in sorted(glob.glob(os.path.join(root, 'benign', '*', 'patch*.diff'))):
        with open(pp, encoding='utf-8') as f:
            touched = {ln[6:].strip() for ln in f if ln.startswith('+++ b/')}
        if touched & files:
            jobs.append((prop, 'benign', 'benign/' + os.path.basename(os.path.dirname(pp)) + '/' + os.path.basename(pp), pp))
    if not jobs:
        return dict(seeds=0, benign=0, failures=[])
    with mp.Pool(min(16, len(jobs))) as pool:
        res = pool.map(_run_corpus, jobs)
    if verbose:
        for r in res:
            print('  ', r['status'], r['name'], '--', r['detail'])
    return dict(seeds=sum(1 for j in jobs if j[1] == 'seed'), benign=sum(1 for j in jobs if j[1] == 'benign'),
                ok=sum(1 for r in res if r['status'] == 'ok'), skipped=sum(1 for r in res if r['status'] == 'skipped'),
                failures=[f"{r['name']}: {r['detail']}" for r in res if r['status'] == 'fail'])


def run(prop, seed=0, verbose=False):
    try:
        mod = importlib.import_module(f'avs.selftest.variants.{prop.lower()}')
    except ModuleNotFoundError:
        return dict(variants=0, failures=[], note='no variants registered')
    n = len(mod.VARIANTS)
    jobs = [(prop, i) for i in range(n)]
    if n > 2:
        with mp.Pool(min(16, n)) as pool:
            res = pool.map(_run_one, jobs)
    else:
        res = [_run_one(j) for j in jobs]
    fails = [f"{r['name']}: {r['detail']}" for r in res if r['status'] == 'fail']
    if verbose:
        for r in res:
            print('  ', r['status'], r['name'], '--', r['detail'])
    return dict(variants=n,
                must_fire=sum(1 for v in mod.VARIANTS if v.expect == 'fire'),
                must_stay_silent=sum(1 for v in mod.VARIANTS if v.expect != 'fire'),
                ok=sum(1 for r in res if r['status'] == 'ok'),
                skipped=sum(1 for r in res if r['status'] == 'skipped'),
                failures=fails,
                results=[dict(name=r['name'], status=r['status']) for r in res])
