"""Mutation self-test of the checkers: every variant is an in-memory edit of the current
source (nothing is written under /repo); must-fire variants have to produce a new REFUTED
obligation, must-stay-silent variants must not, and neither may make the analyser give up."""
import importlib
import multiprocessing as mp

from ..core.srcmodel import Source, AnalysisError
from ..core import report


class V:
    def __init__(self, name, file, old, new, expect='fire', rule=None, count=1, edits=None):
        self.name, self.file, self.old, self.new = name, file, old, new
        self.expect, self.rule, self.count = expect, rule, count
        self.edits = edits  # optional list of (file, old, new, count) for multi-site variants


def _apply(v, base):
    edits = v.edits or [(v.file, v.old, v.new, v.count)]
    ov = {}
    for file, old, new, count in edits:
        text = ov.get(file) or base.text(file)
        if text.count(old) != count:
            return None
        ov[file] = text.replace(old, new)
    return ov


def _run_one(args):
    prop, idx = args
    from ..__main__ import run_rules
    mod = importlib.import_module(f'avs.selftest.variants.{prop.lower()}')
    v = mod.VARIANTS[idx]
    base = Source()
    ov = _apply(v, base)
    if ov is None:
        return dict(name=v.name, status='skipped', detail='edit site not present in current source')
    try:
        chk = run_rules(prop, Source(overrides=ov), 'quick')
        low = chk.check_floors()
        if low and not chk.refutations():
            raise AnalysisError(f'floors {low}')
        unk = chk.unknowns()
        if unk:
            raise AnalysisError(f'unknown {unk[0].rule} {unk[0].fullkey()}')
    except AnalysisError as e:
        return dict(name=v.name, status='fail', detail=f'analysis error on variant: {e}')
    except Exception as e:  # internal error on a variant
        return dict(name=v.name, status='fail', detail=f'internal error on variant: {type(e).__name__}: {e}')
    _, new = report.classify(chk)
    fired = [o for o in new if v.rule is None or o.rule == v.rule or o.rule.startswith(v.rule)]
    if v.expect == 'fire':
        if fired:
            return dict(name=v.name, status='ok', detail=f'fired {fired[0].rule} {fired[0].fullkey()}')
        return dict(name=v.name, status='fail', detail='must-fire variant not reported' +
                    (f' (other rules fired: {[o.rule for o in new][:3]})' if new else ''))
    if new:
        return dict(name=v.name, status='fail', detail=f'must-stay-silent variant reported {new[0].rule} {new[0].fullkey()}: {new[0].detail}')
    return dict(name=v.name, status='ok', detail='silent')


def run(prop, seed=0, verbose=False):
    try:
        mod = importlib.import_module(f'avs.selftest.variants.{prop.lower()}')
    except ModuleNotFoundError:
        return dict(variants=0, failures=[], note='no variants registered')
    n = len(mod.VARIANTS)
    jobs = [(prop, i) for i in range(n)]
    if n > 2:
        with mp.Pool(min(16, n)) as pool:
            res = pool.map(_run_one, jobs)
    else:
        res = [_run_one(j) for j in jobs]
    fails = [f"{r['name']}: {r['detail']}" for r in res if r['status'] == 'fail']
    if verbose:
        for r in res:
            print('  ', r['status'], r['name'], '--', r['detail'])
    return dict(variants=n,
                must_fire=sum(1 for v in mod.VARIANTS if v.expect == 'fire'),
                must_stay_silent=sum(1 for v in mod.VARIANTS if v.expect != 'fire'),
                ok=sum(1 for r in res if r['status'] == 'ok'),
                skipped=sum(1 for r in res if r['status'] == 'skipped'),
                failures=fails,
                results=[dict(name=r['name'], status=r['status']) for r in res])
